#include <iostream>
#include "romea_core_common/regression/leastsquares/LeastSquares.hpp"
using namespace romea::core;
static Eigen::VectorXd solve(LeastSquares<double>& ls, int m, int p) {
  for (int i = 0; i < m; ++i) { for (int j = 0; j < p; ++j) ls.getJ()(i, j) = std::sin(1.0 + i * (j + 1)) + (i == j ? 2.0 : 0.0); ls.getY()(i) = 0.5 * i - 1.0; }
  return ls.estimateUsingCholeskyDecomposition();
}
int main() {
  LeastSquares<double> reused(2);
  reused.setDataSize(6);
  solve(reused, 6, 2);
  reused.setEstimateSize(4);
  reused.setDataSize(5);
  std::cout << "reused J is " << reused.getJ().rows() << "x" << reused.getJ().cols() << " for a 5x4 problem" << std::endl;
  LeastSquares<double> fresh(4);
  fresh.setDataSize(5);
  std::cout << "fresh  J is " << fresh.getJ().rows() << "x" << fresh.getJ().cols() << std::endl;
  Eigen::VectorXd a = solve(fresh, 5, 4);
  std::cout << "fresh  x = " << a.transpose() << std::endl;
  Eigen::VectorXd b = solve(reused, 5, 4);
  std::cout << "reused x = " << b.transpose() << std::endl;
  return (a - b).norm() < 1e-9 ? 0 : 1;
}
