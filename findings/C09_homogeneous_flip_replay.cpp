// Replay: sensor-facing normals for the HOMOGENEOUS point types.  A wall x = +-0.8 (0.8 m in front of / behind the sensor at the origin) is sampled on a grid;
// every normal must be (-+1, 0, 0): unit, least-variance direction, pointing toward the sensor (normal . point <= 0 on the cartesian part).
// The normal set is built the ordinary way, NormalSet<PointType>(N): default-constructed homogeneous coordinates (w = 1).
#include <cstdio>
#include "romea_core_common/pointset/PointSet.hpp"
#include "romea_core_common/pointset/NormalSet.hpp"
#include "romea_core_common/pointset/algorithms/NormalAndCurvatureEstimation.hpp"
#include "romea_core_common/coordinates/HomogeneousCoordinates.hpp"
using namespace romea::core;

template<typename P> int run(const char * name, double x)
{
  PointSet<P> points;
  for (int i = -10; i <= 10; ++i) {
    for (int j = -10; j <= 10; ++j) {
      points.push_back(P(x, 0.05 * i, 0.05 * j));
    }
  }
  NormalSet<P> normals(points.size());
  NormalAndCurvatureEstimation<P> estimator(10);
  estimator.compute(points, normals);
  size_t away = 0;
  for (size_t n = 0; n < points.size(); ++n) {
    if (normals[n].template head<3>().dot(points[n].template head<3>()) > 0) {++away;}
  }
  std::printf("%s, wall x = %+.1f: %zu of %zu normals point away from the sensor\n", name, x, away, points.size());
  return away != 0;
}

int main()
{
  int bad = 0;
  for (double x : {0.8, -0.8}) {     // the wall in front of and behind the sensor: the sign the eigen solver happens to return is right for one of them
    bad += run<Eigen::Vector3d>("Vector3d", x) + run<HomogeneousCoordinates3d>("HomogeneousCoordinates3d", x) + run<HomogeneousCoordinates3f>("HomogeneousCoordinates3f", x);
  }
  std::printf(bad ? "FAIL\n" : "PASS\n");
  return bad;
}
