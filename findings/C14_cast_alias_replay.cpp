// Replay: RayCasting::cast(origin, end) when `end` is the reference handed out by getOriginPoint() of the same caster
// (a ray from a new origin back to the previous origin).  The result must be the ray of the two POINTS.
#include <cstdio>
#include "romea_core_common/containers/grid/RayTracing.hpp"
using namespace romea::core;
int main()
{
  GridIndexMapping2d grid(10., 0.1);
  RayCasting2d caster(&grid);
  Eigen::Vector2d a(0.05, 0.05), b(0.55, 0.05);
  caster.cast(a, b);                                   // origin a
  auto ray = caster.cast(b, caster.getOriginPoint());  // from b back to the stored origin a
  RayCasting2d fresh(&grid);
  auto ref = fresh.cast(b, a);
  std::printf("aliased: %zu cells, fresh caster: %zu cells\n", ray.size(), ref.size());
  if (ray.size() != ref.size()) { std::printf("FAIL\n"); return 1; }
  for (size_t n = 0; n < ray.size(); ++n) if (ray[n] != ref[n]) { std::printf("FAIL cell %zu\n", n); return 1; }
  std::printf("PASS\n");
  return 0;
}
