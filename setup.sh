#!/bin/sh
# Builds the fact extractor (libTooling, clang 14) from files on disk only.  ~25 s.
set -e
cd "$(dirname "$0")"
mkdir -p build evidence .cache
SRC=tools/romea_facts.cc
BIN=build/romea-facts
if [ ! -x "$BIN" ] || [ "$SRC" -nt "$BIN" ]; then
  clang++ $(llvm-config-14 --cxxflags) -O1 -fno-rtti "$SRC" -o "$BIN" \
    /usr/lib/llvm-14/lib/libclang-cpp.so.14 /usr/lib/llvm-14/lib/libLLVM-14.so
fi
echo "setup ok: $BIN"
