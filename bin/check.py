#!/usr/bin/env python3
"""Static check driver:  check.py <Cxx> --tier quick|thorough [--root DIR]

Re-extracts facts from the source root's *current working tree* (Clang front end only, nothing is
executed), evaluates the property's rule instances and writes evidence/<Cxx>.json.
exit 0 = every rule instance HOLDS (or is a listed known finding); exit 1 = VIOLATION line(s);
exit 2 = ANALYSIS-BROKEN (an anchor vanished / idiom not interpretable): never a pass, never a violation."""
import argparse, importlib, json, os, sys, time, traceback

VERIF = os.path.dirname(os.path.dirname(os.path.abspath(__file__)))
sys.path.insert(0, VERIF)

from analysis import facts as F          # noqa: E402
from analysis import report              # noqa: E402


def run_property(prop, tier, root, write_evidence=True, quiet=False, selftest=True):
    t0 = time.time()
    mod = importlib.import_module('analysis.props.' + prop)
    R = report.Results(prop)
    meta = {'level': getattr(mod, 'LEVEL', 'other'), 'explanation': getattr(mod, 'EXPLANATION', ''),
            'assumptions': getattr(mod, 'ASSUMPTIONS', []), 'exhaustive': getattr(mod, 'EXHAUSTIVE', False)}
    try:
        if tier == 'thorough':
            units = F.all_units(root)
        else:
            units = [u if not u.startswith('verif:') else F.synthetic_unit(u[6:]) for u in mod.UNITS]
        meta['units'] = units
        if hasattr(mod, 'pre'):
            mod.pre(root, R)          # rules that do not need the facts (compile-time witnesses) run first
        fx = F.load(root, units)
        R.note('extraction', {'units': len(units), 'cache_hits': fx.cache_hits, 'wall_s': round(fx.wall_s, 2),
                              'function_bodies_seen': len(fx.functions)})
        mod.run(fx, R, tier)
        from analysis import hidden
        hidden.sweep(fx, R)
        if tier == 'thorough' and hasattr(mod, 'thorough'):
            mod.thorough(fx, R)
        if tier == 'thorough' and selftest:
            from analysis import selftest as ST
            ST.run_mutants(prop, root, R)
    except F.ExtractionError as e:
        R.undecided('extraction', 'front-end', str(e).replace('\n', ' | ')[:1500])
    except Exception as e:      # a crash of the analysis is analysis-broken, never a pass
        R.undecided('engine', 'internal-error', '%s: %s | %s' % (type(e).__name__, e, traceback.format_exc().replace('\n', ' | ')[-1500:]))
    return report.finish(R, tier, meta, t0, root, write_evidence=write_evidence, quiet=quiet)


def main():
    ap = argparse.ArgumentParser()
    ap.add_argument('prop')
    ap.add_argument('--tier', default=os.environ.get('VERIF_TIER', 'quick'), choices=['quick', 'thorough'])
    ap.add_argument('--root', default='/repo')
    ap.add_argument('--no-evidence', action='store_true')
    ap.add_argument('--no-selftest', action='store_true')
    ap.add_argument('--json', action='store_true', help='print machine-readable result (used by the mutant self-test)')
    a = ap.parse_args()
    code, res = run_property(a.prop, a.tier, os.path.abspath(a.root), write_evidence=not a.no_evidence,
                             quiet=a.json, selftest=not a.no_selftest)
    if a.json:
        print(json.dumps({'code': code,
                          'violations': [{'rule': v['rule'], 'site': v['instance'], 'what': v['detail']} for v in res['violations']],
                          'known': res['known'],
                          'undecided': [{'rule': v['rule'], 'instance': v['instance'], 'reason': v['detail']} for v in res['undecided']]}))
    sys.exit(code)


if __name__ == '__main__':
    main()
