"""E-WIT: compile-time witnesses.  One generated translation unit of static_asserts / instantiations is
type-checked with `clang++ -fsyntax-only -ferror-limit=0` (no code generation, nothing runs).  Each witness
is on its own line, so a failing witness is named individually."""
import os, re, subprocess, tempfile

FLAGS = ['-std=c++17', '-isystem', '/usr/include/eigen3', '-DNDEBUG', '-fsyntax-only', '-ferror-limit=0',
         '-Wno-everything', '-ftemplate-backtrace-limit=0']


def run(root, R, rule, spec):
    lines = []
    for h in spec.get('headers', []):
        lines.append('#include %s' % (h if h.startswith('<') else '"%s"' % h))
    owner = {}
    names = []
    for name, expr in spec.get('asserts', []):
        lines.append('static_assert(%s, "witness");' % expr)
        owner[len(lines)] = name
        names.append(name)
    for name, code in spec.get('compiles', []):
        assert '\n' not in code
        lines.append(code)
        owner[len(lines)] = name
        names.append(name)
    d = tempfile.mkdtemp(prefix='romea-verif-wit-')
    src = os.path.join(d, 'witness.cpp')
    try:
        with open(src, 'w') as f:
            f.write('\n'.join(lines) + '\n')
        r = subprocess.run(['clang++'] + FLAGS + ['-I' + os.path.join(root, 'include'), src],
                           stdout=subprocess.PIPE, stderr=subprocess.STDOUT, text=True)
        out = r.stdout
    finally:
        try:
            os.remove(src)
            os.rmdir(d)
        except OSError:
            pass
    failed = {}
    unattributed = []
    blocks = re.split(r'(?m)^(?=\S+:\d+:\d+: (?:fatal )?error:)', out)
    for b in blocks:
        m0 = re.match(r'(\S+):(\d+):(\d+): (?:fatal )?error: (.*)', b)
        if not m0:
            continue
        hit = None
        for m in re.finditer(re.escape(src) + r':(\d+):\d+', b):
            ln = int(m.group(1))
            if ln in owner:
                hit = owner[ln]
                break
        if hit is None:
            unattributed.append(m0.group(0)[:300])
        else:
            failed.setdefault(hit, m0.group(4)[:300])
    if r.returncode != 0 and not failed and not unattributed:
        unattributed.append(out[-500:])
    for u in unattributed:
        R.undecided(rule, 'witness-unit', 'front-end error not attributable to one witness: %s' % u.replace(root, '<root>'))
    for name in names:
        if name in failed:
            R.violated(rule, name, 'compile-time witness fails: %s' % failed[name].replace(root, '<root>'), 'witness unit', 'E-WIT')
        elif not unattributed:
            R.holds(rule, name, 'type-checks', engine='E-WIT')
    return failed
