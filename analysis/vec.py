"""Reader hook that treats element accesses  v[i] / v(i) / m(i,j)  of fixed-size Eigen objects (fields, locals, parameters)
as scalar pseudo-variables named  'v[i]'  (index printed: constant or the index variable's name)."""
import sympy as sp
from .tree import strip_casts, const_value, pp
from . import sym


def elem_name(e):
    """('field'|'local', base name, 'idx[,idx]') for an element access, else None."""
    e = strip_casts(e)
    if e is None or e.get('k') != 'Op' or e.get('op') not in ('[]', '()') or len(e.get('args', [])) not in (2, 3):
        return None
    base = strip_casts(e['args'][0])
    idx = []
    for a in e['args'][1:]:
        cv = const_value(a)
        if cv is not None:
            idx.append(str(int(cv)))
        else:
            a0 = strip_casts(a)
            if a0.get('k') == 'Ref':
                idx.append(a0['name'])
            else:
                return None
    if base['k'] == 'Member' and base.get('field') and strip_casts(base['base']).get('k') == 'This':
        return ('field', base['name'], ','.join(idx))
    if base['k'] == 'Ref' and base.get('rk') in ('local', 'param'):
        return ('local', base['name'], ','.join(idx))
    return None


def key(en):
    return ('this', '%s[%s]' % (en[1], en[2])) if en[0] == 'field' else ('loc', '%s[%s]' % (en[1], en[2]))


def hook(rd, e, st, ctx):
    if e.get('k') == 'Store':
        en = elem_name(e['lhs'])
        if en is None:
            return NotImplemented
        k = key(en)
        val = e['value']
        if e['op'] != '=':
            old = st.fields.get(k)
            if old is None:
                lt = strip_casts(e['lhs']).get('t', {})
                old = sp.Symbol(k[1], integer=True) if lt.get('c') == 'int' else sp.Symbol(k[1], real=True)
                st.fields[k] = old
            val = rd.arith(e['op'][:-1], old, val, {'t': {}, 'k': 'Bin', 'op': e['op'], 'l': e['lhs'], 'r': e['lhs']})
        st.fields[k] = val
        st.effects.append(('write', k, val))
        return [(val, st)]
    if e.get('k') == 'Op':
        en = elem_name(e)
        if en is not None:
            k = key(en)
            if k not in st.fields:
                t = e.get('t', {})
                st.fields[k] = sp.Symbol(k[1], integer=True) if t.get('c') == 'int' else sp.Symbol(k[1], real=True)
            return [(st.fields[k], st)]
    return NotImplemented


def comma_init(e):
    """Eigen comma initialiser  `target << a, b, c`  ->  (target node, [value nodes]) ; None otherwise."""
    from .tree import strip as _strip
    e = _strip(e)
    vals = []
    while e is not None and e.get('k') == 'Op' and e.get('op') == ',' and len(e.get('args', [])) == 2:
        vals.append(e['args'][1])
        e = strip_casts(e['args'][0])
    if e is not None and e.get('k') == 'Op' and e.get('op') == '<<' and len(e.get('args', [])) == 2:
        vals.append(e['args'][1])
        return e['args'][0], vals[::-1]
    if e is not None and e.get('k') == 'MCall' and e.get('m') == 'finished':
        return comma_init(e['obj'])
    return None
