"""E-LOCK: lockset / escape / critical-section analysis over the extracted trees (DESIGN.md section 3).

For one *concurrent entry point* (a method of a shared object) the engine walks the body, inlines every
resolved callee whose body is in the facts (depth-bounded, access paths re-rooted at the entry's `this`),
and records every read/write of a path rooted at `this` together with the set of mutexes held by RAII
guards at that point.  No code is executed."""
import re
from .tree import strip_casts, pp, short_fn

GUARD_TYPES = ('std::lock_guard<', 'std::unique_lock<', 'std::scoped_lock<', 'std::shared_lock<')
SHARED_GUARDS = ('std::shared_lock<',)      # reader side of a std::shared_mutex: holders of this mode run concurrently with each other
# methods of library containers/optionals/iterators that return a reference/iterator *into* the object:
ACCESSORS = {'front', 'back', 'at', 'operator[]', 'begin', 'end', 'cbegin', 'cend', 'rbegin', 'rend',
             'operator*', 'operator->', 'value', 'data', 'top', 'find', 'lower_bound', 'upper_bound'}
MAX_DEPTH = 8


def comp(e):
    """Path component of a field access: the field name, tagged with its declaring class so that a derived-class
    field shadowing a base-class field of the same name (two different mutexes called mutex_) stays distinct."""
    return e['name'] + '\x00' + e.get('cls', '')


def disp(path):
    return '.'.join(c.split('\x00')[0] for c in path)


def names(path):
    return tuple(c.split('\x00')[0] for c in path)


class Access:
    __slots__ = ('path', 'kind', 'locks', 'loc', 'fn', 'chain', 'tstr')

    def __init__(self, path, kind, locks, loc, fn, chain, tstr):
        self.path, self.kind, self.locks, self.loc, self.fn, self.chain, self.tstr = path, kind, locks, loc, fn, chain, tstr

    def mutexes(self):
        return {m for (m, _) in self.locks}

    def shared_mutexes(self):
        """mutexes held in shared (reader) mode only: acquisition ids of shared guards are negative"""
        return {m for (m, a) in self.locks if a < 0} - {m for (m, a) in self.locks if a > 0}

    def __repr__(self):
        return '%s %s locks=%s in %s @%s' % (self.kind, disp(self.path), sorted(disp(m) for m in self.mutexes()), short_fn(self.fn), self.loc)


class Summary:
    def __init__(self, entry):
        self.entry = entry
        self.accesses = []
        self.acquisitions = []      # (mutex path, acquisition id, loc, fn)
        self.ret_paths = []         # paths returned by reference/pointer from the entry itself (with lockset at return)
        self.undecided = []
        self.deadlocks = []
        self.inlined = set()


class _Ctx:
    def __init__(self, fn, this_paths, env, depth, chain):
        self.fn, self.this_paths, self.env, self.depth, self.chain = fn, this_paths, env, depth, chain
        self.ret_paths = []


class LockAnalysis:
    def __init__(self, facts):
        self.facts = facts
        self._acq = 0

    # ------------------------------------------------------------------
    def analyse(self, fn):
        S = Summary(fn)
        self.S = S
        self.locks = frozenset()
        ctx = _Ctx(fn, [('this',)], {}, 0, [fn['q']])
        for p in fn.get('params', []):
            ctx.env[p['id']] = [('param:' + p['name'],)] if (p['t'].get('ref') or p['t'].get('c') == 'ptr') else None
        self._run_body(fn, ctx)
        rt = fn['ret']
        if rt.get('ref') or rt.get('c') == 'ptr':
            S.ret_paths = ctx.ret_paths
        return S

    def _run_body(self, fn, ctx):
        if fn.get('ctor'):
            for i in fn.get('inits', []):
                if i.get('e') is not None:
                    self.ev(i['e'], ctx, 'R')
        self.ex(fn.get('body'), ctx)

    # ------------------------------------------------------------------
    def record(self, paths, kind, ctx, loc, tstr):
        for p in paths:
            if p and p[0] == 'this' and len(p) > 1:
                self.S.accesses.append(Access(p, kind, self.locks, self.facts.rel(loc), ctx.fn['q'], list(ctx.chain), tstr))

    def ex(self, s, ctx):
        if s is None:
            return
        k = s['k']
        if k == 'Compound':
            saved = self.locks
            for c in s['s']:
                self.ex(c, ctx)
            self.locks = saved
        elif k == 'If':
            self.ev(s['c'], ctx, 'R')
            saved = self.locks
            self.ex(s.get('t'), ctx)
            self.locks = saved
            self.ex(s.get('e'), ctx)
            self.locks = saved
            if s.get('unsupported'):
                self.S.undecided.append('%s at %s' % (s['unsupported'], s['loc']))
        elif k == 'For':
            saved = self.locks
            self.ex(s.get('init'), ctx)
            if s.get('c'): self.ev(s['c'], ctx, 'R')
            self.ex(s.get('b'), ctx)
            if s.get('inc'): self.ev(s['inc'], ctx, 'R')
            self.locks = saved
        elif k in ('While', 'Do'):
            saved = self.locks
            self.ev(s['c'], ctx, 'R')
            self.ex(s.get('b'), ctx)
            self.locks = saved
        elif k == 'RangeFor':
            saved = self.locks
            paths = self.ev(s['range'], ctx, 'R')
            v = s['var']
            ctx.env[v['id']] = paths if v['t'].get('ref') else None
            self.ex(s.get('b'), ctx)
            self.locks = saved
        elif k == 'Return':
            e = s.get('e')
            if e is None:
                return
            rt = ctx.fn['ret']
            if rt.get('ref') or rt.get('c') == 'ptr':
                paths = self.ev(e, ctx, 'N')
                ctx.ret_paths.append((paths, self.locks, self.facts.rel(s['loc'])))
            else:
                self.ev(e, ctx, 'R')
        elif k == 'Decl':
            for v in s['vars']:
                self.decl(v, ctx)
        elif k == 'Expr':
            self.ev(s['e'], ctx, 'R')
        elif k in ('Break', 'Continue', 'Null'):
            pass
        else:
            self.S.undecided.append('statement %s at %s not modelled by E-LOCK' % (s.get('cls', k), s.get('loc')))

    def decl(self, v, ctx):
        ts = v['t']['s']
        init = v.get('init')
        if ts.startswith(GUARD_TYPES):
            args = (init or {}).get('args', []) if init and init.get('k') == 'Construct' else []
            if len(args) == 2 and 'try_to_lock' in pp(args[1]):
                # conditional acquisition: the code that runs after the ownership test holds the mutex; the failure path is recorded -
                # an operation that gives up under contention is not an operation of any sequential ordering
                self.S.trylocks = getattr(self.S, 'trylocks', []) + [(self.facts.rel(v['loc']), ctx.fn['q'])]
                args = args[:1]
            elif len(args) == 2 and 'adopt_lock' in pp(args[1]):
                args = args[:1]
            if len(args) != 1:
                self.S.undecided.append('lock guard with %d arguments at %s (deferred/adopted locking not modelled)' % (len(args), v['loc']))
                return
            mpaths = self.ev(args[0], ctx, 'N')
            if len(mpaths) != 1:
                self.S.undecided.append('lock guard on an unresolved mutex at %s' % v['loc'])
                return
            m = mpaths[0]
            if m in {mm for (mm, _) in self.locks}:
                self.S.deadlocks.append((m, self.facts.rel(v['loc']), ctx.fn['q'], list(ctx.chain)))
            self._acq += 1
            acq = -self._acq if ts.startswith(SHARED_GUARDS) else self._acq
            self.S.acquisitions.append((m, acq, self.facts.rel(v['loc']), ctx.fn['q']))
            self.locks = self.locks | {(m, acq)}
            ctx.env[v['id']] = None
            return
        if init is None:
            ctx.env[v['id']] = None
            return
        if v['t'].get('ref') or v['t'].get('c') == 'ptr':
            ctx.env[v['id']] = self.ev(init, ctx, 'N')
        else:
            self.ev(init, ctx, 'R')
            ctx.env[v['id']] = None

    # ------------------------------------------------------------------
    def ev(self, e, ctx, mode):
        """Evaluates e; returns the list of object paths e denotes (if it is an lvalue/pointer into tracked storage).
        mode: 'R' the value is read, 'W' it is written, 'RW', 'N' only named (reference binding, address)."""
        if e is None:
            return []
        k = e['k']
        if k == 'This':
            return list(ctx.this_paths)
        if k == 'Member':
            if not e.get('field'):
                return self.ev(e['base'], ctx, 'N')
            bp = self.ev(e['base'], ctx, 'N')
            paths = [p + (comp(e),) for p in bp]
            if mode != 'N':
                for m in mode:
                    self.record(paths, m, ctx, e['loc'], e['t']['s'])
            return paths
        if k == 'Ref':
            rk = e.get('rk')
            if rk in ('local', 'param'):
                al = ctx.env.get(e['id'])
                if al:
                    if mode != 'N':
                        for m in mode:
                            self.record(al, m, ctx, e['loc'], e['t']['s'])
                    return list(al)
                return []
            return []
        if k in ('Cast', 'DefaultArg'):
            return self.ev(e['e'], ctx, mode)
        if k == 'Bin':
            op = e['op']
            if op == '=':
                self.ev(e['r'], ctx, 'R')
                return self.ev(e['l'], ctx, 'W')
            if op.endswith('=') and op not in ('==', '!=', '<=', '>='):
                self.ev(e['r'], ctx, 'R')
                return self.ev(e['l'], ctx, 'RW')
            if op == ',':
                self.ev(e['l'], ctx, 'R')
                return self.ev(e['r'], ctx, mode)
            self.ev(e['l'], ctx, 'R')
            self.ev(e['r'], ctx, 'R')
            return []
        if k == 'Un':
            op = e['op']
            if op in ('++', '--'):
                return self.ev(e['e'], ctx, 'RW')
            if op == '*':
                paths = self.ev(e['e'], ctx, 'N')
                if mode != 'N':
                    for m in mode:
                        self.record(paths, m, ctx, e['loc'], e['t']['s'])
                return paths
            if op == '&':
                return self.ev(e['e'], ctx, 'N')
            self.ev(e['e'], ctx, 'R')
            return []
        if k == 'Cond':
            self.ev(e['c'], ctx, 'R')
            return self.ev(e['a'], ctx, mode) + self.ev(e['b'], ctx, mode)
        if k == 'Index':
            self.ev(e['idx'], ctx, 'R')
            return self.ev(e['base'], ctx, mode)
        if k in ('Call', 'MCall', 'Op', 'Construct'):
            return self.call(e, ctx, mode)
        if k in ('InitList', 'StdInitList', 'Unknown', 'Throw'):
            for a in e.get('args', []) or []:
                self.ev(a, ctx, 'R')
            if e.get('e'):
                self.ev(e['e'], ctx, 'R')
            return []
        if k == 'Lambda':
            self.S.undecided.append('lambda at %s not modelled by E-LOCK' % e.get('loc'))
            return []
        return []

    # ------------------------------------------------------------------
    def call(self, e, ctx, mode):
        k = e['k']
        args = list(e.get('args', []))
        obj = None
        if k == 'MCall':
            obj = e['obj']
        elif k == 'Op' and e.get('member') and args:
            obj, args = args[0], args[1:]
        name = e.get('m') or (e.get('fn') or '').split('::')[-1]
        if k == 'Op':
            name = 'operator' + e['op']
        callee = self.facts.functions.get(e.get('fk')) if e.get('fk') else None
        if k in ('MCall',) and name in ('lock', 'unlock', 'try_lock') and obj is not None and \
                ('mutex' in obj['t']['s'] or obj['t']['s'].startswith(GUARD_TYPES)):
            self.S.undecided.append('manual %s() on %s at %s (only RAII guards are modelled)' % (name, pp(obj), e.get('loc')))
            return []
        # ---- inlinable repo function ---------------------------------
        if callee is not None and callee.get('body') is not None and e.get('inrepo'):
            if ctx.depth >= MAX_DEPTH:
                self.S.undecided.append('inlining depth exceeded at %s' % callee['q'])
                return []
            if callee['q'] in ctx.chain:
                self.S.undecided.append('recursion through %s' % callee['q'])
                return []
            if k == 'Construct':
                this_paths = [('tmp',)]
            elif obj is not None:
                this_paths = self.ev(obj, ctx, 'N') or [('tmp',)]
            else:
                this_paths = [('tmp',)]
            nctx = _Ctx(callee, this_paths, {}, ctx.depth + 1, ctx.chain + [callee['q']])
            params = callee.get('params', [])
            for i, p in enumerate(params):
                a = args[i] if i < len(args) else None
                if a is None:
                    nctx.env[p['id']] = None
                elif p['t'].get('ref') or p['t'].get('c') == 'ptr':
                    nctx.env[p['id']] = self.ev(a, ctx, 'N')
                else:
                    self.ev(a, ctx, 'R')
                    nctx.env[p['id']] = None
            self.S.inlined.add(callee['q'])
            saved = self.locks
            self._run_body(callee, nctx)
            self.locks = saved          # guards of the callee die at its closing brace
            rt = callee['ret']
            if rt.get('ref') or rt.get('c') == 'ptr':
                paths = []
                for (pp_, _locks, _loc) in nctx.ret_paths:
                    paths += pp_
                paths = list(dict.fromkeys(paths))
                if mode != 'N':
                    for m in mode:
                        self.record(paths, m, ctx, e['loc'], e['t']['s'])
                return paths
            return []
        # ---- opaque callee (library, or repo function without a body: implicit members) ----------
        pref = e.get('pref', [])
        for i, a in enumerate(args):
            pm = 'RW' if (i < len(pref) and pref[i] in (1, 3)) else 'R'
            self.ev(a, ctx, pm)
        if obj is not None:
            opaths = self.ev(obj, ctx, 'N')
            if name in ACCESSORS:
                if mode != 'N':
                    for m in mode:
                        self.record(opaths, m, ctx, e['loc'], obj['t']['s'])
                return opaths
            if e.get('mconst') or e.get('mstatic'):
                self.record(opaths, 'R', ctx, e['loc'], obj['t']['s'])
            else:
                self.record(opaths, 'W', ctx, e['loc'], obj['t']['s'])
                if name != 'operator=':
                    self.record(opaths, 'R', ctx, e['loc'], obj['t']['s'])
            if name in ('operator=', 'operator+=', 'operator-=', 'operator*=', 'operator/='):
                return opaths
            return []
        return []


def erase_scalars(q):
    return re.sub(r'<(double|float|int|long|unsigned long)>', '', short_fn(q))


def overlap(p, q):
    n = min(len(p), len(q))
    return p[:n] == q[:n]


def common(p, q):
    n = min(len(p), len(q))
    return p[:n]
