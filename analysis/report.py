"""Verdict collection, known-findings matching, evidence writing (DESIGN.md section 1)."""
import json, os, time

VERIF = os.path.dirname(os.path.dirname(os.path.abspath(__file__)))
KNOWN = os.path.join(VERIF, 'known_findings.json')

HOLDS, VIOLATED, UNDECIDED = 'HOLDS', 'VIOLATED', 'UNDECIDED'


class Results:
    def __init__(self, prop):
        self.prop = prop
        self.items = []
        self.extra = {}
        self.floors = {}
        self.fps = {}
        self.analysed = set()     # qualified names of functions whose bodies the rules read

    # -- recording -------------------------------------------------------
    def _add(self, verdict, rule, instance, detail, loc, engine):
        detail = detail if isinstance(detail, str) else str(detail)
        if len(detail) > 1200:          # whole symbolic matrices are not readable in a report: keep both ends
            detail = detail[:800] + ' ... [%d characters omitted] ... ' % (len(detail) - 1100) + detail[-300:]
        self.items.append({'rule': rule, 'instance': instance, 'verdict': verdict,
                           'detail': detail, 'loc': loc, 'engine': engine})

    def holds(self, rule, instance, detail='', loc=None, engine=None):
        self._add(HOLDS, rule, instance, detail, loc, engine)

    def violated(self, rule, site, what, loc=None, engine=None):
        """site: stable key of the offending construct (qualified names / field names / roles, never line numbers)."""
        self._add(VIOLATED, rule, site, what, loc, engine)

    def fingerprint(self, rule, site, value):
        """Numeric signature of what was OBSERVED at a violated site (the wrong formula evaluated on a fixed witness).  An open known finding that records a fingerprint suppresses only the deviation with
        that fingerprint: another wrong formula at the same site is a new violation."""
        self.fps.setdefault((rule, site), []).append(str(value))

    def undecided(self, rule, instance, reason, loc=None, engine=None):
        self._add(UNDECIDED, rule, instance, reason, loc, engine)

    def check(self, cond, rule, instance, what_if_false, detail_if_true='', loc=None, engine=None):
        if cond:
            self.holds(rule, instance, detail_if_true, loc, engine)
        else:
            self.violated(rule, instance, what_if_false, loc, engine)
        return cond

    def form(self, cond, rule, instance, what_if_unrecognised, detail_if_true='', loc=None, engine=None, facts=()):
        """Verdict discipline for structural (idiom) rules: the enumerated form HOLDS; otherwise the first *fact* that is true
        (a statement that holds whatever the form: a store that no path performs, roles that are provably exchanged ...) is a
        VIOLATION with its own message; with no such fact the form is merely not enumerated: UNDECIDED, never a violation."""
        if cond:
            self.holds(rule, instance, detail_if_true, loc, engine)
            return True
        for (is_true, message) in facts:
            if is_true:
                self.violated(rule, instance, message, loc, engine)
                return False
        self.undecided(rule, instance, what_if_unrecognised, loc, engine)
        return None

    def floor(self, rule, minimum):
        """Instance floor confirmed by hand on the pinned tree; falling below is UNDECIDED (vanished anchors)."""
        self.floors[rule] = minimum

    def used(self, *fns):
        for f in fns:
            if f is not None:
                self.analysed.add(f['q'] if isinstance(f, dict) else f)

    def note(self, key, value):
        self.extra[key] = value

    # -- finishing -------------------------------------------------------
    def apply_floors(self):
        counts = {}
        for it in self.items:
            counts[it['rule']] = counts.get(it['rule'], 0) + 1
        for rule, minimum in self.floors.items():
            n = counts.get(rule, 0)
            if n < minimum:
                self.undecided(rule, 'instance-floor', 'matched %d instance(s), confirmed floor is %d: anchor vanished or idiom changed' % (n, minimum))

    def by_rule(self):
        out = {}
        for it in self.items:
            r = out.setdefault(it['rule'], {'instances': 0, 'holds': 0, 'violated': 0, 'undecided': 0})
            r['instances'] += 1
            r[it['verdict'].lower()] += 1
        for rule, m in self.floors.items():
            out.setdefault(rule, {'instances': 0, 'holds': 0, 'violated': 0, 'undecided': 0})['floor'] = m
        return out


def load_known(prop):
    if not os.path.exists(KNOWN):
        return []
    with open(KNOWN) as f:
        d = json.load(f)
    return [k for k in d.get('findings', []) if k.get('property') == prop]


def finish(R, tier, meta, t0, root, write_evidence=True, quiet=False):
    """Prints the verdict lines, writes evidence + replay files, returns the exit code."""
    R.apply_floors()
    prop = R.prop
    known = load_known(prop)
    open_known = {(k['rule'], k['site']): k for k in known if k.get('status') == 'open'}
    lines = []
    violations, kf_hits, undecided = [], [], []
    dedup = set()
    for it in R.items:
        if it['verdict'] == VIOLATED:
            if (it['rule'], it['instance']) in dedup:
                continue
            dedup.add((it['rule'], it['instance']))
            k = open_known.get((it['rule'], it['instance']))
            fp_now = '|'.join(R.fps.get((it['rule'], it['instance']), []))
            if k is not None and k.get('fingerprint') and fp_now and k['fingerprint'] != fp_now:
                it = dict(it)
                it['detail'] = ('this site has a recorded known finding, but what is observed now is a DIFFERENT deviation (observed signature %s, recorded %s): ' % (fp_now[:120], k['fingerprint'][:120])) + it['detail']
                violations.append(it)
            elif k is not None:
                kf_hits.append((it, k))
            else:
                violations.append(it)
        elif it['verdict'] == UNDECIDED:
            undecided.append(it)
    if os.environ.get('VERIF_PRINT_FINGERPRINTS'):
        for (r_, s_), v_ in sorted(R.fps.items()):
            print('FINGERPRINT %s %s %s' % (r_, s_, '|'.join(v_)))
    seen_kf = set()
    for it, k in kf_hits:
        key = (it['rule'], it['instance'])
        if key in seen_kf:
            continue
        seen_kf.add(key)
        lines.append('KNOWN-FINDING: property=%s rule=%s site=%s %s' % (prop, it['rule'], it['instance'], k.get('what', it['detail'])))
    ev_dir = os.path.join(VERIF, 'evidence')
    replay_dir = os.path.join(ev_dir, 'replay')
    if write_evidence:
        os.makedirs(replay_dir, exist_ok=True)
        for f in os.listdir(replay_dir):
            if f.startswith(prop + '-'):
                os.remove(os.path.join(replay_dir, f))
    for n, it in enumerate(violations):
        path = os.path.join(replay_dir, '%s-%d.json' % (prop, n))
        if write_evidence:
            with open(path, 'w') as f:
                json.dump({'property': prop, 'rule': it['rule'], 'site': it['instance'], 'loc': it['loc'],
                           'what': it['detail'], 'engine': it['engine'], 'root': root,
                           'how_to_reproduce': 'python3-vt /verif/bin/check.py %s --tier %s' % (prop, tier)}, f, indent=1)
        lines.append('VIOLATION property=%s replay=%s' % (prop, path))
        lines.append('  rule=%s site=%s at %s: %s' % (it['rule'], it['instance'], it['loc'], it['detail']))
    for it in undecided:
        lines.append('ANALYSIS-BROKEN property=%s rule=%s instance=%s reason=%s' % (prop, it['rule'], it['instance'], it['detail']))

    if os.environ.get('VERIF_SHOW_HOLDS'):
        for it in R.items:
            if it['verdict'] == HOLDS and (os.environ['VERIF_SHOW_HOLDS'] in ('1', it['rule'])):
                lines.append('holds rule=%s instance=%s: %s' % (it['rule'], it['instance'], str(it['detail'])[:400]))
    n_obl = len(R.items)
    n_holds = sum(1 for it in R.items if it['verdict'] == HOLDS)
    wall = time.time() - t0
    if violations:
        code = 1        # a positively established violation stands even if other instances could not be decided
    elif undecided:
        code = 2
    else:
        code = 0
    status = {0: 'HOLDS', 1: 'VIOLATED', 2: 'ANALYSIS-BROKEN'}[code]
    lines.append('%s %s tier=%s obligations=%d holds=%d violated=%d known=%d undecided=%d units=%d functions=%d wall=%.1fs' % (
        prop, status, tier, n_obl, n_holds, len(violations), len(seen_kf), len(undecided),
        len(meta.get('units', [])), len(R.analysed), wall))
    if not quiet:
        print('\n'.join(lines))

    if write_evidence:
        samples = []
        seen_rules = set()
        for it in R.items:      # one sample per rule first, then fill
            if it['rule'] not in seen_rules:
                seen_rules.add(it['rule'])
                samples.append({k: it[k] for k in ('rule', 'instance', 'verdict', 'detail', 'loc', 'engine')})
        samples = samples[:40]
        distinct = len({(it['rule'], it['instance']) for it in R.items})
        cov = {
            'obligations': n_obl,
            'discharged': n_holds,
            'evaluations': n_obl,
            'distinct_nontrivial': distinct,
            'rule': 'one evaluation = one rule instance (rule x site) decided on the resolved program; distinct = distinct (rule, site) pairs; every instance reads at least one extracted function body or record, so none is trivial',
            'checker_cmd': 'python3-vt /verif/bin/check.py %s --tier %s' % (prop, tier),
            'trusted_base': ['clang 14 front end (parser, template instantiation, overload resolution, constant evaluator)',
                             'tools/romea_facts.cc tree export', 'analysis/*.py rule engines',
                             'sympy.polys exact arithmetic (E-ALG rules only)'],
            'explanation': meta.get('explanation', ''),
            'exhaustive': bool(meta.get('exhaustive', False)),
            'samples': samples,
            'units_parsed': [os.path.relpath(u, VERIF) if os.path.isabs(u) else u for u in meta.get('units', [])],
            'functions_analysed': sorted(R.analysed),
            'rules': R.by_rule(),
            'known_findings_reported': [{'rule': r, 'site': s} for (r, s) in sorted(seen_kf)],
            'undecided': [{'rule': it['rule'], 'instance': it['instance'], 'reason': it['detail']} for it in undecided],
            'violations': [{'rule': it['rule'], 'site': it['instance'], 'loc': it['loc'], 'what': it['detail']} for it in violations],
            'source_root': root,
        }
        cov.update(R.extra)
        ev = {
            'property_id': prop, 'tier': tier, 'seed': int(os.environ.get('VERIF_SEED', '0') or 0),
            'level': meta.get('level', 'other'), 'coverage': cov,
            'assumptions': meta.get('assumptions', []),
            'wall_s': round(wall, 2), 'violations': len(violations),
        }
        os.makedirs(ev_dir, exist_ok=True)
        tmp = os.path.join(ev_dir, '.%s.json.tmp' % prop)
        with open(tmp, 'w') as f:
            json.dump(ev, f, indent=1, sort_keys=False)
        os.replace(tmp, os.path.join(ev_dir, '%s.json' % prop))
    return code, {'violations': violations, 'known': sorted(seen_kf), 'undecided': undecided, 'lines': lines}
