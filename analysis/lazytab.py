"""Bounded typestate exploration of a per-axis table member (std::vector<std::vector<T>> indexed by axis).

Abstract state of an object: which axes of the table have been sized (`filled` bits).  The constructor and every public method that touches the
table are interpreted on that abstraction with concrete axis arguments: `T[i].empty()` guards are decided from the bits, `T[i].resize/assign/
push_back` (directly or through a reference alias, in the function or in an in-repo callee) sets bit i, loops over the axis are unrolled (DIM is a
template constant), and an element access `T[i][..]` or handing out `T[i]` needs bit i.  All call sequences up to a small depth are explored from
the constructed state; an access to an axis that is not filled is reported with the sequence.  A condition that involves neither the bits nor
constants forks both ways and taints the path: a finding on a tainted path is UNDECIDED, never a violation."""
from .tree import walk, strip_casts, pp

FILLERS = ('resize', 'assign', 'push_back', 'emplace_back', 'reserve_and_fill')


class Abort(Exception):
    pass


class Interp:
    def __init__(self, fx, cls, table, dim):
        self.fx, self.cls, self.table, self.dim = fx, cls, table, dim
        self.findings = []         # (axis, function, loc, tainted)

    # -- expressions ------------------------------------------------
    def val(self, e, env):
        e = strip_casts(e) if e is not None else None
        if e is None:
            return None
        if 'cv' in e and isinstance(e['cv'], (int, bool)):
            return int(e['cv'])
        k = e.get('k')
        if k == 'Int':
            return int(e['v'])
        if k == 'Ref':
            v = env['vars'].get(e.get('id'))
            return v if isinstance(v, int) else None
        if k == 'Bin' and e.get('op') in ('+', '-', '*', '<', '<=', '>', '>=', '==', '!='):
            a, b = self.val(e['l'], env), self.val(e['r'], env)
            if a is None or b is None:
                return None
            return {'+': a + b, '-': a - b, '*': a * b, '<': int(a < b), '<=': int(a <= b), '>': int(a > b), '>=': int(a >= b), '==': int(a == b), '!=': int(a != b)}[e['op']]
        return None

    def is_table(self, e):
        e = strip_casts(e)
        return e.get('k') == 'Member' and e.get('name') == self.table

    def axis_of(self, e, env):
        """axis index when e denotes T[i] (operator[], at, front, back, or a reference alias), 'unknown' when it denotes some axis, else None"""
        e = strip_casts(e)
        k = e.get('k')
        if k == 'Ref' and e.get('id') in env['alias']:
            return env['alias'][e['id']]
        if k == 'Op' and e.get('op') == '[]' and len(e.get('args', [])) == 2 and self.is_table(e['args'][0]):
            v = self.val(e['args'][1], env)
            return v if v is not None else 'unknown'
        if k == 'MCall' and self.is_table(e.get('obj') or {}):
            if e.get('m') == 'front':
                return 0
            if e.get('m') == 'back':
                return self.dim - 1
            if e.get('m') == 'at' and len(e.get('args', [])) == 1:
                v = self.val(e['args'][0], env)
                return v if v is not None else 'unknown'
        return None

    def cond(self, e, env, st):
        """1 / 0 / None"""
        e = strip_casts(e)
        k = e.get('k')
        if k == 'Un' and e.get('op') == '!':
            v = self.cond(e['e'], env, st)
            return None if v is None else 1 - v
        if k == 'Bin' and e.get('op') in ('&&', '||'):
            a, b = self.cond(e['l'], env, st), self.cond(e['r'], env, st)
            if e['op'] == '&&':
                return 0 if 0 in (a, b) else None if None in (a, b) else 1
            return 1 if 1 in (a, b) else None if None in (a, b) else 0
        if k == 'MCall' and e.get('m') == 'empty':
            ax = self.axis_of(e['obj'], env)
            if isinstance(ax, int):
                return 0 if st[ax] else 1
            if self.is_table(e['obj']):
                return 0
        if k == 'Bin' and e.get('op') in ('==', '!=', '<', '>', '<=', '>=') :
            # T[i].size() compared with 0
            for side, other in ((e['l'], e['r']), (e['r'], e['l'])):
                s_ = strip_casts(side)
                if s_.get('k') == 'MCall' and s_.get('m') == 'size' and isinstance(self.axis_of(s_['obj'], env), int) and self.val(other, env) == 0:
                    filled = st[self.axis_of(s_['obj'], env)]
                    if e['op'] == '==':
                        return 0 if filled else 1
                    if e['op'] in ('!=', '>') and side is e['l']:
                        return 1 if filled else 0
        v = self.val(e, env)
        return None if v is None else int(bool(v))

    def scan_reads(self, e, env, st, fn):
        """element accesses T[i][..] (and reads through aliases) below expression e"""
        for y in walk(e):
            if y.get('k') == 'Op' and y.get('op') == '[]' and len(y.get('args', [])) == 2:
                ax = self.axis_of(y['args'][0], env)
                if ax is not None:
                    self.need(ax, st, env, fn, y.get('loc'))
            if y.get('k') == 'MCall' and y.get('m') in ('at', 'front', 'back', 'data') and self.axis_of(y.get('obj') or {}, env) is not None:
                self.need(self.axis_of(y['obj'], env), st, env, fn, y.get('loc'))

    def need(self, ax, st, env, fn, loc):
        if ax == 'unknown':
            if not all(st):
                self.findings.append((None, fn['name'], loc, True))
        elif not st[ax]:
            self.findings.append((ax, fn['name'], loc, env['tainted']))

    # -- statements ----------------------------------------------------
    def run_fn(self, fn, args, st, depth=0, tainted=False):
        """returns the list of (state, tainted) after the call"""
        env = {'vars': {}, 'alias': {}, 'tainted': tainted}
        for p, a in zip(fn.get('params', []), args):
            env['vars'][p['id']] = a
        out = []
        for (s2, env2, _) in self.ex(fn.get('body'), list(st), env, fn, depth):
            out.append((s2, env2['tainted']))
        return out

    def ex(self, s, st, env, fn, depth):
        """yields (state, env, returned)"""
        if s is None:
            return [(st, env, False)]
        k = s.get('k')
        if k == 'Compound':
            cur = [(st, env, False)]
            for x in s['s']:
                nxt = []
                for (a, e_, r_) in cur:
                    nxt += [(a, e_, True)] if r_ else self.ex(x, a, e_, fn, depth)
                cur = nxt
                if len(cur) > 64:
                    raise Abort('too many paths in %s' % fn['name'])
            return cur
        if k == 'Decl':
            for v in s['vars']:
                init = v.get('init')
                if init is None:
                    continue
                ax = self.axis_of(init, env)
                if ax is not None and v['t'].get('ref'):
                    env = dict(env, alias=dict(env['alias']))
                    env['alias'][v['id']] = ax
                    continue
                if ax is not None:
                    self.need(ax, st, env, fn, v.get('loc'))       # a copy of the axis table
                self.calls(init, st, env, fn, depth)
                self.scan_reads(init, env, st, fn)
                val = self.val(init, env)
                env = dict(env, vars=dict(env['vars']))
                env['vars'][v['id']] = val
            return [(st, env, False)]
        if k == 'Expr':
            res = self.effects(s['e'], st, env, fn, depth)
            return [(a, dict(env, tainted=env['tainted'] or t), False) for (a, t) in res]
        if k == 'Return':
            if s.get('e') is not None:
                res = self.effects(s['e'], st, env, fn, depth)
                out = []
                for (a, t) in res:
                    e2 = dict(env, tainted=env['tainted'] or t)
                    ax = self.axis_of(s['e'], e2)
                    if ax is not None:
                        self.need(ax, a, e2, fn, s.get('loc'))
                    out.append((a, e2, True))
                return out
            return [(st, env, True)]
        if k == 'If':
            c = self.cond(s['c'], env, st)
            outs = []
            if c is None:
                mentions = any(self.axis_of(y, env) is not None or self.is_table(y) for y in walk(s['c']) if isinstance(y, dict) and y.get('k') in ('Op', 'MCall', 'Ref', 'Member'))
                if mentions:
                    raise Abort('guard `%s` on the table not interpretable' % pp(s['c']))
                e2 = dict(env, tainted=True)
                outs += self.ex(s.get('t'), list(st), e2, fn, depth)
                outs += self.ex(s.get('e'), list(st), e2, fn, depth)
                return outs
            return self.ex(s.get('t') if c else s.get('e'), st, env, fn, depth)
        if k == 'For':
            cur = self.ex(s.get('init'), st, env, fn, depth) if s.get('init') is not None else [(st, env, False)]
            out = []
            for _ in range(64):
                nxt = []
                for (a, e_, r_) in cur:
                    if r_:
                        out.append((a, e_, True))
                        continue
                    c = self.cond(s['c'], e_, a) if s.get('c') is not None else 1
                    if c is None:
                        # a loop that does not run over the axis: its body is scanned once for accesses, state effects are applied once
                        body_out = self.ex(s.get('b'), a, e_, fn, depth)
                        out += [(b_, e2, r2) for (b_, e2, r2) in body_out]
                        continue
                    if not c:
                        out.append((a, e_, False))
                        continue
                    for (b_, e2, r2) in self.ex(s.get('b'), a, e_, fn, depth):
                        if r2:
                            out.append((b_, e2, True))
                            continue
                        inc = strip_casts(s['inc']) if s.get('inc') is not None else None
                        if inc is not None and inc.get('k') == 'Un' and inc.get('op') in ('++', '--'):
                            tgt = strip_casts(inc['e'])
                            cur_v = e2['vars'].get(tgt.get('id'))
                            e2 = dict(e2, vars=dict(e2['vars']))
                            e2['vars'][tgt.get('id')] = None if cur_v is None else cur_v + (1 if inc['op'] == '++' else -1)
                        nxt.append((b_, e2, False))
                cur = nxt
                if not cur:
                    return out
            raise Abort('loop in %s does not end within 64 iterations' % fn['name'])
        if k in ('While', 'Do', 'RangeFor'):
            return self.ex(s.get('b'), st, dict(env, tainted=True), fn, depth)
        return [(st, env, False)]

    def calls(self, e, st, env, fn, depth):
        pass

    def effects(self, e, st, env, fn, depth):
        """applies fills and in-class calls of expression e; returns [(state, tainted)]"""
        states = [(list(st), False)]
        for y in walk(e):
            if not isinstance(y, dict):
                continue
            if y.get('k') == 'MCall' and y.get('m') in FILLERS:
                ax = self.axis_of(y.get('obj') or {}, env)
                if isinstance(ax, int):
                    for (a, _) in states:
                        a[ax] = True
                elif ax == 'unknown':
                    raise Abort('fill of an axis that is not a constant in %s' % fn['name'])
            if y.get('k') == 'MCall' and y.get('m') == 'clear':
                ax = self.axis_of(y.get('obj') or {}, env)
                if isinstance(ax, int):
                    for (a, _) in states:
                        a[ax] = False
                elif self.is_table(y.get('obj') or {}):
                    raise Abort('the whole table is cleared in %s' % fn['name'])
            if y.get('k') in ('MCall', 'Call') and y.get('inrepo') and y.get('fk') and depth < 4:
                g = self.fx.functions.get(y['fk'])
                obj = strip_casts(y['obj']) if y.get('obj') is not None else None
                if g is not None and g.get('body') is not None and g.get('cls') == self.cls and (obj is None or obj.get('k') == 'This') and self.touches(g):
                    args = [self.val(a_, env) for a_ in y.get('args', [])]
                    nxt = []
                    for (a, t) in states:
                        nxt += [(s2, t or t2) for (s2, t2) in self.run_fn(g, args, a, depth + 1, env['tainted'])]
                    states = nxt
        for (a, _) in states:
            self.scan_reads(e, env, a, fn)
        return states

    def touches(self, g, seen=None):
        seen = seen or set()
        if g['key'] in seen:
            return False
        seen.add(g['key'])
        for y in walk(g.get('body')):
            if isinstance(y, dict) and y.get('k') == 'Member' and y.get('name') == self.table:
                return True
            if isinstance(y, dict) and y.get('inrepo') and y.get('fk'):
                h = self.fx.functions.get(y['fk'])
                if h is not None and h.get('body') is not None and self.touches(h, seen):
                    return True
        return False


def explore(fx, cls, table, dim, ctor, methods, depth=3):
    """methods: [(label, fn, [args])].  Returns ('ok', n_states, n_sequences) | ('violated', text) | ('undecided', text)."""
    it = Interp(fx, cls, table, dim)
    try:
        start = it.run_fn(ctor, [None] * len(ctor.get('params', [])), [False] * dim)
    except Abort as a:
        return ('undecided', str(a))
    if it.findings:
        ax, fname, loc, tainted = it.findings[0]
        return ('undecided' if tainted else 'violated', 'the constructor accesses axis %s of the table before sizing it' % ax)
    frontier = [(tuple(s_), 'construct', t) for (s_, t) in start]
    seen = {}
    n_seq = 0
    for d in range(depth):
        nxt = []
        for (state, hist, tainted) in frontier:
            for (label, fn, args) in methods:
                it.findings = []
                try:
                    outs = it.run_fn(fn, args, list(state), 0, tainted)
                except Abort as a:
                    return ('undecided', '%s: %s' % (label, a))
                n_seq += 1
                h2 = hist + '; ' + label
                if it.findings:
                    ax, fname, loc, t2 = it.findings[0]
                    text = 'after `%s` the table has axes %s sized; %s then accesses axis %s%s, which is still empty' % (
                        hist, [i for i, b in enumerate(state) if b] or 'none', label, ax if ax is not None else '(some)', ' (in %s)' % fname if fname != fn['name'] else '')
                    return ('undecided' if (t2 or tainted) else 'violated', text)
                for (s2, t2) in outs:
                    key = (tuple(s2), t2 or tainted)
                    if key not in seen:
                        seen[key] = h2
                        nxt.append((tuple(s2), h2, t2 or tainted))
        frontier = nxt
        if not frontier:
            break
    return ('ok', len(seen) + 1, n_seq)
