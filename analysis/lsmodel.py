"""Symbolic small instance of romea::core::LeastSquares (E-ALG on a representative instance).

The solver is read by the symbolic reader on an instance with concrete SIZES and symbolic ENTRIES: 5 allocated rows, the current
problem uses the first 3 (rows 3, 4 are leftovers of an earlier, larger problem and carry their own symbols), 2 parameters; JtJ_, JtY_,
inverseJtJ_ start as unrelated symbols (what an earlier solve left there).  Loops are unrolled (their bounds are the concrete sizes);
Eigen views (col / head / array / topRows ...) are sub-matrices of sympy matrices; `X.ldlt().solve(B)` is X^-1 B.  Nothing is executed:
the result of every path is an exact rational function of the symbols, compared with the closed form of the statement."""
import sympy as sp
from . import sym, mat
from .tree import strip_casts, pp, const_value

ROWS, DATA, EST = 5, 3, 2


def M(name, r, c):
    return sp.ImmutableMatrix(r, c, lambda i, j: sp.Symbol('%s%d%d' % (name, i, j) if c > 1 else '%s%d' % (name, i), real=True))


class Instance:
    def __init__(self, data=DATA, est=EST, rows=ROWS):
        self.data, self.est, self.rows = data, est, rows
        self.J, self.Y, self.W = M('j', rows, est), M('y', rows, 1), M('w', rows, 1)
        self.A, self.B = M('a', est, est), M('b', est, 1)
        self.old = {'JtJ_': M('oldJtJ', est, est), 'JtY_': M('oldJtY', est, 1), 'inverseJtJ_': M('oldInv', est, est)}
        self.init = {'J_': self.J, 'Y_': self.Y, 'W_': self.W, 'Ac_': self.A, 'Bc_': self.B, 'dataSize_': sp.Integer(data), 'estimateSize_': sp.Integer(est)}
        self.init.update(self.old)

    def stale(self):
        """symbols of rows beyond the current problem and of the matrices left by earlier solves"""
        s = set()
        for X in (self.J, self.Y, self.W):
            for i in range(self.data, self.rows):
                for j in range(X.shape[1]):
                    s.add(X[i, j])
        return s, {x for m_ in self.old.values() for x in m_}

    def cur(self):
        return self.J[:self.data, :], self.Y[:self.data, :], self.W[:self.data, :]


class Hook:
    def __init__(self, inst):
        self.inst = inst
        self.denominators = None

    # whole-field reads
    def member(self, rd, e, path, st):
        if len(path) == 2 and path[0] == 'this' and path[1] in self.inst.init:
            if path not in st.fields:
                st.fields[path] = self.inst.init[path[1]]
            return st.fields[path]
        return NotImplemented

    def view(self, rd, node, st, ctx):
        """lvalue view: (field path, row indices, col indices) or None"""
        node = strip_casts(node)
        k = node.get('k')
        if k == 'Member':
            lv = rd.lvalue(node, st, ctx)
            if lv and lv[0] == 'field':
                Mx = self.member(rd, node, lv[1], st)
                if isinstance(Mx, sp.MatrixBase):
                    return (lv[1], list(range(Mx.shape[0])), list(range(Mx.shape[1])))
            return None
        if k == 'MCall' and not node.get('inrepo'):
            base = self.view(rd, node['obj'], st, ctx)
            if base is None:
                return None
            path, rows, cols = base[:3]
            name = node.get('m')
            args = []
            for a in node.get('args', []):
                v = rd.ev(a, st, ctx)
                if len(v) != 1 or not isinstance(v[0][0], sp.Integer):
                    return None
                args.append(int(v[0][0]))
            if name in ('array', 'matrix', 'noalias', 'derived'):
                return base
            if len(base) == 4:
                return None                      # no further sub-views of a diagonal
            if name == 'diagonal' and not args and len(rows) == len(cols):
                return (path, rows, cols, 'diag')
            if name == 'col' and len(args) == 1:
                return (path, rows, [cols[args[0]]])
            if name == 'row' and len(args) == 1:
                return (path, [rows[args[0]]], cols)
            if name in ('head', 'topRows') and len(args) == 1:
                return (path, rows[:args[0]], cols)
            if name in ('segment', 'middleRows') and len(args) == 2:
                if args[0] < 0 or args[1] < 0 or args[0] + args[1] > len(rows):
                    raise sym.Unsupported('view %s(%d, %d) leaves the %d rows of the buffer at %s' % (name, args[0], args[1], len(rows), node.get('loc')))
                return (path, rows[args[0]:args[0] + args[1]], cols)
            if name in ('tail', 'bottomRows') and len(args) == 1:
                return (path, rows[len(rows) - args[0]:], cols)
            if name == 'middleCols' and len(args) == 2:
                return (path, rows, cols[args[0]:args[0] + args[1]])
            if name == 'block' and len(args) == 4:
                return (path, rows[args[0]:args[0] + args[2]], cols[args[1]:args[1] + args[3]])
            if name == 'topLeftCorner' and len(args) == 2:
                return (path, rows[:args[0]], cols[:args[1]])
            if name == 'leftCols' and len(args) == 1:
                return (path, rows, cols[:args[0]])
        return None

    def __call__(self, rd, e, st, ctx):
        k = e.get('k')
        if k == 'Store':
            l = strip_casts(e['lhs'])
            val = e['value']
            # element store X(i,j) / X(i)
            if l.get('k') == 'Op' and l.get('op') in ('()', '[]'):
                base = self.view(rd, l['args'][0], st, ctx)
                idx = []
                for a in l['args'][1:]:
                    v = rd.ev(a, st, ctx)
                    if len(v) != 1 or not isinstance(v[0][0], sp.Integer):
                        return NotImplemented
                    idx.append(int(v[0][0]))
                if base is not None and len(base) == 3 and idx and not isinstance(val, sp.MatrixBase):
                    path, rows, cols = base
                    i, j = (idx[0], idx[1]) if len(idx) == 2 else (idx[0], 0)
                    X = sp.Matrix(st.fields[path])
                    if e['op'] != '=':
                        val = rd.arith(e['op'][:-1], X[rows[i], cols[j]], val, {'t': {}, 'k': 'Bin', 'op': e['op'], 'l': e['lhs'], 'r': e['lhs']})
                    X[rows[i], cols[j]] = val
                    st.fields[path] = sp.ImmutableMatrix(X)
                    return [(val, st)]
            # view store  X.col(i).head(n).array() op= V
            vw = self.view(rd, l, st, ctx)
            if vw is not None and len(vw) == 4 and isinstance(val, (sp.MatrixBase, sp.Basic)):
                path, rows, cols = vw[:3]
                X = sp.Matrix(st.fields[path])
                V = list(val) if isinstance(val, sp.MatrixBase) else [val] * len(rows)
                if len(V) != len(rows):
                    raise sym.Unsupported('shape mismatch in a diagonal store at %s' % l.get('loc'))
                for a, (r_, c_) in enumerate(zip(rows, cols)):
                    old = X[r_, c_]
                    X[r_, c_] = {'=': V[a], '*=': old * V[a], '/=': old / V[a], '+=': old + V[a], '-=': old - V[a]}[e['op']]
                st.fields[path] = sp.ImmutableMatrix(X)
                return [(val, st)]
            if vw is not None and isinstance(val, (sp.MatrixBase, sp.Basic)):
                path, rows, cols = vw
                X = sp.Matrix(st.fields[path])
                V = val if isinstance(val, sp.MatrixBase) else sp.Matrix(len(rows), len(cols), lambda i, j: val)
                if V.shape != (len(rows), len(cols)):
                    if V.shape == (len(cols), len(rows)) and 1 in V.shape:
                        V = V.T
                    else:
                        raise sym.Unsupported('shape mismatch in a view store at %s' % l.get('loc'))
                for a, r_ in enumerate(rows):
                    for b, c_ in enumerate(cols):
                        old = X[r_, c_]
                        if e['op'] == '/=' and getattr(self, 'denominators', None) is not None and V[a, b].free_symbols:
                            self.denominators.append((V[a, b], l.get('loc')))
                        X[r_, c_] = {'=': V[a, b], '*=': old * V[a, b], '/=': old / V[a, b], '+=': old + V[a, b], '-=': old - V[a, b]}[e['op']]
                st.fields[path] = sp.ImmutableMatrix(X)
                return [(val, st)]
            return NotImplemented
        if k == 'Op' and e.get('op') in ('()', '[]') and not e.get('inrepo') and len(e.get('args', [])) in (2, 3):
            out = []
            for (vals, s2) in rd.evs(e['args'], st, ctx):
                if isinstance(vals[0], sp.MatrixBase) and all(isinstance(v, sp.Integer) for v in vals[1:]):
                    out.append((vals[0][int(vals[1]), int(vals[2])] if len(vals) == 3 else vals[0][int(vals[1]), 0] if vals[0].shape[1] == 1 else vals[0][0, int(vals[1])], s2))
                else:
                    return NotImplemented
            return out
        if k == 'Call':
            fq = e.get('fn') or ''
            tail = fq.split('::')[-1]
            if tail in ('quiet_NaN', 'signaling_NaN') and 'numeric_limits' in fq:
                return [(sp.nan, st)]
            if tail == 'epsilon' and 'numeric_limits<' in fq:
                return [(sp.Rational(1, 2 ** 23) if 'numeric_limits<float>' in fq else sp.Rational(1, 2 ** 52), st)]
            if tail.split('<')[0] in ('max', 'min') and fq.startswith('std::') and 'numeric_limits' not in fq and len(e.get('args', [])) == 2:
                out = []
                for (vals, s2) in rd.evs(e['args'], st, ctx):
                    if all(isinstance(v, sp.Basic) and v.is_number for v in vals):
                        out.append(((sp.Max if tail.split('<')[0] == 'max' else sp.Min)(*vals), s2))
                    else:
                        return NotImplemented
                return out
            if tail in ('Identity', 'Zero', 'Ones', 'Constant') and 'Eigen::' in fq:
                out = []
                for (vals, s2) in rd.evs(e.get('args', []), st, ctx):
                    if not all(isinstance(v, sp.Basic) for v in vals):
                        return NotImplemented
                    dims = [int(v) for v in vals if isinstance(v, sp.Integer)][:2]
                    if tail == 'Constant':
                        dims = [int(v) for v in vals[:-1]]
                    if not dims:
                        return NotImplemented
                    r_, c_ = (dims[0], dims[1]) if len(dims) == 2 else (dims[0], 1)
                    if tail == 'Identity':
                        out.append((sp.ImmutableMatrix(sp.eye(r_, c_)), s2))
                    elif tail == 'Zero':
                        out.append((sp.ImmutableMatrix(sp.zeros(r_, c_)), s2))
                    elif tail == 'Ones':
                        out.append((sp.ImmutableMatrix(sp.ones(r_, c_)), s2))
                    else:
                        out.append((sp.ImmutableMatrix(r_, c_, lambda i, j: vals[-1]), s2))
                return out
        if k == 'MCall' and not e.get('inrepo'):
            name = e.get('m')
            if name == 'data':
                raise sym.Unsupported('raw pointer into a buffer (%s) at %s' % (pp(e)[:60], e.get('loc')))
            if name in ('setConstant', 'setZero', 'setOnes', 'fill') and len(e.get('args', [])) <= 1:
                vw = self.view(rd, e['obj'], st, ctx)
                if vw is not None and len(vw) == 3:
                    out = []
                    for (av, s2) in rd.evs(e.get('args', []), st, ctx):
                        val = av[0] if av else (sp.Integer(0) if name == 'setZero' else sp.Integer(1))
                        if not isinstance(val, sp.Basic) or isinstance(val, sp.MatrixBase):
                            return NotImplemented
                        path, rows, cols = vw
                        X = sp.Matrix(s2.fields[path])
                        for r_ in rows:
                            for c_ in cols:
                                X[r_, c_] = val
                        s2.fields[path] = sp.ImmutableMatrix(X)
                        out.append((s2.fields[path], s2))
                    return out
            if name in ('ldlt', 'llt', 'fullPivLu', 'partialPivLu', 'colPivHouseholderQr', 'householderQr', 'fullPivHouseholderQr') and not e.get('args'):
                return [(('decomposition', ov), s2) for (ov, s2) in rd.ev(e['obj'], st, ctx)]
            if name == 'compute' and len(e.get('args', [])) == 1 and ((strip_casts(e['obj']).get('t') or {}).get('s', '')).replace('const ', '').startswith(
                    ('Eigen::LDLT<', 'Eigen::LLT<', 'Eigen::PartialPivLU<', 'Eigen::FullPivLU<', 'Eigen::ColPivHouseholderQR<', 'Eigen::HouseholderQR<', 'Eigen::FullPivHouseholderQR<')):
                # a stored factorisation object (member or local) is given a new matrix: from here on it stands for that matrix
                lv = rd.lvalue(strip_casts(e['obj']), st, ctx)
                if lv and lv[0] in ('field', 'local'):
                    out = []
                    for (v_, s2) in rd.ev(e['args'][0], st, ctx):
                        if not isinstance(v_, sp.MatrixBase):
                            return NotImplemented
                        if lv[0] == 'field':
                            s2.fields[lv[1]] = ('decomposition', v_)
                        else:
                            s2.locals[lv[1]] = ('decomposition', v_)
                        out.append((('decomposition', v_), s2))
                    return out
            out = []
            for (ov, s2) in rd.ev(e['obj'], st, ctx):
                if isinstance(ov, tuple) and len(ov) == 2 and ov[0] == 'decomposition' and name == 'solve' and isinstance(ov[1], sp.MatrixBase):
                    for (av, s3) in rd.evs(e.get('args', []), s2, ctx):
                        if len(av) == 1 and isinstance(av[0], sp.MatrixBase) and ov[1].shape[0] == ov[1].shape[1] <= 3:
                            out.append((sp.ImmutableMatrix(ov[1].inv() * av[0]), s3))
                        else:
                            return NotImplemented
                    continue
                if not isinstance(ov, sp.MatrixBase):
                    return NotImplemented
                for (av, s3) in rd.evs(e.get('args', []), s2, ctx):
                    r = self.method(name, ov, av)
                    if r is NotImplemented:
                        return NotImplemented
                    out.append((r, s3))
            return out
        if k == 'Construct' and len(e.get('args', [])) == 1 and e['t']['s'].replace('const ', '').startswith(('Eigen::LDLT<', 'Eigen::LLT<', 'Eigen::PartialPivLU<', 'Eigen::FullPivLU<', 'Eigen::ColPivHouseholderQR<',
                                                                                                           'Eigen::HouseholderQR<', 'Eigen::FullPivHouseholderQR<')):
            return [(('decomposition', v), s2) for (v, s2) in rd.ev(e['args'][0], st, ctx)]
        if k == 'Construct' and ', -1, ' in e['t']['s'] and len(e.get('args', [])) == 1:
            return rd.ev(e['args'][0], st, ctx)
        return mat.hook(rd, e, st, ctx)

    @staticmethod
    def method(name, X, args):
        ints = [int(a) for a in args if isinstance(a, sp.Integer)]
        if name in ('array', 'matrix', 'eval', 'noalias', 'derived'):
            return X
        if name in ('transpose', 'adjoint'):
            return sp.ImmutableMatrix(X.T)
        if name == 'col' and len(ints) == 1:
            return sp.ImmutableMatrix(X[:, ints[0]])
        if name == 'row' and len(ints) == 1:
            return sp.ImmutableMatrix(X[ints[0], :])
        if name in ('head', 'topRows') and len(ints) == 1:
            return sp.ImmutableMatrix(X[:ints[0], :])
        if name in ('segment', 'middleRows') and len(ints) == 2:
            if ints[0] < 0 or ints[1] < 0 or ints[0] + ints[1] > X.shape[0]:
                raise sym.Unsupported('view %s(%d, %d) leaves the %d rows of the matrix' % (name, ints[0], ints[1], X.shape[0]))
            return sp.ImmutableMatrix(X[ints[0]:ints[0] + ints[1], :])
        if name in ('tail', 'bottomRows') and len(ints) == 1:
            return sp.ImmutableMatrix(X[X.shape[0] - ints[0]:, :])
        if name == 'middleCols' and len(ints) == 2:
            return sp.ImmutableMatrix(X[:, ints[0]:ints[0] + ints[1]])
        if name == 'block' and len(ints) == 4:
            return sp.ImmutableMatrix(X[ints[0]:ints[0] + ints[2], ints[1]:ints[1] + ints[3]])
        if name == 'topLeftCorner' and len(ints) == 2:
            return sp.ImmutableMatrix(X[:ints[0], :ints[1]])
        if name == 'leftCols' and len(ints) == 1:
            return sp.ImmutableMatrix(X[:, :ints[0]])
        if name == 'dot' and len(args) == 1 and isinstance(args[0], sp.MatrixBase):
            a, b = list(X), list(args[0])
            return sum(x * y for x, y in zip(a, b)) if len(a) == len(b) else NotImplemented
        if name == 'cwiseProduct' and len(args) == 1 and isinstance(args[0], sp.MatrixBase) and args[0].shape == X.shape:
            return sp.ImmutableMatrix(X.shape[0], X.shape[1], lambda i, j: X[i, j] * args[0][i, j])
        if name == 'cwiseQuotient' and len(args) == 1 and isinstance(args[0], sp.MatrixBase) and args[0].shape == X.shape:
            return sp.ImmutableMatrix(X.shape[0], X.shape[1], lambda i, j: X[i, j] / args[0][i, j])
        if name in ('square', 'cwiseAbs2') and not args:
            return sp.ImmutableMatrix(X.applyfunc(lambda x: x ** 2))
        if name == 'asDiagonal' and not args:
            return sp.ImmutableMatrix(sp.diag(*list(X)))
        if name == 'diagonal' and not args:
            return sp.ImmutableMatrix([X[i, i] for i in range(min(X.shape))])
        if name == 'inverse' and not args and X.shape[0] == X.shape[1] <= 3:
            return sp.ImmutableMatrix(X.inv())
        if name == 'sum' and not args:
            return sum(list(X))
        if name in ('minCoeff', 'maxCoeff') and not args:
            return (sp.Min if name == 'minCoeff' else sp.Max)(*list(X))
        if name in ('squaredNorm',) and not args:
            return sum(x_ ** 2 for x_ in X)
        if name in ('mean',) and not args:
            return sum(list(X)) / sp.Integer(X.shape[0] * X.shape[1])
        if name in ('rows', 'size') and not args:
            return sp.Integer(X.shape[0] if name == 'rows' else X.shape[0] * X.shape[1])
        if name == 'cols' and not args:
            return sp.Integer(X.shape[1])
        return NotImplemented


def run(fx, f, inst, max_paths=16, denominators=None, state=None, args=None):
    """final states of method f on the instance (one per path); raises sym.Unsupported when not interpretable.
    `denominators`: a list that receives (expression, location) for every quantity something is divided by on the way."""
    H = Hook(inst)
    H.denominators = denominators
    rd = sym.Reader(fx, call_hook=H, member_hook=H.member, max_paths=max_paths, max_depth=8)
    if denominators is not None:
        _arith = rd.arith

        def recording(op, a, b, e):
            if op == '/' and isinstance(b, sp.Basic):
                for d_ in (list(b) if isinstance(b, sp.MatrixBase) else [b]):
                    if d_.free_symbols:
                        denominators.append((d_, e.get('loc')))
            return _arith(op, a, b, e)
        rd.arith = recording
    rd.unroll = 16
    if state is not None:
        return rd.run(f, state=state, args=args) if args is not None else rd.run(f, state=state)
    st0 = sym.State()
    for k, v in inst.init.items():
        st0.fields[('this', k)] = v
    return rd.run(f, state=st0)


def same_matrix(A, B):
    """exact equality of two matrices of rational functions (cross-multiplied, expanded)"""
    if not isinstance(A, sp.MatrixBase) or not isinstance(B, sp.MatrixBase) or A.shape != B.shape:
        return False
    for x, y in zip(A, B):
        d = sp.together(x - y)
        n, _ = sp.fraction(d)
        if sp.expand(n) != 0:
            return False
    return True
