"""Reader hooks that give fixed-size Eigen matrices/vectors a symbolic matrix value (sympy ImmutableMatrix):
element reads/writes  M(i,j), v[i];  whole-object reads and assignments;  Identity()/Zero()/Ones();  transpose();
col(k)/row(k) stores;  products are matrix products (non-commutative), so formula tables such as
R_ = Rz_ * Ry_ * Rx_ are extracted entry by entry."""
import re
import sympy as sp
from .tree import strip_casts, const_value, pp
from . import sym, vec

FIXED = re.compile(r'(?:const )?Eigen::Matrix<(?:double|float|int|unsigned long|long), (\d+), (\d+)')


def dims_of(tstr):
    m = FIXED.match(tstr or '')
    if not m:
        t = (tstr or '').replace('const ', '')
        if t.startswith('romea::core::HomogeneousCoordinates2<') or t.startswith('HomogeneousCoordinates2<'):
            return 3, 1
        if t.startswith('romea::core::HomogeneousCoordinates3<') or t.startswith('HomogeneousCoordinates3<'):
            return 4, 1
        return None
    return int(m.group(1)), int(m.group(2))


def fresh(name, r, c):
    if c == 1:
        return sp.ImmutableMatrix(r, 1, lambda i, j: sp.Symbol('%s[%d]' % (name, i), real=True))
    return sp.ImmutableMatrix(r, c, lambda i, j: sp.Symbol('%s[%d,%d]' % (name, i, j), real=True))


def get_matrix(rd, path, st, tstr, name=None):
    v = st.fields.get(path)
    if isinstance(v, sp.MatrixBase):
        return v
    d = dims_of(tstr)
    if d is None:
        return None
    # assemble from element pseudo-fields written earlier (vec.hook keys), else fresh symbols
    nm = name or path[-1]
    def ent(i, j):
        k = ('this', '%s[%s]' % (nm, ('%d' % i) if d[1] == 1 else '%d,%d' % (i, j)))
        if k in st.fields:
            return st.fields[k]
        return sp.Symbol('%s[%s]' % (nm, ('%d' % i) if d[1] == 1 else '%d,%d' % (i, j)), real=True)
    M = sp.ImmutableMatrix(d[0], d[1], ent)
    st.fields[path] = M
    return M


def member_hook(rd, e, path, st):
    d = dims_of(e['t']['s'])
    if d is None:
        return NotImplemented
    M = get_matrix(rd, path, st, e['t']['s'])
    return M if M is not None else NotImplemented


def _index(e, rd=None, st=None, ctx=None):
    idx = []
    for a in e['args'][1:]:
        cv = const_value(a)
        if cv is None and rd is not None:
            # an index that is a local with a known integer value (an unrolled loop counter)
            try:
                vs = rd.ev(a, st, ctx)
            except sym.Unsupported:
                vs = []
            if len(vs) == 1 and isinstance(vs[0][0], sp.Integer):
                cv = int(vs[0][0])
        if cv is None:
            return None
        idx.append(int(cv))
    return idx


def hook(rd, e, st, ctx):
    k = e.get('k')
    if k == 'Store':
        l = strip_casts(e['lhs'])
        while l.get('k') == 'MCall' and l.get('m') in ('noalias', 'derived') and not l.get('args'):
            l = strip_casts(l['obj'])              # X.noalias() = ... stores into X
        val = e['value']
        # element store M(i,j) = v / v[i] = v
        if l.get('k') == 'Op' and l.get('op') in ('()', '[]'):
            base = strip_casts(l['args'][0])
            idx = _index(l, rd, st, ctx)
            lv = rd.lvalue(base, st, ctx)
            d = dims_of(base['t']['s'])
            if idx is not None and d is not None and lv and lv[0] in ('field', 'local', 'localmember'):
                M = _load(rd, lv, st, base, ctx)
                if M is not None:
                    i, j = (idx[0], idx[1]) if len(idx) == 2 else (idx[0], 0)
                    if e['op'] != '=':
                        val = rd.arith(e['op'][:-1], M[i, j], val, {'t': {}, 'k': 'Bin', 'op': e['op'], 'l': e['lhs'], 'r': e['lhs']})
                    M2 = sp.Matrix(M)
                    M2[i, j] = val
                    _save(rd, lv, st, sp.ImmutableMatrix(M2))
                    return [(val, st)]
        # component store  v.x() = s
        if l.get('k') == 'MCall' and l.get('m') in ('x', 'y', 'z', 'w') and not l.get('args'):
            base = strip_casts(l['obj'])
            lv = rd.lvalue(base, st, ctx)
            d = dims_of(base['t']['s'])
            if lv and lv[0] in ('field', 'local', 'localmember') and d is not None and not isinstance(val, sp.MatrixBase):
                M = _load(rd, lv, st, base, ctx)
                if M is not None:
                    M2 = sp.Matrix(M)
                    M2[{'x': 0, 'y': 1, 'z': 2, 'w': 3}[l['m']], 0] = val
                    _save(rd, lv, st, sp.ImmutableMatrix(M2))
                    return [(val, st)]
        # block store  M.block<r,c>(i,j) = sub   (also the corner / rows / cols views)
        if l.get('k') == 'MCall' and l.get('m') in REGION_METHODS:
            base = strip_casts(l['obj'])
            lv = rd.lvalue(base, st, ctx)
            shape = dims_of(base['t']['s'])
            rg = region(l, shape) if shape else None
            if lv and lv[0] in ('field', 'local', 'localmember') and rg is not None and isinstance(val, sp.MatrixBase):
                M = _load(rd, lv, st, base, ctx)
                if M is not None:
                    M2 = sp.Matrix(M)
                    i0, j0, r_, c_ = rg
                    V = sp.Matrix(val)
                    if V.shape != (r_, c_):
                        if V.shape == (c_, r_) and 1 in V.shape:
                            V = V.T              # Eigen transposes a vector assigned to a vector view of the other orientation
                        else:
                            raise sym.Unsupported('a %dx%d value is stored into a %dx%d view at %s' % (V.shape[0], V.shape[1], r_, c_, l.get('loc')))
                    if e['op'] == '+=':
                        M2[i0:i0 + r_, j0:j0 + c_] = M2[i0:i0 + r_, j0:j0 + c_] + V
                    elif e['op'] == '-=':
                        M2[i0:i0 + r_, j0:j0 + c_] = M2[i0:i0 + r_, j0:j0 + c_] - V
                    elif e['op'] == '=':
                        M2[i0:i0 + r_, j0:j0 + c_] = V
                    else:
                        raise sym.Unsupported('compound store %s into a matrix view at %s' % (e['op'], l.get('loc')))
                    _save(rd, lv, st, sp.ImmutableMatrix(M2))
                    return [(val, st)]
            if lv and lv[0] in ('field', 'local', 'localmember') and rg is not None and e['op'] in ('*=', '/=') and isinstance(val, sp.Basic) and not isinstance(val, sp.MatrixBase):
                M = _load(rd, lv, st, base, ctx)
                if M is not None:
                    M2 = sp.Matrix(M)
                    i0, j0, r_, c_ = rg
                    M2[i0:i0 + r_, j0:j0 + c_] = M2[i0:i0 + r_, j0:j0 + c_] * (val if e['op'] == '*=' else 1 / val)
                    _save(rd, lv, st, sp.ImmutableMatrix(M2))
                    return [(val, st)]
        # vector block store  v.head<N>() = sub / v.segment<N>(i) = sub / v.tail<N>() = sub  (and the run-time sized spellings with constant arguments)
        if l.get('k') == 'MCall' and l.get('m') in ('segment', 'head', 'tail') and not l.get('inrepo'):
            base = strip_casts(l['obj'])
            lv = rd.lvalue(base, st, ctx)
            shape = dims_of(base['t']['s'])
            spec = _vector_block(l)
            if lv and lv[0] in ('field', 'local', 'localmember') and shape is not None and shape[1] == 1 and spec is not None and isinstance(val, sp.MatrixBase) and e['op'] in ('=', '+=', '-='):
                M = _load(rd, lv, st, base, ctx)
                if M is not None:
                    i0, n_ = ((shape[0] - spec[1], spec[1]) if spec[0] == 'tail' else spec)
                    V = sp.Matrix(val)
                    if V.shape == (1, n_):
                        V = V.T
                    if 0 <= i0 and i0 + n_ <= shape[0] and V.shape == (n_, 1):
                        M2 = sp.Matrix(M)
                        M2[i0:i0 + n_, 0] = V if e['op'] == '=' else M2[i0:i0 + n_, 0] + V if e['op'] == '+=' else M2[i0:i0 + n_, 0] - V
                        _save(rd, lv, st, sp.ImmutableMatrix(M2))
                        return [(val, st)]
        # column/row store  M.col(k) = vec
        if l.get('k') == 'MCall' and l.get('m') in ('col', 'row') and len(l.get('args', [])) == 1:
            kk = const_value(l['args'][0])
            base = strip_casts(l['obj'])
            lv = rd.lvalue(base, st, ctx)
            d = dims_of(base['t']['s'])
            if kk is not None and d is not None and lv and lv[0] in ('field', 'local') and isinstance(val, sp.MatrixBase):
                M = _load(rd, lv, st, base, ctx)
                M2 = sp.Matrix(M)
                if l['m'] == 'col':
                    M2[:, int(kk)] = sp.Matrix(val).reshape(d[0], 1)
                else:
                    M2[int(kk), :] = sp.Matrix(val).reshape(1, d[1])
                _save(rd, lv, st, sp.ImmutableMatrix(M2))
                return [(val, st)]
        return vec.hook(rd, e, st, ctx)
    if k == 'Op' and e.get('op') in ('()', '[]') and len(e.get('args', [])) in (2, 3):
        base = strip_casts(e['args'][0])
        idx = _index(e, rd, st, ctx)
        d = dims_of(base['t']['s'])
        if idx is not None and d is not None:
            lv = rd.lvalue(base, st, ctx)
            if lv and lv[0] in ('field', 'local'):
                M = _load(rd, lv, st, base, ctx)
                if M is not None:
                    return [(M[idx[0], idx[1]] if len(idx) == 2 else M[idx[0], 0], st)]
            out = []
            for (bv, s2) in rd.ev(e['args'][0], st, ctx):
                if isinstance(bv, sp.MatrixBase):
                    out.append((bv[idx[0], idx[1]] if len(idx) == 2 else bv[idx[0], 0], s2))
                else:
                    return vec.hook(rd, e, st, ctx)
            return out
        return vec.hook(rd, e, st, ctx)
    if k == 'Call':
        fq = e.get('fn') or ''
        d = dims_of(e['t']['s'])
        if d is None:
            mm = re.search(r'Eigen::Matrix<(?:double|float|int|unsigned long|long), (\d+), (\d+)', fq)
            d = (int(mm.group(1)), int(mm.group(2))) if mm else None
        if d is not None and not e.get('args'):
            if fq.endswith('::Identity'):
                return [(sp.ImmutableMatrix(sp.eye(d[0], d[1])), st)]
            if fq.endswith('::Zero'):
                return [(sp.ImmutableMatrix(sp.zeros(d[0], d[1])), st)]
            if fq.endswith('::Ones'):
                return [(sp.ImmutableMatrix(sp.ones(d[0], d[1])), st)]
            for ax, n in (('UnitX', 0), ('UnitY', 1), ('UnitZ', 2)):
                if fq.endswith('::' + ax):
                    return [(sp.ImmutableMatrix(d[0], 1, lambda i, j: 1 if i == n else 0), st)]
    if k == 'MCall' and e.get('m') == 'finished' and (e.get('cls') or '').startswith('Eigen::CommaInitializer<'):
        # (Matrix() << a, b, c, ...).finished(): the scalar coefficients in row-major order
        d = dims_of((e.get('cls') or '')[len('Eigen::CommaInitializer<'):])
        items, n = [], strip_casts(e['obj'])
        while n.get('k') == 'Op' and n.get('op') == ',' and len(n.get('args', [])) == 2:
            items.append(n['args'][1])
            n = strip_casts(n['args'][0])
        if d is not None and n.get('k') == 'Op' and n.get('op') == '<<' and len(n.get('args', [])) == 2:
            items.append(n['args'][1])
            items.reverse()
            if len(items) == d[0] * d[1]:
                out = []
                for (vals, s2) in rd.evs(items, st, ctx):
                    if not all(isinstance(v, sp.Basic) and not isinstance(v, sp.MatrixBase) for v in vals):
                        return NotImplemented
                    out.append((sp.ImmutableMatrix(d[0], d[1], list(vals)), s2))
                return out
        return NotImplemented
    if k == 'MCall' and not e.get('inrepo') and e.get('m') in REGION_METHODS:
        out = []
        for (ov, s2) in rd.ev(e['obj'], st, ctx):
            if not isinstance(ov, sp.MatrixBase):
                return NotImplemented
            rg = region(e, ov.shape)
            if rg is None:
                return NotImplemented
            i0, j0, r_, c_ = rg
            out.append((sp.ImmutableMatrix(ov[i0:i0 + r_, j0:j0 + c_]), s2))
        return out
    if k == 'MCall' and not e.get('inrepo') and e.get('m') in ('segment', 'head', 'tail'):
        # fixed-size vector blocks: v.segment<N>(i), v.head<N>(), v.tail<N>() (size in the VectorBlock type) and v.segment(i, n), v.tail(n)
        spec = _vector_block(e)
        if spec is not None:
            out = []
            for (ov, s2) in rd.ev(e['obj'], st, ctx):
                if not isinstance(ov, sp.MatrixBase) or ov.shape[1] != 1:
                    return NotImplemented
                i0, n_ = ((ov.shape[0] - spec[1], spec[1]) if spec[0] == 'tail' else spec)
                if i0 < 0 or i0 + n_ > ov.shape[0]:
                    return NotImplemented
                out.append((sp.ImmutableMatrix(ov[i0:i0 + n_, 0]), s2))
            return out
    if k == 'MCall' and not e.get('inrepo'):
        name = e.get('m')
        if name in ('transpose', 'col', 'row', 'head', 'norm', 'squaredNorm', 'dot', 'cross', 'determinant', 'trace', 'x', 'y', 'z', 'maxCoeff', 'minCoeff', 'sum', 'prod', 'mean', 'cwiseAbs', 'abs') \
                or name in ('array', 'matrix', 'eval'):
            out = []
            for (ov, s2) in rd.ev(e['obj'], st, ctx):
                if not isinstance(ov, sp.MatrixBase):
                    return NotImplemented
                for (av, s3) in rd.evs(e.get('args', []), s2, ctx):
                    r = _method(name, ov, av)
                    if r is NotImplemented:
                        return NotImplemented
                    out.append((r, s3))
            return out
    if k == 'Construct' and dims_of(e.get('cls', '').replace('romea::core::', '')) is None and dims_of(e['t']['s']) is not None:
        pass
    if k == 'Construct' and dims_of(e['t']['s']) is not None:
        args = e.get('args', [])
        d = dims_of(e['t']['s'])
        if len(args) == 1:
            out = []
            for (v, s2) in rd.ev(args[0], st, ctx):
                if isinstance(v, sp.MatrixBase) and v.shape == d:
                    out.append((v, s2))
                else:
                    return NotImplemented
            return out
        if len(args) == d[0] and d[1] == 1:
            out = []
            for (vals, s2) in rd.evs(args, st, ctx):
                if all(isinstance(v, sp.Basic) and not isinstance(v, sp.MatrixBase) for v in vals):
                    out.append((sp.ImmutableMatrix(d[0], 1, vals), s2))
                else:
                    return NotImplemented
            return out
    return NotImplemented


REGION_METHODS = ('block', 'topLeftCorner', 'topRightCorner', 'bottomLeftCorner', 'bottomRightCorner', 'topRows', 'bottomRows', 'leftCols', 'rightCols')


def _vector_block(e):
    """(first, count) or ('tail', count) of v.segment / v.head / v.tail with constant sizes; None otherwise."""
    mm = re.search(r'VectorBlock<.*, (-?\d+)>\s*$', e['t']['s'])
    tn = int(mm.group(1)) if mm and int(mm.group(1)) > 0 else None
    cargs = [const_value(a) for a in e.get('args', [])]
    name = e['m']
    spec = None
    if None not in cargs:
        if name == 'segment' and len(cargs) == 2:
            spec = (int(cargs[0]), int(cargs[1]))
        elif name == 'segment' and len(cargs) == 1 and tn:
            spec = (int(cargs[0]), tn)
        elif name == 'head' and not cargs and tn:
            spec = (0, tn)
        elif name == 'head' and len(cargs) == 1:
            spec = (0, int(cargs[0]))
        elif name == 'tail' and (tn or len(cargs) == 1):
            spec = ('tail', int(cargs[0]) if cargs else tn)
    return spec


def region(e, shape):
    """(i0, j0, rows, cols) of the view M.block / M.xxxCorner / M.topRows ... on a matrix of the given shape, sizes from the call's arguments or
    from the fixed-size Block type; None when not constant or out of range."""
    name = e.get('m')
    args = [const_value(a) for a in e.get('args', [])]
    if None in args:
        return None
    args = [int(a) for a in args]
    rows, cols = shape
    bd = block_dims(e)
    if name == 'block':
        if len(args) == 4:
            rg = (args[0], args[1], args[2], args[3])
        elif len(args) == 2 and bd is not None:
            rg = (args[0], args[1], bd[0], bd[1])
        else:
            return None
    elif name.endswith('Corner'):
        d = (args[0], args[1]) if len(args) == 2 else bd if not args else None
        if d is None:
            return None
        rg = (0 if name.startswith('top') else rows - d[0], 0 if 'Left' in name else cols - d[1], d[0], d[1])
    else:
        n_ = args[0] if len(args) == 1 else (bd[0] if name.endswith('Rows') else bd[1]) if (not args and bd is not None) else None
        if n_ is None:
            return None
        rg = {'topRows': (0, 0, n_, cols), 'bottomRows': (rows - n_, 0, n_, cols), 'leftCols': (0, 0, rows, n_), 'rightCols': (0, cols - n_, rows, n_)}[name]
    i0, j0, r_, c_ = rg
    if i0 < 0 or j0 < 0 or r_ < 0 or c_ < 0 or i0 + r_ > rows or j0 + c_ > cols:
        return None
    return rg


def block_dims(e):
    m = re.search(r'Eigen::Block<.*, (\d+), (\d+), (?:true|false)>', e['t']['s'])
    if m:
        return int(m.group(1)), int(m.group(2))
    if len(e.get('args', [])) == 4:
        a, b = const_value(e['args'][2]), const_value(e['args'][3])
        if a is not None and b is not None:
            return int(a), int(b)
    return None


def _method(name, M, args):
    if name == 'transpose':
        return sp.ImmutableMatrix(M.T)
    if name in ('array', 'matrix', 'eval'):
        return M
    if name == 'col' and len(args) == 1 and args[0].is_Integer:
        return sp.ImmutableMatrix(M[:, int(args[0])])
    if name == 'row' and len(args) == 1 and args[0].is_Integer:
        return sp.ImmutableMatrix(M[int(args[0]), :])
    if name == 'head' and len(args) == 1 and args[0].is_Integer:
        return sp.ImmutableMatrix(M[:int(args[0]), 0])
    if name == 'squaredNorm' and not args:
        return sum(x ** 2 for x in M)
    if name == 'norm':
        return sp.sqrt(sum(x ** 2 for x in M))
    if name == 'dot' and len(args) == 1 and isinstance(args[0], sp.MatrixBase):
        return sum(a * b for a, b in zip(M, args[0]))
    if name == 'cross' and len(args) == 1 and isinstance(args[0], sp.MatrixBase):
        return sp.ImmutableMatrix(sp.Matrix(M).cross(sp.Matrix(args[0])))
    if name == 'determinant':
        return M.det()
    if name == 'trace':
        return M.trace()
    if name in ('x', 'y', 'z'):
        return M[{'x': 0, 'y': 1, 'z': 2}[name], 0]
    if name == 'maxCoeff' and not args:
        return sp.Max(*list(M))
    if name == 'minCoeff' and not args:
        return sp.Min(*list(M))
    if name == 'sum' and not args:
        return sum(list(M))
    if name == 'prod' and not args:
        return sp.Mul(*list(M))
    if name == 'mean' and not args:
        return sum(list(M)) / len(list(M))
    if name in ('cwiseAbs', 'abs') and not args:
        return sp.ImmutableMatrix(M.applyfunc(sp.Abs))
    return NotImplemented


def _load(rd, lv, st, base, ctx):
    if lv[0] == 'field':
        return get_matrix(rd, lv[1], st, base['t']['s'])
    if lv[0] == 'localmember':
        cur = st.locals.get(lv[1])
        for name in lv[2]:
            cur = cur.get(name) if isinstance(cur, dict) else None
        if isinstance(cur, sp.MatrixBase):
            return cur
        d = dims_of(base['t']['s'])
        return fresh('.'.join(lv[2]), d[0], d[1]) if d else None
    v = st.locals.get(lv[1])
    if isinstance(v, sp.MatrixBase):
        return v
    d = dims_of(base['t']['s'])
    if d is None:
        return None
    M = fresh(base.get('name', 'm'), d[0], d[1])
    st.locals[lv[1]] = M
    return M


def _save(rd, lv, st, M):
    if lv[0] == 'localmember':
        rd.assign(lv, M, st)
        return
    if lv[0] == 'field':
        st.fields[lv[1]] = M
        st.effects.append(('write', lv[1], M))
    else:
        st.locals[lv[1]] = M


def bind_params(fn, st):
    """Gives every fixed-size Eigen parameter a symbolic matrix value named after the parameter."""
    for p in fn.get('params', []):
        d = dims_of(p['t']['s'])
        if d is not None:
            st.locals[p['id']] = fresh(p['name'], d[0], d[1])
