"""E-INT (sign / range part): interval evaluation of symbolic expressions (sympy trees produced by sym.Reader)
under ranges for the atoms taken from a property's quantifier.  Used to decide *definedness*: the argument of
log / sqrt / fractional pow must be provably non-negative on the whole quantifier range; an argument that is
provably non-positive on part of the range is a VIOLATION, anything else is UNDECIDED."""
import math
import sympy as sp

INF = float('inf')


class IV:
    __slots__ = ('lo', 'hi')

    def __init__(self, lo, hi):
        self.lo, self.hi = float(lo), float(hi)

    def __repr__(self):
        return '[%g, %g]' % (self.lo, self.hi)

    def nonneg(self):
        return self.lo >= 0

    def nonpos(self):
        return self.hi <= 0

    def has_zero(self):
        return self.lo <= 0 <= self.hi


ANY = IV(-INF, INF)


def _mul(a, b):
    c = []
    for x in (a.lo, a.hi):
        for y in (b.lo, b.hi):
            if (x == 0 and abs(y) == INF) or (y == 0 and abs(x) == INF):
                c.append(0.0)
            else:
                c.append(x * y)
    return IV(min(c), max(c))


def _inv(a):
    if a.lo > 0 or a.hi < 0:
        lo = 1 / a.hi if a.hi != 0 else (-INF)
        hi = 1 / a.lo if a.lo != 0 else INF
        return IV(min(lo, hi), max(lo, hi))
    if a.lo == 0 and a.hi > 0:
        return IV(1 / a.hi if a.hi != INF else 0.0, INF)
    if a.hi == 0 and a.lo < 0:
        return IV(-INF, 1 / a.lo if a.lo != -INF else 0.0)
    return ANY


class Evaluator:
    def __init__(self, env):
        self.env = env            # sympy Symbol/expr -> IV
        self.issues = []          # (kind, argument expr, IV)

    def ev(self, e):
        if e in self.env:
            return self.env[e]
        if e.is_Number:
            try:
                f = float(e)
                return IV(f, f)
            except TypeError:
                return ANY
        if e is sp.pi:
            return IV(math.pi, math.pi)
        if e.is_Symbol:
            return self.env.get(e, ANY)
        if e.is_Add:
            lo = hi = 0.0
            for a in e.args:
                v = self.ev(a)
                lo += v.lo
                hi += v.hi
            if math.isnan(lo): lo = -INF
            if math.isnan(hi): hi = INF
            return IV(lo, hi)
        if e.is_Mul:
            r = IV(1, 1)
            for a in e.args:
                r = _mul(r, self.ev(a))
            return r
        if e.is_Pow:
            base, ex = e.args
            b = self.ev(base)
            if ex.is_Integer:
                n = int(ex)
                if n < 0:
                    p = self._ipow(b, -n)
                    return _inv(p)
                return self._ipow(b, n)
            # fractional / symbolic exponent: base must be >= 0
            self.need_nonneg('pow', base, b, e)
            x = self.ev(ex)
            if b.lo > 0:
                return IV(0, INF)
            return IV(0, INF)
        f = e.func
        if f == sp.exp:
            a = self.ev(e.args[0])
            return IV(math.exp(a.lo) if a.lo > -700 else 0.0, math.exp(a.hi) if a.hi < 700 else INF)
        if f == sp.log:
            a = self.ev(e.args[0])
            self.need_nonneg('log', e.args[0], a, e)
            lo = math.log(a.lo) if a.lo > 0 and a.lo != INF else -INF
            hi = math.log(a.hi) if 0 < a.hi < INF else (INF if a.hi > 0 else -INF)
            return IV(lo, hi)
        if f == sp.Abs:
            a = self.ev(e.args[0])
            if a.lo >= 0: return a
            if a.hi <= 0: return IV(-a.hi, -a.lo)
            return IV(0, max(-a.lo, a.hi))
        if f == sp.cos:
            a = self.ev(e.args[0])
            if a.lo >= -math.pi / 2 and a.hi <= math.pi / 2:
                lo = min(math.cos(a.lo), math.cos(a.hi))
                return IV(max(lo, 0.0) if (a.lo > -math.pi / 2 and a.hi < math.pi / 2) else 0.0, 1.0 if a.has_zero() else max(math.cos(a.lo), math.cos(a.hi)))
            return IV(-1, 1)
        if f == sp.sin:
            a = self.ev(e.args[0])
            if a.lo >= -math.pi / 2 and a.hi <= math.pi / 2:
                return IV(math.sin(a.lo), math.sin(a.hi))
            return IV(-1, 1)
        if f == sp.tan:
            a = self.ev(e.args[0])
            if a.lo > -math.pi / 2 and a.hi < math.pi / 2:
                return IV(math.tan(a.lo), math.tan(a.hi))
            if a.lo >= -math.pi / 2 and a.hi <= math.pi / 2:
                return IV(math.tan(a.lo) if a.lo > -math.pi / 2 else -INF, math.tan(a.hi) if a.hi < math.pi / 2 else INF)
            return ANY
        if f == sp.atan:
            a = self.ev(e.args[0])
            return IV(math.atan(a.lo), math.atan(a.hi))
        if f in (sp.asin, sp.acos):
            return IV(-math.pi, math.pi)
        if f == sp.atan2:
            return IV(-math.pi, math.pi)
        for a in e.args:
            self.ev(a)
        return ANY

    def _ipow(self, b, n):
        if n == 0:
            return IV(1, 1)
        if n % 2 == 1:
            return IV(b.lo ** n if abs(b.lo) != INF else b.lo, b.hi ** n if abs(b.hi) != INF else b.hi)
        c = [abs(b.lo) ** n if abs(b.lo) != INF else INF, abs(b.hi) ** n if abs(b.hi) != INF else INF]
        if b.has_zero():
            return IV(0, max(c))
        return IV(min(c), max(c))

    def need_nonneg(self, kind, arg, iv, whole):
        self.issues.append((kind, arg, iv, whole))


def definedness(expr, env):
    """Returns [(kind, arg, IV, verdict)] for every log / fractional-pow below expr;
    verdict: 'ok' (arg >= 0 on the whole range), 'bad' (arg <= 0 on the whole range, somewhere < 0), 'unknown'."""
    E = Evaluator(env)
    E.ev(expr)
    out = []
    for (kind, arg, iv, whole) in E.issues:
        if iv.lo >= 0:
            v = 'ok'
        elif iv.hi <= 0:
            v = 'bad'
        else:
            v = 'unknown'
        out.append((kind, arg, iv, v))
    return out
