"""Symbolic reading of function bodies: turns the statements of an extracted function into exact symbolic
expressions (sympy) over named atoms - *formula extraction*, not execution: no concrete input exists, loops
are never unrolled, every `if` whose condition the front end did not fold is followed on both arms and the
result is a list of (path condition, final field values, return value).  Used by E-STATE/E-ALG/E-ORD rules."""
import math
import sympy as sp
from .tree import pp, strip_casts, short_fn


class LambdaVal(object):
    """value of a local closure (the Lambda node of the extracted AST)"""
    def __init__(self, node):
        self.node = node

    def __repr__(self):
        return 'closure'


class Unsupported(Exception):
    """The body uses a construct this reader does not interpret: the rule that asked becomes UNDECIDED."""


# ---------------------------------------------------------------------------------------------
class Cont:
    """Abstract sequence container (vector/deque/queue): a base symbol plus the operations applied to it."""

    def __init__(self, base, ops=()):
        self.base, self.ops = base, tuple(ops)

    def token(self):
        return sp.Symbol('%s{%s}' % (self.base, ';'.join(_opstr(o) for o in self.ops)))

    def with_op(self, *op):
        return Cont(self.base, self.ops + (tuple(op),))

    def size(self):
        n = sp.Symbol('size(%s)' % self.base, integer=True, nonnegative=True)
        for o in self.ops:
            if o[0] in ('push',):
                n = n + 1
            elif o[0] == 'pop':
                n = n - 1
            elif o[0] == 'clear':
                n = sp.Integer(0)
            elif o[0] == 'resize':
                n = o[1]
        return n

    def elem(self, idx):
        for o in reversed(self.ops):
            if o[0] == 'store':
                if sp.simplify(o[1] - idx) == 0:
                    return o[2]
                break           # possibly aliasing store at an index we cannot compare: read is of the mutated state
            if o[0] in ('clear', 'pop', 'push', 'resize'):
                break
        if not self.ops:
            return sp.Function('elem')(sp.Symbol(self.base), idx)
        return sp.Function('elem')(self.token(), idx)

    def front(self):
        return sp.Function('front')(self.token())

    def __eq__(self, o):
        return isinstance(o, Cont) and (self.base, self.ops) == (o.base, o.ops)

    def __hash__(self):
        return hash((self.base, self.ops))

    def __repr__(self):
        return 'Cont(%s)' % self.token()


class Seq(Cont):
    """A container whose content is known: a concrete list of (symbolic) items.  Used by bounded-history rules, where the reader starts from the
    constructed object; sizes are concrete integers and element accesses need concrete indexes."""

    def __init__(self, base, items=(), fixed=False):
        Cont.__init__(self, base, ())
        self.items, self.fixed = tuple(items), fixed

    def token(self):
        return sp.Symbol('%s{%d items}' % (self.base, len(self.items)))

    def with_op(self, *op):
        it = list(self.items)
        if op[0] == 'push' and not self.fixed:
            it.append(op[1])
        elif op[0] == 'pop' and not self.fixed:
            if not it:
                raise Unsupported('pop of an empty %s' % self.base)
            it.pop(0)
        elif op[0] == 'clear' and not self.fixed:
            it = []
        elif op[0] == 'store':
            i = op[1]
            if not (isinstance(i, (int, sp.Integer)) and 0 <= int(i) < len(it)):
                raise Unsupported('store into %s at the index %s (size %d)' % (self.base, i, len(it)))
            it[int(i)] = op[2]
        elif op[0] == 'resize' and not self.fixed and isinstance(op[1], (int, sp.Integer)):
            n = int(op[1])
            it = it[:n] + [sp.Integer(0)] * (n - len(it))
        else:
            raise Unsupported('operation %s on the concrete container %s' % (op[0], self.base))
        return Seq(self.base, it, self.fixed)

    def size(self):
        return sp.Integer(len(self.items))

    def elem(self, idx):
        if not (isinstance(idx, (int, sp.Integer)) and 0 <= int(idx) < len(self.items)):
            raise Unsupported('read of %s at the index %s (size %d)' % (self.base, idx, len(self.items)))
        return self.items[int(idx)]

    def front(self):
        if not self.items:
            raise Unsupported('front() of an empty %s' % self.base)
        return self.items[0]

    def __eq__(self, o):
        return isinstance(o, Seq) and (self.base, self.items) == (o.base, o.items)

    def __hash__(self):
        return hash((self.base, self.items))

    def __repr__(self):
        return 'Seq(%s, %d items)' % (self.base, len(self.items))


def _opstr(o):
    return o[0] + '(' + ','.join(str(x) for x in o[1:]) + ')'


class Opaque:
    """A value the reader does not interpret (strings, library objects); carries a printable description."""

    def __init__(self, desc):
        self.desc = desc

    def __repr__(self):
        return 'Opaque(%s)' % self.desc


NONMUTATING = {'operator*', 'operator->', 'value', 'front', 'back', 'begin', 'end', 'cbegin', 'cend', 'at', 'operator[]', 'data', 'find',
               'lower_bound', 'upper_bound', 'top', 'get', 'c_str', 'str'}
ACCESSOR_COMPONENTS = {'front', 'back', 'begin', 'cbegin'}
CONTAINER_TYPES = ('std::vector<', 'std::deque<', 'std::queue<', 'std::list<')
ENUM_SYMBOLS = set()     # names of the enumerators met (their symbols compare by identity)

MATH_FUNCS = {
    'sin': sp.sin, 'cos': sp.cos, 'tan': sp.tan, 'atan': sp.atan, 'asin': sp.asin, 'acos': sp.acos,
    'sqrt': sp.sqrt, 'exp': sp.exp, 'log': sp.log, 'abs': sp.Abs, 'fabs': sp.Abs,
    'atan2': sp.atan2, 'floor': sp.floor, 'ceil': sp.ceiling,
    'hypot': lambda a, b: sp.sqrt(a * a + b * b), 'cbrt': lambda a: sp.real_root(a, 3), 'sinh': sp.sinh, 'cosh': sp.cosh, 'tanh': sp.tanh,
    'asinh': sp.asinh, 'acosh': sp.acosh, 'atanh': sp.atanh, 'copysign': lambda a, b: sp.Abs(a) * sp.sign(b),
    'log2': lambda a: sp.log(a, 2), 'log10': lambda a: sp.log(a, 10), 'log1p': lambda a: sp.log(1 + a), 'expm1': lambda a: sp.exp(a) - 1,
}


def num(v):
    """Exact sympy number for a constant-evaluator value."""
    if isinstance(v, bool):
        return sp.Integer(1 if v else 0)
    if isinstance(v, int):
        return sp.Integer(v)
    if isinstance(v, float):
        if v == int(v) and abs(v) < 2 ** 62:
            return sp.Integer(int(v))
        for k, d in ((1, 1), (2, 1), (1, 2), (1, 4), (3, 2), (1, 180), (4, 1)):
            if abs(v - math.pi * k / d) < 1e-15 * max(1, abs(v)):
                return sp.pi * k / d
            if abs(v + math.pi * k / d) < 1e-15 * max(1, abs(v)):
                return -sp.pi * k / d
        return sp.Rational(v)
    return None


class State:
    def __init__(self):
        self.fields = {}     # path tuple -> value
        self.locals = {}     # decl id -> value
        self.alias = {}      # decl id -> path tuple (reference locals)
        self.cond = []       # list of (cond node pretty string, sympy relational or None, polarity)
        self.effects = []    # ordered log of (kind, path, value) for rules that need ordering
        self.ret = None
        self.returned = False
        self.continued = False   # a `continue` was executed: the rest of the loop body is skipped on this path

    def copy(self):
        s = State()
        s.fields = dict(self.fields)
        s.locals = dict(self.locals)
        s.alias = dict(self.alias)
        s.cond = list(self.cond)
        s.effects = list(self.effects)
        s.ret, s.returned = self.ret, self.returned
        s.continued = getattr(self, 'continued', False)
        s.callee_locals = getattr(self, 'callee_locals', None)
        return s


class Reader:
    """Symbolic reader of one function (with inlining of repo callees that have bodies)."""

    def __init__(self, facts, field_init=None, call_hook=None, max_paths=64, max_depth=6, type_hook=None, member_hook=None):
        self.facts = facts
        self.field_init = field_init      # path -> initial value or None (default: a fresh symbol)
        self.call_hook = call_hook        # (reader, node, state, args) -> value or NotImplemented
        self.member_hook = member_hook    # (reader, node, path, state) -> value or NotImplemented (reads of whole fields)
        self.max_paths = max_paths
        self.max_depth = max_depth
        self.read_fields = set()
        self.field_types = {}
        self.atoms = set()        # names of locals kept as atoms (their definitions are recorded, not substituted)
        self.atom_defs = {}       # name -> defining expression (in terms of earlier atoms)
        self.atom_order = []
        self.statics = {}         # id -> name of the function-local statics met (E-PURE)
        self.assume = None        # optional callable(condition value) -> True / False / None: the caller's standing assumption on inputs
        self.pruned = []          # (condition text, branch not followed, loc, function) for every branch the assumption cut
        self.unroll = 0           # > 0: for-loops whose condition evaluates to a concrete truth value are unrolled (at most this many iterations)

    # -- entry ---------------------------------------------------------
    def run(self, fn, args=None, this=('this',), state=None, depth=0):
        """Returns the list of final states (one per path)."""
        st = state.copy() if state is not None else State()
        saved_locals, saved_alias = st.locals, st.alias
        st.locals, st.alias = {}, {}
        for i, p in enumerate(fn.get('params', [])):
            if args is not None and i < len(args):
                a = args[i]
                if isinstance(a, tuple) and a and a[0] == '@alias':
                    st.alias[p['id']] = a[1]
                else:
                    st.locals[p['id']] = a
            else:
                st.locals[p['id']] = self.symbol('arg:' + p['name'], p['t'])
        st.returned, st.ret = False, None
        ctx = {'this': this, 'fn': fn, 'depth': depth}
        if fn.get('ctor'):
            states = [st]
            for i in fn.get('inits', []):
                if (i.get('base') or i.get('delegating')) and i.get('e') is not None:
                    # base-class sub-object built by a repo constructor: same `this`
                    e0 = strip_casts(i['e'])
                    sub = self.facts.functions.get(e0.get('fk')) if e0.get('k') == 'Construct' and e0.get('inrepo') and e0.get('fk') else None
                    if sub is not None and sub.get('body') is not None and depth < self.max_depth:
                        nxt = []
                        for s in states:
                            for (vals, s2) in self.evs_args(e0.get('args', []), sub.get('params', []), s, ctx):
                                for fs in self.run(sub, vals, this, s2, depth + 1):
                                    fs.returned, fs.ret = False, None
                                    nxt.append(fs)
                        states = nxt
                    continue
                if i.get('field') and i.get('e') is not None:
                    nxt = []
                    e0 = strip_casts(i['e'])
                    sub = self.facts.functions.get(e0.get('fk')) if e0.get('k') == 'Construct' and e0.get('inrepo') and e0.get('fk') else None
                    for s in states:
                        if sub is not None and sub.get('body') is not None and depth < self.max_depth and e0.get('ctor') not in ('copy', 'move'):
                            # member object built by a repo constructor: its fields live under this.<member>
                            for (vals, s2) in self.evs_args(e0.get('args', []), sub.get('params', []), s, ctx):
                                for fs in self.run(sub, vals, this + (i['field'],), s2, depth + 1):
                                    fs.returned, fs.ret = False, None
                                    nxt.append(fs)
                            continue
                        for (v, s2) in self.ev(i['e'], s, ctx):
                            s2.fields[this + (i['field'],)] = v
                            nxt.append(s2)
                    states = nxt
        else:
            states = [st]
        out = []
        for s in states:
            out += self.ex(fn.get('body'), s, ctx)
        for s in out:
            s.callee_locals = s.locals        # final locals of the function just read (for rules that inspect them)
            s.locals, s.alias = dict(saved_locals), dict(saved_alias)
        return out

    def symbol(self, name, t=None):
        c = (t or {}).get('c')
        if c == 'int':
            return sp.Symbol(name, integer=True)
        if c == 'bool':
            return sp.Symbol(name)
        return sp.Symbol(name, real=True)

    # -- fields --------------------------------------------------------
    def get_field(self, path, st, t=None):
        if path in st.fields:
            return st.fields[path]
        # member of a struct that was assigned as a whole (struct copy): this.anchor_ = arg  =>  this.anchor_.x is arg.x
        for n in range(len(path) - 1, 0, -1):
            pv = st.fields.get(path[:n])
            if isinstance(pv, sp.Symbol) and not pv.name.startswith('this.'):
                base = pv.name[4:] if pv.name.startswith('arg:') else pv.name
                v = self.symbol(base + '.' + '.'.join(path[n:]), t)
                return v
        self.read_fields.add(path)
        v = None
        if self.field_init is not None:
            v = self.field_init(path, t)
        if v is None:
            ts = (t or {}).get('s', '')
            for pre in ('const ',):
                if ts.startswith(pre):
                    ts = ts[len(pre):]
            if ts.startswith(CONTAINER_TYPES):
                v = Cont('.'.join(path))
            else:
                v = self.symbol('.'.join(path), t)
        st.fields[path] = v
        return v

    def lvalue(self, e, st, ctx):
        """Resolves an expression to a storage location: ('field', path) | ('local', id) | None."""
        e = strip_casts(e)
        if e is None:
            return None
        k = e['k']
        if k == 'Member' and e.get('field'):
            b = self.lvalue(e['base'], st, ctx)
            if b and b[0] == 'field':
                return ('field', b[1] + (e['name'],))
            if b and b[0] == 'this':
                return ('field', ctx['this'] + (e['name'],))
            if b and b[0] == 'local':
                return ('localmember', b[1], (e['name'],))
            if b and b[0] == 'localmember':
                return ('localmember', b[1], b[2] + (e['name'],))
            return None
        if k == 'This':
            return ('this',)
        if k == 'Un' and e['op'] == '*':
            return self.lvalue(e['e'], st, ctx)
        if k == 'Ref' and e.get('rk') in ('local', 'param'):
            if e['id'] in st.alias:
                return ('field', st.alias[e['id']])
            return ('local', e['id'])
        # Eigen view wrappers are the object itself: x.array() += v, x.noalias() = v
        if k == 'MCall' and e.get('m') in ('array', 'matrix', 'noalias') and not e.get('args') and not e.get('inrepo'):
            return self.lvalue(e['obj'], st, ctx)
        # element accessors of library containers are pseudo path components: q.front(), m.begin()->second ...
        if k == 'MCall' and e.get('m') in ACCESSOR_COMPONENTS and not e.get('args') and not e.get('inrepo'):
            b = self.lvalue(e['obj'], st, ctx)
            if b and b[0] == 'field':
                return ('field', b[1] + ('<%s>' % e['m'].lstrip('c'),))
            return None
        if k == 'Op' and e.get('op') in ('->', '*') and len(e.get('args', [])) == 1 and not e.get('inrepo'):
            return self.lvalue(e['args'][0], st, ctx)
        return None

    def assign(self, lv, v, st):
        if lv[0] == 'field':
            st.fields[lv[1]] = v
            st.effects.append(('write', lv[1], v))
        elif lv[0] == 'local':
            st.locals[lv[1]] = v
        elif lv[0] == 'localmember':
            cur = st.locals.get(lv[1])
            cur = dict(cur) if isinstance(cur, dict) else {}
            d = cur
            for name in lv[2][:-1]:
                d[name] = dict(d[name]) if isinstance(d.get(name), dict) else {}
                d = d[name]
            d[lv[2][-1]] = v
            st.locals[lv[1]] = cur

    # -- statements ----------------------------------------------------
    def _nested_breaks(self, node):
        """`break` statements below a direct statement of a switch body that are not inside a loop of their own (those would leave the switch from a nested position)"""
        out = []

        def rec(n, top):
            if not isinstance(n, dict):
                return
            k_ = n.get('k')
            if k_ in ('For', 'While', 'Do', 'RangeFor', 'Switch'):
                return
            if k_ == 'Break' and not top:
                out.append(n)
            for key in ('b', 't', 'e'):
                if isinstance(n.get(key), dict):
                    rec(n[key], False)
            for y_ in n.get('s', []) if isinstance(n.get('s'), list) else []:
                rec(y_, False)
        if isinstance(node, dict) and node.get('k') in ('Case', 'Default'):
            rec(node.get('b'), True) if not (isinstance(node.get('b'), dict) and node['b'].get('k') == 'Break') else None
        else:
            rec(node, True)
        return out

    def ex(self, s, st, ctx):
        if s is None or st.returned or getattr(st, 'continued', False):
            return [st]
        k = s['k']
        if k == 'Continue':
            st.continued = True
            return [st]
        if k == 'Switch':
            # switch (c) { case v: ...; break; ... default: ... }: one branch per label, with the comparison recorded as a path condition; a branch runs the statements from its label up to the next
            # `break` (falling through later labels).  Only `break` as a direct statement of the switch body is modelled.
            body = s['b']['s'] if isinstance(s.get('b'), dict) and s['b'].get('k') == 'Compound' else [s['b']] if s.get('b') else []
            labels = [(i_, x_) for i_, x_ in enumerate(body) if isinstance(x_, dict) and x_.get('k') in ('Case', 'Default')]
            if not labels or any(isinstance(y_, dict) and y_.get('k') == 'Break' for x_ in body for y_ in self._nested_breaks(x_)):
                raise Unsupported('statement Switch at %s' % s.get('loc'))
            out = []
            for (cv_, s2) in self.ev(s['c'], st, ctx):
                case_vals = []
                for (i_, lab) in labels:
                    if lab['k'] == 'Case':
                        vs_ = self.ev(lab['v'], s2.copy(), ctx)
                        if len(vs_) != 1 or not isinstance(vs_[0][0], sp.Basic) or not isinstance(cv_, sp.Basic):
                            raise Unsupported('switch label at %s' % lab.get('loc'))
                        case_vals.append((i_, lab, vs_[0][0]))

                def run_from(i0, sx_):
                    states = [sx_]
                    for x_ in body[i0:]:
                        if isinstance(x_, dict) and x_.get('k') == 'Break':
                            break
                        node = x_['b'] if isinstance(x_, dict) and x_.get('k') in ('Case', 'Default') else x_
                        nxt = []
                        for y_ in states:
                            nxt += self.ex(node, y_, ctx)
                        states = nxt
                    return states
                for (i_, lab, lv_) in case_vals:
                    if isinstance(cv_, sp.Symbol) and isinstance(lv_, sp.Symbol) and cv_.name in ENUM_SYMBOLS and lv_.name in ENUM_SYMBOLS:
                        rel = sp.true if cv_ == lv_ else sp.false              # two enumerators compare by identity
                    else:
                        rel = sp.Eq(cv_, lv_)
                    truth = _truth(rel)
                    if truth is False:
                        continue
                    a = s2.copy()
                    a.cond.append(('%s == %s' % (pp(s['c']), pp(lab['v'])), rel, True, s['c']))
                    out += run_from(i_, a)
                    if truth is True:
                        break
                else:
                    b = s2.copy()
                    for (i_, lab, lv_) in case_vals:
                        b.cond.append(('%s == %s' % (pp(s['c']), pp(lab['v'])), sp.Eq(cv_, lv_), False, s['c']))
                    dflt = [i_ for (i_, lab) in labels if lab['k'] == 'Default']
                    out += run_from(dflt[0], b) if dflt else [b]
            return out
        if k == 'Compound':
            states = [st]
            for c in s['s']:
                nxt = []
                for x in states:
                    nxt += self.ex(c, x, ctx)
                states = nxt
                if len(states) > self.max_paths:
                    raise Unsupported('more than %d paths in %s' % (self.max_paths, ctx['fn']['q']))
            return states
        if k == 'Expr':
            return [s2 for (_, s2) in self.ev(s['e'], st, ctx)]
        if k == 'Decl':
            states = [st]
            for v in s['vars']:
                nxt = []
                for x in states:
                    nxt += self.decl(v, x, ctx)
                states = nxt
            return states
        if k == 'If':
            if s.get('unsupported'):
                raise Unsupported('%s at %s' % (s['unsupported'], s['loc']))
            out = []
            for (c, s2) in self.ev(s['c'], st, ctx):
                truth = _truth(c)
                if truth is None and self.assume is not None:
                    truth = self.assume(c)
                    if truth is not None:
                        self.pruned.append((pp(s['c']), not truth, s.get('loc'), (ctx.get('fn') or {}).get('q')))
                if truth is not False:
                    a = s2.copy()
                    a.cond.append((pp(s['c']), c, True, s['c']))
                    out += self.ex(s.get('t'), a, ctx)
                if truth is not True:
                    b = s2.copy()
                    b.cond.append((pp(s['c']), c, False, s['c']))
                    out += self.ex(s.get('e'), b, ctx)
            return out
        if k == 'Return':
            out = []
            if s.get('e') is None:
                st.returned = True
                return [st]
            for (v, s2) in self.ev(s['e'], st, ctx):
                s2.ret, s2.returned = v, True
                out.append(s2)
            return out
        if k == 'Null':
            return [st]
        if k == 'For' and self.unroll:
            # concrete-size instance: the loop is unrolled as long as its condition has a concrete truth value
            states = self.ex(s.get('init'), st, ctx) if s.get('init') is not None else [st]
            out, cur, iters = [], states, 0
            while cur:
                nxt = []
                for x in cur:
                    if x.returned:
                        out.append(x)
                        continue
                    conds = self.ev(s['c'], x, ctx) if s.get('c') is not None else [(sp.true, x)]
                    for (c, x2) in conds:
                        t = _truth(c)
                        if t is None:
                            raise Unsupported('loop condition %s has no concrete truth value at %s' % (c, s.get('loc')))
                        if not t:
                            out.append(x2)
                            continue
                        for b in self.ex(s.get('b'), x2, ctx):
                            b.continued = False
                            if b.returned or s.get('inc') is None:
                                nxt.append(b)
                            else:
                                nxt += [s3 for (_, s3) in self.ev(s['inc'], b, ctx)]
                cur = nxt
                iters += 1
                if iters > self.unroll:
                    raise Unsupported('loop at %s not finished after %d iterations' % (s.get('loc'), self.unroll))
            return out
        raise Unsupported('statement %s at %s' % (s.get('cls', k), s.get('loc')))

    def decl(self, v, st, ctx):
        ts = v['t']['s']
        if ts.startswith(('std::lock_guard<', 'std::unique_lock<', 'std::scoped_lock<', 'std::shared_lock<')):
            st.effects.append(('lock', pp(v.get('init')), None))
            return [st]
        init = v.get('init')
        if v.get('static') and not v['t'].get('const'):
            # function-local static: state that survives the call; its value on entry is whatever earlier calls left there
            st.locals[v['id']] = self.symbol('static:' + v['name'], v['t'])
            self.statics[v['id']] = v['name']
            return [st]
        if init is None:
            st.locals[v['id']] = self.symbol('uninit:' + v['name'], v['t'])
            return [st]
        lam = strip_casts(init)
        while isinstance(lam, dict) and lam.get('k') == 'Construct' and len(lam.get('args', [])) == 1:
            lam = strip_casts(lam['args'][0])
        if isinstance(lam, dict) and lam.get('k') == 'Lambda' and lam.get('body') is not None:
            st.locals[v['id']] = LambdaVal(lam)           # a local closure: its calls are inlined (captures are the enclosing locals themselves)
            return [st]
        if v['t'].get('ref'):
            lv = self.lvalue(init, st, ctx)
            if lv and lv[0] == 'field':
                st.alias[v['id']] = lv[1]
                return [st]
        out = []
        for (val, s2) in self.ev(init, st, ctx):
            if v['name'] in self.atoms and isinstance(val, sp.Basic):
                if v['name'] not in self.atom_defs:
                    self.atom_order.append(v['name'])
                self.atom_defs[v['name']] = val
                val = sp.Symbol(v['name'], real=True)
            s2.locals[v['id']] = val
            out.append(s2)
        return out

    # -- expressions ---------------------------------------------------
    def ev(self, e, st, ctx):
        """Evaluates e in state st; returns [(value, state)] (several when an inlined callee forks)."""
        if e is None:
            return [(None, st)]
        k = e['k']
        if 'cv' in e and k not in ('Member',) and e['t'].get('c') in ('int', 'fp', 'bool', 'enum'):
            if k == 'Ref' and e.get('rk') == 'enumconst':
                ENUM_SYMBOLS.add(e['name'])
                return [(sp.Symbol(e['name']), st)]
            if not _has_side_effect(e):
                return [(num(e['cv']) if not isinstance(e['cv'], str) else sp.nan, st)]
        if k in ('Int', 'Float', 'Bool'):
            return [(num(e['v']), st)]
        if k == 'Str':
            return [(sp.Symbol('"%s"' % e.get('v')), st)]
        if k == 'DefaultArg':
            return self.ev(e['e'], st, ctx)
        if k == 'Cast':
            out = []
            for (v, s2) in self.ev(e['e'], st, ctx):
                out.append((self.cast(v, e), s2))
            return out
        if k == 'Ref':
            rk = e.get('rk')
            if rk == 'enumconst':
                ENUM_SYMBOLS.add(e['name'])
                return [(sp.Symbol(e['name']), st)]
            if rk in ('local', 'param'):
                if e['id'] in st.alias:
                    return [(self.get_field(st.alias[e['id']], st, e['t']), st)]
                if e['id'] in st.locals:
                    return [(st.locals[e['id']], st)]
                v = self.symbol('free:' + e['name'], e['t'])
                st.locals[e['id']] = v
                return [(v, st)]
            if rk == 'global':
                return [(self.symbol('global:' + e['name'], e['t']), st)]
            return [(Opaque(pp(e)), st)]
        if k == 'Member':
            lv = self.lvalue(e, st, ctx)
            if lv and lv[0] == 'field':
                self.field_types[lv[1]] = e['t']['s']
                if self.member_hook is not None:
                    hv = self.member_hook(self, e, lv[1], st)
                    if hv is not NotImplemented:
                        return [(hv, st)]
                return [(self.get_field(lv[1], st, e['t']), st)]
            if lv and lv[0] == 'local':
                return [(st.locals.get(lv[1], Opaque(pp(e))), st)]
            nm = _struct_member_name(e)
            if nm is not None:
                root, parts = _struct_root(e)
                if root is not None and root['id'] in st.alias:
                    return [(self.get_field(st.alias[root['id']] + tuple(parts), st, e['t']), st)]
                bound = st.locals.get(root['id']) if root is not None else None
                if isinstance(bound, sp.Symbol):
                    base = bound.name[4:] if bound.name.startswith('arg:') else bound.name
                    nm = '.'.join([base] + parts)
                elif isinstance(bound, dict):
                    v = bound
                    for p in parts:
                        v = v.get(p) if isinstance(v, dict) else None
                    if v is not None:
                        return [(v, st)]
                elif isinstance(bound, tuple) and len(parts) == 1 and root is not None:
                    # aggregate built from a braced list: members in declaration order of the record
                    tn = (root.get('t') or {}).get('s', '').replace('const ', '').replace('&', '').strip()
                    rec = self.facts.records.get(tn)
                    names_ = [f_['name'] for f_ in rec['fields']] if rec else []
                    if parts[0] in names_ and names_.index(parts[0]) < len(bound):
                        return [(bound[names_.index(parts[0])], st)]
                    if parts[0] in names_:
                        return [(sp.Integer(0), st)]      # value-initialised tail of a shorter braced list
                key = ('struct', nm)
                if key not in st.fields:
                    st.fields[key] = self.symbol(nm, e['t'])
                return [(st.fields[key], st)]
            out = []
            for (b, s2) in self.ev(e['base'], st, ctx):
                out.append((self.member_of_value(b, e), s2))
            return out
        if k == 'This':
            return [(Opaque('this'), st)]
        if k == 'Bin':
            return self.binop(e, st, ctx)
        if k == 'Un':
            return self.unop(e, st, ctx)
        if k == 'Cond':
            out = []
            for (c, s2) in self.ev(e['c'], st, ctx):
                truth = _truth(c)
                if truth is not False:
                    a = s2.copy()
                    a.cond.append((pp(e['c']), c, True, e['c']))
                    out += self.ev(e['a'], a, ctx)
                if truth is not True:
                    b = s2.copy()
                    b.cond.append((pp(e['c']), c, False, e['c']))
                    out += self.ev(e['b'], b, ctx)
            return out
        if k in ('Call', 'MCall', 'Op', 'Construct'):
            return self.call(e, st, ctx)
        if k == 'ValueInit':
            return [(sp.Integer(0), st)]
        if k == 'InitList':
            return [(tuple(vals), s2) for (vals, s2) in self.evs(e['args'], st, ctx)]
        return [(Opaque(pp(e)), st)]

    def member_of_value(self, b, e):
        if isinstance(b, dict) and e['name'] in b:
            return b[e['name']]
        if isinstance(b, sp.Symbol) and b.name.startswith('global:') and e.get('field'):
            return self.symbol(b.name + '.' + e['name'], e['t'])      # member of a namespace-scope / static object
        return Opaque(pp(e))

    def cast(self, v, e):
        ck = e.get('ck')
        if not isinstance(v, sp.Basic):
            return v
        if ck == 'FloatingToIntegral':
            return sp.Function('trunc')(v)
        if ck in ('IntegralToBoolean', 'FloatingToBoolean'):
            return sp.Ne(v, 0)
        if ck == 'NoOp' or ck is None:
            pass
        if not e.get('implicit') and e['t'].get('c') == 'int' and (e['e']['t'].get('c') == 'fp'):
            return sp.Function('trunc')(v)
        return v

    def evs(self, exprs, st, ctx):
        """Evaluates a list of expressions left to right; returns [(values, state)]."""
        res = [([], st)]
        for x in exprs:
            nxt = []
            for (vals, s) in res:
                for (v, s2) in self.ev(x, s, ctx):
                    nxt.append((vals + [v], s2))
            res = nxt
        return res

    def binop(self, e, st, ctx):
        op = e['op']
        if op == '=' or (op.endswith('=') and op not in ('==', '!=', '<=', '>=')):
            out = []
            for (r, s2) in self.ev(e['r'], st, ctx):
                lv = self.lvalue(e['l'], s2, ctx)
                if lv is not None and lv[0] == 'localmember' and op != '=':
                    lv = None
                if lv is None or lv[0] == 'this':
                    # element store through an accessor call, e.g. data_[i] = v
                    out += self.store_through(e['l'], r, op, s2, ctx)
                    continue
                if op != '=':
                    (old, s2), = self.ev(e['l'], s2, ctx)[:1]
                    r = self.arith(op[:-1], old, r, e)
                self.assign(lv, r, s2)
                out.append((r, s2))
            return out
        if op == ',':
            out = []
            for (_, s2) in self.ev(e['l'], st, ctx):
                out += self.ev(e['r'], s2, ctx)
            return out
        if op in ('&&', '||'):
            out = []
            for (vals, s2) in self.evs([e['l'], e['r']], st, ctx):
                a, b = vals
                try:
                    a, b = _as_bool(a), _as_bool(b)
                    v = sp.And(a, b) if op == '&&' else sp.Or(a, b)
                except Exception:
                    v = Opaque(pp(e))
                out.append((v, s2))
            return out
        out = []
        for (vals, s2) in self.evs([e['l'], e['r']], st, ctx):
            out.append((self.arith(op, vals[0], vals[1], e), s2))
        return out

    def arith(self, op, a, b, e):
        if isinstance(a, Cont) or isinstance(b, Cont) or not isinstance(a, sp.Basic) or not isinstance(b, sp.Basic):
            return Opaque(pp(e))
        if isinstance(a, sp.MatrixBase) or isinstance(b, sp.MatrixBase):
            try:
                if op == '+': return sp.ImmutableMatrix(a + b)
                if op == '-': return sp.ImmutableMatrix(a - b)
                if op == '*': return sp.ImmutableMatrix(a * b) if isinstance(a, sp.MatrixBase) or isinstance(b, sp.MatrixBase) else a * b
                if op == '/' and not isinstance(b, sp.MatrixBase): return sp.ImmutableMatrix(a / b)
            except Exception:
                return Opaque(pp(e))
            return Opaque(pp(e))
        try:
            if op == '+': return a + b
            if op == '-': return a - b
            if op == '*': return a * b
            if op == '/':
                lt, rt = e['l']['t'] if 'l' in e else {}, e['r']['t'] if 'r' in e else {}
                if lt.get('c') == 'int' and rt.get('c') == 'int' and e['t'].get('c') == 'int':
                    if isinstance(a, sp.Integer) and isinstance(b, sp.Integer) and b != 0:
                        q_ = abs(int(a)) // abs(int(b))               # C++ integer division of two known integers truncates toward zero
                        return sp.Integer(q_ if (int(a) >= 0) == (int(b) > 0) else -q_)
                    return sp.Function('idiv')(a, b)
                return a / b
            if op == '%': return sp.Mod(a, b)
            if op == '<': return sp.Lt(a, b)
            if op == '>': return sp.Gt(a, b)
            if op == '<=': return sp.Le(a, b)
            if op == '>=': return sp.Ge(a, b)
            if op in ('==', '!=') and isinstance(a, sp.Symbol) and isinstance(b, sp.Symbol) and a.name in ENUM_SYMBOLS and b.name in ENUM_SYMBOLS:
                # two enumerators: distinct names are distinct values
                return sp.true if (a == b) == (op == '==') else sp.false
            if op == '==': return sp.Eq(a, b)
            if op == '!=': return sp.Ne(a, b)
        except TypeError:
            return Opaque(pp(e))
        return Opaque(pp(e))

    def unop(self, e, st, ctx):
        op = e['op']
        if op in ('++', '--'):
            lv = self.lvalue(e['e'], st, ctx)
            (old, s2), = self.ev(e['e'], st, ctx)[:1]
            new = old + 1 if op == '++' else old - 1
            if lv and lv[0] != 'this':
                self.assign(lv, new, s2)
            return [(old if e.get('postfix') else new, s2)]
        out = []
        for (v, s2) in self.ev(e['e'], st, ctx):
            if op == '-' and isinstance(v, sp.Basic):
                out.append((-v, s2))
            elif op == '+':
                out.append((v, s2))
            elif op == '!' and isinstance(v, sp.Basic):
                try:
                    out.append((sp.Not(v), s2))
                except Exception:
                    out.append((Opaque(pp(e)), s2))
            elif op in ('*', '&'):
                out.append((v, s2))
            else:
                out.append((Opaque(pp(e)), s2))
        return out

    # -- calls ---------------------------------------------------------
    def store_through(self, lhs, r, op, st, ctx):
        """lhs is an accessor call on a container field (data_[i] = v, q.front() = v)."""
        l = strip_casts(lhs)
        if l['k'] in ('Op', 'MCall'):
            args = list(l.get('args', []))
            if l['k'] == 'MCall':
                obj = l['obj']
                name = l.get('m')
            else:
                obj, args = args[0], args[1:]
                name = 'operator' + l['op']
            lv = self.lvalue(obj, st, ctx)
            if lv and lv[0] == 'field' and name in ('operator[]', 'at'):
                cont = self.get_field(lv[1], st, obj['t'])
                if isinstance(cont, Cont):
                    out = []
                    for (idx, s2) in self.ev(args[0], st, ctx):
                        c = s2.fields[lv[1]]
                        val = r
                        if op != '=':
                            val = self.arith(op[:-1], c.elem(idx), r, {'t': {}, 'k': 'Bin', 'op': op, 'l': lhs, 'r': lhs})
                        s2.fields[lv[1]] = c.with_op('store', idx, val)
                        s2.effects.append(('store', lv[1], (idx, val)))
                        out.append((val, s2))
                    return out
        if self.call_hook is not None:
            v = self.call_hook(self, {'k': 'Store', 'lhs': lhs, 'value': r, 'op': op}, st, ctx)
            if v is not NotImplemented:
                return v
        raise Unsupported('assignment through %s at %s' % (pp(lhs), lhs.get('loc')))

    def call(self, e, st, ctx):
        # Eigen comma initialiser used as a statement: `M << a, b, ...;` stores the coefficients into M (a fixed-size member or local): the value is kept as Matrix(a, b, ...), the same
        # uninterpreted constructor a `Matrix(a, b)` expression denotes
        if e.get('k') == 'Op' and e.get('op') == ',' and len(e.get('args', [])) == 2:
            items, n_ = [], e
            while isinstance(n_, dict) and n_.get('k') == 'Op' and n_.get('op') == ',' and len(n_.get('args', [])) == 2:
                items.append(n_['args'][1])
                n_ = strip_casts(n_['args'][0])
            if isinstance(n_, dict) and n_.get('k') == 'Op' and n_.get('op') == '<<' and len(n_.get('args', [])) == 2:
                import re as _re
                lhs = n_['args'][0]
                mm_ = _re.search(r'Eigen::Matrix<[a-z ]+, (\d+), (\d+)', (strip_casts(lhs).get('t') or {}).get('s', ''))
                items.append(n_['args'][1])
                items.reverse()
                lv = self.lvalue(lhs, st, ctx) if mm_ else None
                if mm_ and int(mm_.group(1)) * int(mm_.group(2)) == len(items) and lv and lv[0] in ('field', 'local') and self.call_hook is not None:
                    out = []
                    for (vals, s2) in self.evs(items, st, ctx):
                        if all(isinstance(v_, sp.Basic) for v_ in vals):
                            val = sp.Function('Matrix')(*vals)
                            self.assign(lv, val, s2)
                            out.append((val, s2))
                        else:
                            out = None
                            break
                    if out:
                        return out
        # call of a local closure: inline its body with the parameters bound (captures are the enclosing locals themselves; depth-limited like any call)
        if e.get('k') == 'Op' and e.get('op') == '()' and e.get('args'):
            o_ = strip_casts(e['args'][0])
            lamv = st.locals.get(o_.get('id')) if isinstance(o_, dict) and o_.get('k') == 'Ref' else None
            if isinstance(lamv, LambdaVal):
                largs = list(e['args'][1:])
                if ctx['depth'] >= self.max_depth:
                    raise Unsupported('inlining depth exceeded in a closure')
                lparams = lamv.node.get('params') or []
                if len(lparams) != len(largs):
                    raise Unsupported('closure called with %d arguments for %d parameters' % (len(largs), len(lparams)))
                out = []
                for (vals, s2) in self.evs(largs, st, ctx):
                    for p_, v_ in zip(lparams, vals):
                        s2.locals[p_['id']] = v_
                    ctx2 = dict(ctx)
                    ctx2['depth'] = ctx['depth'] + 1
                    for fs in self.ex(lamv.node['body'], s2, ctx2):
                        r = fs.ret
                        fs.returned, fs.ret = False, None
                        out.append((r, fs))
                return out
        if self.call_hook is not None:
            v = self.call_hook(self, e, st, ctx)
            if v is not NotImplemented:
                return v
        k = e['k']
        args = list(e.get('args', []))
        obj = None
        if k == 'MCall':
            obj = e['obj']
        elif k == 'Op' and e.get('member') and args:
            obj, args = args[0], args[1:]
        name = e.get('m') or (e.get('fn') or '').split('::')[-1]
        if k == 'Op':
            name = 'operator' + e['op']
        fq = e.get('fn') or ''
        # copy/move construction denotes the same value
        if k == 'Construct':
            if e.get('ctor') in ('copy', 'move') and len(args) == 1:
                return self.ev(args[0], st, ctx)
            if len(args) == 1 and e['t'].get('c') in ('int', 'fp'):
                return self.ev(args[0], st, ctx)
            if e['cls'].startswith('std::atomic<') and len(args) == 1:
                return self.ev(args[0], st, ctx)
            if e['cls'].startswith('std::basic_string<') and args and strip_casts(args[0]).get('k') == 'Str':
                return self.ev(args[0], st, ctx)
            if e['cls'].startswith('std::basic_string<') and not args:
                return [(sp.Symbol('""'), st)]
        # math library
        base = fq.split('<')[0].split('::')[-1]
        if k == 'Call' and (fq.startswith('std::') or '::' not in fq) and base in MATH_FUNCS and not e.get('inrepo'):
            out = []
            for (vals, s2) in self.evs(args, st, ctx):
                if all(isinstance(v, sp.Basic) for v in vals):
                    out.append((MATH_FUNCS[base](*vals), s2))
                else:
                    out.append((Opaque(pp(e)), s2))
            return out
        if k == 'Call' and base == 'pow' and not e.get('inrepo'):
            out = []
            for (vals, s2) in self.evs(args, st, ctx):
                out.append((vals[0] ** vals[1] if all(isinstance(v, sp.Basic) for v in vals) else Opaque(pp(e)), s2))
            return out
        if k == 'Call' and base in ('min', 'max') and fq.startswith('std::') and len(args) == 2:
            out = []
            for (vals, s2) in self.evs(args, st, ctx):
                f = sp.Min if base == 'min' else sp.Max
                out.append((f(*vals) if all(isinstance(v, sp.Basic) for v in vals) else Opaque(pp(e)), s2))
            return out
        if k == 'Call' and base == 'clamp' and fq.startswith('std::') and len(args) == 3:
            out = []
            for (vals, s2) in self.evs(args, st, ctx):
                out.append((sp.Max(vals[1], sp.Min(vals[0], vals[2])) if all(isinstance(v, sp.Basic) for v in vals) else Opaque(pp(e)), s2))
            return out
        # overloaded operators on scalar-like library values (std::chrono durations ...): same algebra
        if k == 'Op' and e['op'] in ('+', '-', '*', '/', '<', '>', '<=', '>=', '==', '!=') and len(e.get('args', [])) == 2 \
                and not e.get('inrepo'):
            a0, a1 = e['args']
            out = []
            for (vals, s2) in self.evs([a0, a1], st, ctx):
                out.append((self.arith(e['op'], vals[0], vals[1], {'t': e['t'], 'l': a0, 'r': a1, 'k': 'Bin', 'op': e['op']}), s2))
            if all(isinstance(v, sp.Basic) for (v, _) in out):
                return out
        if k == 'Op' and e['op'] in ('=', '+=', '-=', '*=', '/=') and len(e.get('args', [])) == 2 and \
                (not e.get('inrepo') or (self.facts.functions.get(e.get('fk')) or {}).get('body') is None):
            lv = self.lvalue(e['args'][0], st, ctx)
            if lv and lv[0] in ('field', 'local', 'localmember'):
                out = []
                for (r, s2) in self.ev(e['args'][1], st, ctx):
                    if e['op'] != '=':
                        (old, s2), = self.ev(e['args'][0], s2, ctx)[:1]
                        r = self.arith(e['op'][:-1], old, r, {'t': e['t'], 'l': e['args'][0], 'r': e['args'][1], 'k': 'Bin', 'op': e['op']})
                    self.assign(lv, r, s2)
                    out.append((r, s2))
                return out
            l0 = strip_casts(e['args'][0])
            if lv is None and l0.get('k') in ('Op', 'MCall'):
                out = []
                for (r, s2) in self.ev(e['args'][1], st, ctx):
                    try:
                        out += self.store_through(l0, r, e['op'], s2, ctx)
                    except Unsupported:
                        if e['op'] != '=':
                            raise
                        # a store that cannot be modelled must not leave the OLD value in place: the variable it writes into becomes unknown
                        base, lvb = l0, None
                        for _ in range(6):
                            base = strip_casts(base['obj']) if base.get('k') == 'MCall' else strip_casts(base['args'][0]) if base.get('k') == 'Op' and base.get('args') else None
                            if base is None:
                                break
                            lvb = self.lvalue(base, s2, ctx)
                            if lvb:
                                break
                        if lvb and lvb[0] in ('field', 'local', 'localmember'):
                            self.assign(lvb, Opaque('%s after the store %s' % (pp(base), pp(e)[:80])), s2)
                        elif lvb is None and base is not None:
                            raise
                        out.append((Opaque(pp(e)), s2))
                return out
        if k == 'MCall' and name == 'count' and 'std::chrono::duration' in (e.get('cls') or '') and not args:
            return self.ev(obj, st, ctx)
        # containers / atomics on fields
        if obj is not None:
            lv = self.lvalue(obj, st, ctx)
            ots = obj['t']['s']
            if ots.startswith('const '):
                ots = ots[6:]
            if lv and lv[0] == 'field':
                if ots.startswith('std::atomic<'):
                    if name == 'load' or name.startswith('operator ') :
                        return [(self.get_field(lv[1], st, {'s': ots, 'c': 'fp'}), st)]
                    if name in ('store', 'operator='):
                        out = []
                        for (v, s2) in self.ev(args[0], st, ctx):
                            self.assign(lv, v, s2)
                            out.append((v, s2))
                        return out
                cont = self.get_field(lv[1], st, obj['t']) if (ots.startswith(CONTAINER_TYPES) or isinstance(st.fields.get(lv[1]), Cont)) else None
                if isinstance(cont, Cont):
                    return self.container_call(lv[1], name, args, e, st, ctx)
        # repo function with a body: inline
        callee = self.facts.functions.get(e.get('fk')) if e.get('fk') else None
        if callee is not None and callee.get('body') is not None and e.get('inrepo'):
            if ctx['depth'] >= self.max_depth:
                raise Unsupported('inlining depth exceeded at %s' % callee['q'])
            this = ctx['this']
            if obj is not None:
                lv = self.lvalue(obj, st, ctx)
                if lv and lv[0] == 'field':
                    this = lv[1]
                elif lv and lv[0] == 'this':
                    this = ctx['this']
                else:
                    this = ('tmp:' + pp(obj),)
            elif k == 'Construct':
                this = ('tmp:' + e['cls'],)
            out = []
            params = callee.get('params', [])
            # out-parameters bound to a local (or a member of a local struct) of the caller: copy-in / copy-out
            writeback = []
            for i_, a_ in enumerate(args):
                p_ = params[i_] if i_ < len(params) else None
                if p_ is not None and p_['t'].get('ref') and not p_['t'].get('const'):
                    lv_ = self.lvalue(a_, st, ctx)
                    if lv_ and lv_[0] in ('local', 'localmember'):
                        writeback.append((lv_, p_['id']))
            try:
                for (vals, s2) in self.evs_args(args, params, st, ctx):
                    for fs in self.run(callee, vals, this, s2.copy(), ctx['depth'] + 1):
                        r = fs.ret
                        fs.returned, fs.ret = False, None
                        for (lv_, pid_) in writeback:
                            v_ = (fs.callee_locals or {}).get(pid_)
                            if v_ is not None:
                                self.assign(lv_, v_, fs)
                        if k == 'Construct':
                            r = {p[-1]: v for p, v in fs.fields.items() if p[:len(this)] == this and len(p) == len(this) + 1}
                        out.append((r, fs))
                return out
            except Unsupported:
                # a callee this reader cannot interpret (loops ...) stays an uninterpreted function when it cannot write the
                # caller's state: const methods and free functions; anything else is re-raised (the rule becomes UNDECIDED)
                if not (callee.get('const') or not callee.get('cls')):
                    raise
                out = []
        # anything else: evaluate arguments for their effects, result opaque
        out = []
        if obj is not None and k in ('MCall', 'Op') and not e.get('mconst') and not e.get('mstatic') and name not in NONMUTATING:
            lvw = self.lvalue(obj, st, ctx)
            if lvw and lvw[0] == 'field':
                # a non-const library method on a field (optional::reset, string::clear ...) mutates it
                res = []
                for (vals, s2) in self.evs(args, st, ctx):
                    old = self.get_field(lvw[1], s2, obj['t'])
                    sv = [v for v in vals if isinstance(v, sp.Basic)]
                    newv = sp.Function('%s' % name)(*( [old] if isinstance(old, sp.Basic) else []) + sv) if len(sv) == len(vals) else Opaque(pp(e))
                    self.assign(lvw, newv, s2)
                    res.append((Opaque(pp(e)), s2))
                return res
        allargs = ([obj] if obj is not None else []) + args
        for (vals, s2) in self.evs(allargs, st, ctx):
            sv = [v for v in vals]
            if all(isinstance(v, sp.Basic) for v in sv) and sv:
                fname = (e.get('m') if k == 'MCall' and not e.get('inrepo') else None) or short_fn(fq) or name
                out.append((sp.Function(fname)(*sv), s2))
            else:
                out.append((Opaque(pp(e)), s2))
        return out

    def evs_args(self, args, params, st, ctx):
        """Arguments bound to reference parameters that denote fields are passed as aliases."""
        res = [([], st)]
        for i, a in enumerate(args):
            p = params[i] if i < len(params) else None
            nxt = []
            for (vals, s) in res:
                if p is not None and p['t'].get('ref') and not p['t'].get('const'):
                    lv = self.lvalue(a, s, ctx)
                    if lv and lv[0] == 'field':
                        nxt.append((vals + [('@alias', lv[1])], s))
                        continue
                for (v, s2) in self.ev(a, s, ctx):
                    nxt.append((vals + [v], s2))
            res = nxt
        return res

    def container_call(self, path, name, args, e, st, ctx):
        out = []
        for (vals, s2) in self.evs(args, st, ctx):
            c = s2.fields[path]
            if name in ('push_back', 'push', 'emplace_back', 'emplace'):
                s2.fields[path] = c.with_op('push', vals[0] if vals else None)
                s2.effects.append(('push', path, vals[0] if vals else None))
                out.append((None, s2))
            elif name in ('pop', 'pop_front'):
                s2.effects.append(('pop', path, c.token()))
                s2.fields[path] = c.with_op('pop')
                out.append((None, s2))
            elif name == 'clear':
                s2.fields[path] = c.with_op('clear')
                s2.effects.append(('clear', path, None))
                out.append((None, s2))
            elif name == 'size':
                out.append((c.size(), s2))
            elif name == 'empty':
                out.append((sp.Eq(c.size(), 0), s2))
            elif name in ('operator[]', 'at'):
                out.append((c.elem(vals[0]), s2))
            elif name == 'front':
                out.append((c.front(), s2))
            elif name in ('reserve', 'shrink_to_fit'):
                out.append((None, s2))
            elif name == 'resize' and len(vals) == 1:
                s2.fields[path] = c.with_op('resize', vals[0])
                s2.effects.append(('resize', path, vals[0]))
                out.append((None, s2))
            elif name == 'capacity':
                out.append((sp.Symbol('capacity(%s)' % c.token(), integer=True, nonnegative=True), s2))
            else:
                raise Unsupported('container method %s at %s' % (name, e.get('loc')))
        return out


def _struct_member_name(e):
    """'param.field.sub' for a member chain rooted at a parameter / local of struct type (plain data), else None."""
    parts = []
    x = e
    while x is not None and x.get('k') == 'Member' and x.get('field'):
        parts.append(x['name'])
        x = strip_casts(x['base'])
    if x is not None and x.get('k') == 'Ref' and x.get('rk') in ('param', 'local'):
        return '.'.join([x['name']] + parts[::-1])
    return None


def _as_bool(v):
    from sympy.logic.boolalg import Boolean
    if isinstance(v, Boolean) or v in (sp.true, sp.false):
        return v
    if isinstance(v, sp.Basic):
        return sp.Ne(v, 0)
    raise TypeError('not a boolean')


def _struct_root(e):
    parts = []
    x = e
    while x is not None and x.get('k') == 'Member' and x.get('field'):
        parts.append(x['name'])
        x = strip_casts(x['base'])
    if x is not None and x.get('k') == 'Ref' and x.get('rk') in ('param', 'local'):
        return x, parts[::-1]
    return None, parts[::-1]


def _truth(c):
    if c is sp.true or c is True:
        return True
    if c is sp.false or c is False:
        return False
    if isinstance(c, sp.Integer):
        return bool(c != 0)
    return None


def _has_side_effect(e):
    from .tree import walk
    for x in walk(e):
        if x.get('k') == 'Bin' and x['op'].endswith('=') and x['op'] not in ('==', '!=', '<=', '>='):
            return True
        if x.get('k') == 'Un' and x['op'] in ('++', '--'):
            return True
    return False
