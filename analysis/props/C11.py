"""C11 - pose and twist conversions keep means and covariances consistent.

Rules
  K1  selection maps (exact, on the symbolic 6x6 / 3x3 matrices): toSe2Covariance(C)(i,j) = C(s_i, s_j) with s = (0,1,5) for all nine
      entries; toSe3Covariance(M)(s_i, s_j) = M(i,j) and zero elsewhere; hence reduce(embed(M)) = M and symmetry is preserved
  K2  component routing: toPose2D keeps (x, y, yaw) and routes the covariance through toSe2Covariance; toTwist2D keeps (vx, vy, wz);
      toPosition3D keeps the position and the upper-left 3x3 block; the by-value and pose-and-twist overloads delegate
  K3  rigid transform of a pose acts as the SE(3) action: position' = R p + T with the transform's own parts, attitude' = Euler extraction
      of R * R(pose) on every path (a special-case path is accepted only outside the quantifier: closer than 1e-3 rad to gimbal lock)
  K5  the attitude matrix the pose action is built on: SmartRotation3D (constructed from the pose's Euler angles) holds Rz Ry Rx of those
      angles - the builder rules of C10 (R1/R2/R4) evaluated under this rule name on witness angles of THIS quantifier (any pitch at least
      1e-3 rad away from gimbal lock, not only |pitch| < pi/2)
  K4  uncertainty ellipse: built from the xy covariance block; major radius from principal value 0, minor from 1, orientation from
      principal vector 0, radii sqrt(value) * sigmaScale, square roots only of values that cannot be negative (singular values)
Not decided: PSD preservation numerically, ellipse reconstruction to rounding, composition of transforms numerically."""
import math
import re
import sympy as sp
from .. import sym, mat, alg
from ..tree import const_value, sx, walk, pp, strip_casts, short_fn
from .C20 import deep_unwrap
from .C14 import stmts_sx
from .C12 import PoseHook

LEVEL = 'other'
UNITS = ['src/transform/SmartRotation3D.cpp', 'src/geometry/Pose3D.cpp', 'src/geometry/Pose2D.cpp', 'src/geometry/Position2D.cpp', 'src/geometry/Twist3D.cpp', 'src/geometry/PoseAndTwist3D.cpp',
         'src/geometry/Ellipse.cpp', 'verif:inst_geometry.cpp']
ENGINES = 'E-SIB + E-ALG + E-INT over romea-facts'
TECHNIQUE = 'matrix handed to the Ellipse constructor read with a symbolic covariance, output components left unwritten on a path whose condition ignores them, by-value overloads that ignore their argument, scale law of the ellipse constructor composed with what each caller passes, conditional paths whose error moves with a quantity their conditions do not mention, vector-block stores, exact ellipse shortcuts judged by value on witness covariances, per-component guards unrolled with corner witnesses, floating type of the sigma scale, multi-path conversions judged per path with path-conditioned witnesses, corner-block copies read entry by entry, rank-threshold fact of the ellipse decomposition, sweep of every function read (and its in-repo callees) for frozen function-local statics, single precision inside double computations, lossy copy constructors, presence- or argument-keyed member caches, reference members bound to constructor arguments, loop accumulators that are members, members derived in the constructor and not refreshed by setters, results returned by reference to a member buffer, members filled from an argument under a condition that ignores it, hidden non-virtual base members, self-bound reference members, reductions that accumulate in float; builder rules of C10 on the pitch domain of this property, tolerance shortcut in the ellipse constructor; final state of nested output structs (copy-out of by-reference parameters), witness transforms inside unclassified shortcut conditions; matrix-valued formula extraction: selection maps compared entry by entry on symbolic matrices, component routing by symbolic final states, SE(3) action shape, structural ellipse index agreement and square-root domain'
EXPLANATION = ('The covariance selection/embedding maps are read on fully symbolic matrices and compared entry by entry with the (0,1,5) selection; the 3D->2D reductions are read as final '
               'states of their output structs; the pose transform is read per path; the ellipse construction is matched structurally.')
ASSUMPTIONS = ['JacobiSVD singular values are non-negative and in decreasing order, matrixU columns are the principal directions',
               'attitudes at least 1e-3 rad away from gimbal lock (quantifier)']
LEVEL_TEXT = ('Selection tables and routing are decided exactly for every covariance and pose; the pose action has the SE(3) shape on every path inside the quantifier; the ellipse uses the '
              'principal values/vectors at agreeing indexes. Numerical PSD preservation and reconstruction to rounding are not decided.')
LEVEL_NOTE = 'Not decided: PSD preservation / reconstruction numerically. Trusted: clang front end, extractor, sympy, Eigen SVD conventions.'

NS = 'romea::core::'
SEL = (0, 1, 5)


def run(fx, R, tier):
    R.floor('K1', 4)
    for S in ('double', 'float'):
        check_selection(fx, R, S)
    check_routing(fx, R)
    check_pose_action(fx, R)
    check_ellipse(fx, R)
    from . import C10_alg

    def dom(s_):
        n = s_.name.lower()
        if 'axis' in n or n in ('roll', 'pitch', 'yaw'):
            return (-620, 620)
        return None
    saved = C10_alg.ANGLE_DOMAIN[0]
    C10_alg.ANGLE_DOMAIN[0] = dom
    try:
        C10_alg.check_smart_rotation(fx, _Remap5(R))
    finally:
        C10_alg.ANGLE_DOMAIN[0] = saved


class _Remap5:
    """Forwards C10's builder verdicts under rule K5."""

    def __init__(self, R):
        self.R = R

    def holds(self, rule, inst, *a, **k):
        self.R.holds('K5', '%s[%s]' % (inst, rule), *a, **k)

    def violated(self, rule, inst, *a, **k):
        self.R.violated('K5', '%s[%s]' % (inst, rule), *a, **k)

    def undecided(self, rule, inst, *a, **k):
        self.R.undecided('K5', '%s[%s]' % (inst, rule), *a, **k)

    def check(self, cond, rule, inst, *a, **k):
        return self.R.check(cond, 'K5', '%s[%s]' % (inst, rule), *a, **k)

    def form(self, cond, rule, inst, *a, **k):
        return self.R.form(cond, 'K5', '%s[%s]' % (inst, rule), *a, **k)

    def used(self, *f):
        self.R.used(*f)

    def floor(self, rule, n):
        pass


def reader(fx, hook=mat.hook):
    rd = sym.Reader(fx, call_hook=hook, member_hook=mat.member_hook)
    rd.unroll = 8          # loops with a small constant trip count (per-component guards) are unrolled
    return rd


def check_selection(fx, R, S):
    f2 = fx.one(NS + 'toSe2Covariance<%s>' % S)
    f3 = fx.one(NS + 'toSe3Covariance<%s>' % S)
    if f2 is None or f3 is None:
        R.undecided('K1', 'toSe2Covariance<%s>' % S, 'instantiation missing')
        return
    R.used(f2, f3)
    C = mat.fresh('C', 6, 6)
    M = mat.fresh('M', 3, 3)
    try:
        r2 = reader(fx).run(f2, args=[C])
        r3 = reader(fx).run(f3, args=[M])
    except sym.Unsupported as u:
        R.undecided('K1', 'toSe2Covariance<%s>' % S, str(u))
        return
    out2 = r2[0].ret if len(r2) == 1 else None
    out3 = r3[0].ret if len(r3) == 1 else None
    if not isinstance(out2, sp.MatrixBase) or out2.shape != (3, 3) or not isinstance(out3, sp.MatrixBase) or out3.shape != (6, 6):
        R.undecided('K1', 'toSe2Covariance<%s>' % S, 'results not readable as 3x3 / 6x6 matrices')
        return
    bad2 = [(i, j, out2[i, j]) for i in range(3) for j in range(3) if out2[i, j] != C[SEL[i], SEL[j]]]
    R.check(not bad2, 'K1', 'toSe2Covariance<%s>' % S, 'entries %s are not C(s_i, s_j) with s = (0,1,5): e.g. (%s,%s) = %s instead of %s' % (
        [(i, j) for (i, j, _) in bad2], bad2[0][0] if bad2 else '', bad2[0][1] if bad2 else '', bad2[0][2] if bad2 else '', C[SEL[bad2[0][0]], SEL[bad2[0][1]]] if bad2 else ''),
        'keeps exactly the (x, y, yaw) rows and columns', fx.rel(f2['loc']), 'E-SIB')
    bad3 = []
    for a in range(6):
        for b in range(6):
            want = M[SEL.index(a), SEL.index(b)] if a in SEL and b in SEL else 0
            if out3[a, b] != want:
                bad3.append((a, b, out3[a, b], want))
    R.check(not bad3, 'K1', 'toSe3Covariance<%s>' % S, 'entries %s differ from the embedding along (0,1,5): e.g. (%s,%s) = %s instead of %s' % (
        [(a, b) for (a, b, _, _) in bad3][:6], bad3[0][0] if bad3 else '', bad3[0][1] if bad3 else '', bad3[0][2] if bad3 else '', bad3[0][3] if bad3 else ''),
        'embeds along (0,1,5), zero elsewhere', fx.rel(f3['loc']), 'E-SIB')
    # round trip and symmetry (consequences, checked on the extracted maps themselves)
    back = sp.Matrix(3, 3, lambda i, j: out2[i, j].subs({C[a, b]: out3[a, b] for a in range(6) for b in range(6)}, simultaneous=True))
    R.check(back == sp.Matrix(M), 'K1', 'reduce(embed(M))<%s>' % S, 'toSe2Covariance(toSe3Covariance(M)) = %s, not M' % back.tolist(), 'reduce o embed = identity', fx.rel(f2['loc']), 'E-ALG')
    Csym = {C[a, b]: C[min(a, b), max(a, b)] for a in range(6) for b in range(6)}
    o2s = sp.Matrix(out2).subs(Csym)
    R.check(o2s == o2s.T, 'K1', 'toSe2Covariance<%s>:symmetry' % S, 'a symmetric covariance is reduced to a non-symmetric one', 'symmetry preserved', fx.rel(f2['loc']), 'E-ALG')


def out_param_state(fx, f, in_value, hook=mat.hook):
    """Reads a `void f(const In &, Out &)` conversion: returns the final value (dict) of the output parameter."""
    rd = reader(fx, hook)
    sts = rd.run(f, args=[in_value, {}])
    if len(sts) != 1:
        return None
    return (sts[0].callee_locals or {}).get(f['params'][1]['id'])


def out_param_states(fx, f, in_value, hook=mat.hook):
    """Every path of a `void f(const In &, Out &)` conversion: [(final value of the output parameter, path state)]."""
    rd = reader(fx, hook)
    sts = rd.run(f, args=[in_value, {}])
    return [((s_.callee_locals or {}).get(f['params'][1]['id']), s_) for s_ in sts]


def sel_hook(rd, e, st, ctx):
    if e.get('k') == 'Call' and 'toSe2Covariance' in (e.get('fn') or ''):
        return [(sp.Function('toSe2Covariance')(sp.Symbol(str(id(vals[0])))) if False else ('toSe2Covariance', vals[0]), s2) for (vals, s2) in rd.evs(e['args'], st, ctx)]
    return mat.hook(rd, e, st, ctx)


def check_routing(fx, R):
    # toPose2D(pose3d, pose2d)
    p, o, C = mat.fresh('p', 3, 1), mat.fresh('o', 3, 1), mat.fresh('C', 6, 6)
    sel = sp.ImmutableMatrix(3, 3, lambda i, j: C[SEL[i], SEL[j]])
    for (fname, inval, want, what) in (
            ('toPose2D', {'position': p, 'orientation': o, 'covariance': C}, {'position': [p[0], p[1]], 'yaw': o[2], 'covariance': sel}, '(x, y), yaw and the (0,1,5) covariance'),
            ('toTwist2D', {'linearSpeeds': p, 'angularSpeeds': o, 'covariance': C}, {'linearSpeeds': [p[0], p[1]], 'angularSpeed': o[2], 'covariance': sel}, '(vx, vy), yaw rate and the (0,1,5) covariance'),
            ('toPosition3D', {'position': p, 'orientation': o, 'covariance': C}, {'position': [p[0], p[1], p[2]], 'covariance': sp.ImmutableMatrix(C[0:3, 0:3])}, 'position and its 3x3 covariance block')):
        fs = [f for f in fx.fn(NS + fname) if len(f['params']) == 2]
        fv = [f for f in fx.fn(NS + fname) if len(f['params']) == 1]
        if len(fs) != 1:
            R.undecided('K2', fname, 'two-argument overload not found')
            continue
        f = fs[0]
        R.used(f)
        try:
            got = out_param_state(fx, f, inval)
        except sym.Unsupported as u:
            R.undecided('K2', fname, str(u))
            continue
        if not isinstance(got, dict):
            # the conversion forks: every path is judged, a scalar that does not reduce is evaluated on witness components satisfying the path conditions
            try:
                multi = out_param_states(fx, f, inval)
            except sym.Unsupported as u:
                multi = []
            if len(multi) < 2 or not all(isinstance(g_, dict) for (g_, _s) in multi):
                R.undecided('K2', fname, 'output parameter not readable: %s' % (got,))
                continue
            verdict = None
            for (g_, s_) in multi:
                desc = ' && '.join(('' if c[2] else '!') + '(' + c[0] + ')' for c in s_.cond)
                # a path that leaves without writing a component of the output: the output keeps what the object held before the call.  That is wrong for every component the path's conditions do
                # not pin to the input (comparing position and yaw of the output with the input says nothing about its covariance)
                unwritten = [k_ for k_ in want if g_.get(k_) is None]
                if unwritten and len(unwritten) < len(want) + 1:
                    ctxt = ' '.join(c[0] for c in s_.cond)
                    free_ = [k_ for k_ in unwritten if k_ not in ctxt]
                    if free_ and s_.cond:
                        verdict = ('violated', 'on the path [%s] %s returns without writing the %s of its output, and the condition does not involve it: the planar %s keeps whatever the output object held before the '
                                   'call - the value of an earlier conversion when the object is re-used (a robot standing still while its covariance grows), or the zeros of a default-constructed one (a pose at the '
                                   'origin of a local frame), not the planar components of the 3D quantity it is given' % (desc[:200], fname, ', '.join(free_), ', '.join(free_)))
                        break
                for k_, w_ in want.items():
                    v_ = g_.get(k_)
                    if isinstance(w_, list):
                        if not (isinstance(v_, sp.MatrixBase) and v_.shape[0] >= len(w_)):
                            verdict = verdict or ('undecided', 'component %s not readable on the path [%s]' % (k_, desc))
                            continue
                        pairs = [(v_[i, 0], w_[i]) for i in range(len(w_))]
                    elif isinstance(w_, sp.MatrixBase):
                        if not (isinstance(v_, sp.MatrixBase) and v_.shape == w_.shape):
                            verdict = verdict or ('undecided', 'component %s not readable on the path [%s]' % (k_, desc))
                            continue
                        pairs = list(zip(list(sp.Matrix(v_)), list(sp.Matrix(w_))))
                    else:
                        if not isinstance(v_, sp.Basic):
                            verdict = verdict or ('undecided', 'component %s not readable on the path [%s]' % (k_, desc))
                            continue
                        pairs = [(v_, w_)]
                    for (a_, b_) in pairs:
                        if a_ == b_ or sp.simplify(alg.interpret(a_ - b_)) == 0:
                            continue
                        conds = [(c[1], c[2]) for c in s_.cond if isinstance(c[1], sp.Basic)]
                        r_ = alg.decide_zero_on_path(a_ - b_, conds, tries=60, domain=lambda y: (0, 700) if re.match(r'^[A-Za-z]+\[(\d+),\1\]$', y.name) else (-700, 700))      # variances are not negative
                        if r_[0] != 'nonzero':
                            # corner witnesses: exact zeros (a perfectly known component, a robot at rest) are inside the quantifier (rank-deficient covariances) and are what threshold guards select
                            fs_ = sorted(set((a_ - b_).free_symbols).union(*[c_.free_symbols for c_, _p in conds]), key=lambda y: y.name)
                            for corner in [{y: sp.Integer(0) for y in fs_}] + [{y: (sp.Integer(1) if y is z else sp.Integer(0)) for y in fs_} for z in fs_[:8]]:
                                try:
                                    okc = all(bool(alg.interpret(c_).subs(corner)) == p_ for c_, p_ in conds)
                                    dv = sp.N(alg.interpret(a_ - b_).subs(corner), 30)
                                except Exception:
                                    continue
                                if okc and dv.is_number and abs(dv) > 0:
                                    r_ = ('nonzero', corner, dv)
                                    break
                        if r_[0] == 'nonzero':
                            verdict = ('violated', 'on the path [%s] the planar %s is %s, not the %s component %s of the 3D quantity: %s (the reduction keeps exactly the planar components)' % (
                                desc, k_, str(a_)[:160], k_, b_, alg.witness_text(r_[1]) if len(r_) > 1 else ''))
                            break
                        elif r_[0] != 'zero':
                            verdict = verdict or ('undecided', 'component %s = %s on the path [%s] not decided' % (k_, str(a_)[:120], desc))
                    if verdict and verdict[0] == 'violated':
                        break
                if verdict and verdict[0] == 'violated':
                    break
            if verdict is None:
                R.holds('K2', fname, 'keeps %s on each of its %d paths' % (what, len(multi)), fx.rel(f['loc']), 'E-ALG')
            elif verdict[0] == 'violated':
                R.violated('K2', fname + ':value', verdict[1], fx.rel(f['loc']), 'E-ALG')
            else:
                R.undecided('K2', fname, verdict[1])
            continue
        bad = []
        for k, w in want.items():
            g = got.get(k)
            if isinstance(w, list):
                ok = isinstance(g, sp.MatrixBase) and [g[i, 0] for i in range(len(w))] == w
            elif isinstance(w, sp.MatrixBase):
                ok = isinstance(g, sp.MatrixBase) and sp.Matrix(g) == sp.Matrix(w)
            else:
                ok = g == w
            if not ok:
                bad.append((k, g))
        unread = [k for k, g in bad if g is None or not isinstance(g, (sp.Basic, sp.MatrixBase)) or (isinstance(want[k], (list, sp.MatrixBase)) and not isinstance(g, sp.MatrixBase))]
        if unread:
            R.undecided('K2', fname, 'component(s) %s of the output not readable after the function' % unread)
            continue
        R.check(not bad, 'K2', fname, '%s does not keep %s: %s' % (fname, what, [(k, str(g)[:120]) for k, g in bad]), 'keeps ' + what, fx.rel(f['loc']), 'E-SIB')
        if len(fv) == 1:
            by_value_delegation(fx, R, fname, fv[0])
    fpt = [f for f in fx.fn(NS + 'toPoseAndTwist2D') if len(f['params']) == 2]
    for fv_ in [f for f in fx.fn(NS + 'toPoseAndTwist2D') if len(f['params']) == 1]:
        by_value_delegation(fx, R, 'toPoseAndTwist2D', fv_)
    if len(fpt) == 1:
        R.used(fpt[0])
        v, w, D = mat.fresh('v', 3, 1), mat.fresh('w', 3, 1), mat.fresh('D', 6, 6)
        selD = sp.ImmutableMatrix(3, 3, lambda i, j: D[SEL[i], SEL[j]])
        inval = {'pose': {'position': p, 'orientation': o, 'covariance': C}, 'twist': {'linearSpeeds': v, 'angularSpeeds': w, 'covariance': D}}
        want = {('pose', 'position'): [p[0], p[1]], ('pose', 'yaw'): o[2], ('pose', 'covariance'): sel,
                ('twist', 'linearSpeeds'): [v[0], v[1]], ('twist', 'angularSpeed'): w[2], ('twist', 'covariance'): selD}
        try:
            got = out_param_state(fx, fpt[0], inval)
        except sym.Unsupported as u:
            got = None
            R.undecided('K2', 'toPoseAndTwist2D', str(u))
        if isinstance(got, dict):
            bad, unknown = [], []
            wit = {}
            for n_, M_ in (('p', p), ('o', o), ('v', v), ('w', w)):
                for i_ in range(3):
                    wit[M_[i_]] = sp.Rational(3 + 7 * i_ + 11 * len(wit), 100)
            for (a_, b_), wv in want.items():
                g = (got.get(a_) or {}).get(b_) if isinstance(got.get(a_), dict) else None
                if isinstance(wv, list):
                    ok = isinstance(g, sp.MatrixBase) and [g[i, 0] for i in range(len(wv))] == wv
                    diff = None
                elif isinstance(wv, sp.MatrixBase):
                    ok = isinstance(g, sp.MatrixBase) and sp.Matrix(g) == sp.Matrix(wv)
                    diff = None
                else:
                    ok = isinstance(g, sp.Basic) and sp.simplify(g - wv) == 0
                    diff = None
                    if not ok and isinstance(g, sp.Basic):
                        try:
                            dv = sp.N((g - wv).subs(wit), 30)
                            diff = dv if dv.is_number and abs(dv) > 1e-20 else None
                        except (TypeError, ValueError):
                            diff = None
                if ok:
                    continue
                if diff is not None:
                    bad.append((a_, b_, g, wv, diff))
                elif isinstance(wv, (list, sp.MatrixBase)) and isinstance(g, sp.MatrixBase):
                    bad.append((a_, b_, g, wv, None))
                else:
                    unknown.append((a_, b_, g))
            if bad:
                a_, b_, g, wv, diff = bad[0]
                R.violated('K2', 'toPoseAndTwist2D:%s.%s' % (a_, b_), 'the planar %s.%s is left as %s; the reduction keeps %s%s' % (
                    a_, b_, str(g)[:200], wv, '' if diff is None else ' (they differ by %s for orientation %s, angular speeds %s)' % (
                        sp.N(diff, 5), [float(wit[o[i]]) for i in range(3)], [float(wit[w[i]]) for i in range(3)])), fx.rel(fpt[0]['loc']), 'E-ALG')
            elif unknown:
                R.undecided('K2', 'toPoseAndTwist2D', 'component(s) %s not readable' % [(a_, b_) for (a_, b_, _) in unknown])
            else:
                R.holds('K2', 'toPoseAndTwist2D', 'final state of the output: pose -> (x, y, yaw, (0,1,5) covariance), twist -> (vx, vy, wz, (0,1,5) covariance)', fx.rel(fpt[0]['loc']), 'E-ALG')
        elif got is not None or True:
            if not isinstance(got, dict) and got is not None:
                R.undecided('K2', 'toPoseAndTwist2D', 'output parameter not readable')
    else:
        R.undecided('K2', 'toPoseAndTwist2D', 'overload not found')


def ellipse_argument_value(fx, g, is_pose):
    """Reads uncertaintyEllipse(...) with a symbolic symmetric covariance and records what is handed to the Ellipse constructor: None (not readable), (True, n paths) or
    (False, path, matrix handed over, expected, (i, j), difference)."""
    n = 3 if is_pose else 2
    C = sp.Matrix(n, n, lambda i, j: sp.Symbol('c%d%d' % (min(i, j), max(i, j)), real=True))
    seen = []

    def hook(rd, e, st, ctx):
        if e.get('k') == 'Construct' and (e.get('cls') or '').endswith('Ellipse') and len(e.get('args', [])) == 3:
            out = []
            for (vals, s2) in rd.evs(e['args'], st, ctx):
                seen.append((vals, [(c[0], c[2]) for c in s2.cond]))
                out.append(({'ellipse': True}, s2))
            return out
        return mat.hook(rd, e, st, ctx)
    rd = sym.Reader(fx, call_hook=hook, member_hook=mat.member_hook)
    pose = {'position': mat.fresh('p', 2, 1), 'covariance': sp.ImmutableMatrix(C)}
    if is_pose:
        pose['yaw'] = sp.Symbol('yaw', real=True)
    try:
        rd.run(g, args=[pose, sp.Symbol('arg:sigmaScale', positive=True)][:len(g['params'])])
    except sym.Unsupported:
        return None
    if not seen:
        return None
    want = sp.Matrix(C[0:2, 0:2])
    for (vals, conds) in seen:
        M = vals[1]
        if not isinstance(M, sp.MatrixBase) or M.shape != (2, 2) or any(x_.atoms(sp.core.function.AppliedUndef) for x_ in M if isinstance(x_, sp.Basic)):
            return None
        D = (sp.Matrix(M) - want).applyfunc(sp.simplify)
        bad = [(i, j) for i in range(2) for j in range(2) if D[i, j] != 0]
        if bad:
            desc = ' && '.join(('' if pol else '!') + '(' + txt + ')' for (txt, pol) in conds)
            return (False, desc, sp.Matrix(M).tolist(), want.tolist(), bad[0], D[bad[0][0], bad[0][1]])
    return (True, len(seen))


def by_value_delegation(fx, R, fname, fv):
    """The by-value overload `T2 f(const T3 &)`: declares a result, hands (argument, result) to the two-argument overload, returns the result."""
    R.used(fv)
    st = stmts_sx(fv)
    pn = fv['params'][0]['name']
    okv = len(st) == 3 and st[0][0] == 'decl' and st[1] == ('expr', (fname, pn, st[0][1])) and st[2] == ('return', st[0][1])
    if okv:
        R.holds('K2', fname + '(by value)', 'delegates to the two-argument overload', fx.rel(fv['loc']), 'E-SIB')
        return
    # a fact that holds whatever the form: the argument is never used
    def mentions(t, name):
        return t == name or (isinstance(t, tuple) and any(mentions(x, name) for x in t))
    uses_arg = any(mentions(s_, pn) for s_ in st)
    if not uses_arg:
        R.violated('K2', fname + '(by value):argument-unused', 'the by-value overload %s(%s) never uses its argument (statements: %s): what it returns does not depend on the 3D quantity it is given - a '
                   'default-constructed planar value for every input' % (fname, pn, [s_[0] if isinstance(s_, tuple) else s_ for s_ in st]), fx.rel(fv['loc']), 'E-SIB')
    else:
        R.undecided('K2', fname + '(by value)', 'delegation idiom not recognised: %s' % (st,))


def check_pose_action(fx, R):
    fs = [f for f in fx.fn(NS + 'operator*') if 'Pose3D' in f['sig'] and 'Transform' in f['sig']]
    if len(fs) != 1:
        R.undecided('K3', 'operator*(Affine3d,Pose3D)', 'anchor vanished')
        return
    f = fs[0]
    R.used(f)
    loc = fx.rel(f['loc'])
    H = PoseHook()
    rd = sym.Reader(fx, call_hook=H, member_hook=mat.member_hook, max_depth=8)
    p, o = mat.fresh('p', 3, 1), mat.fresh('o', 3, 1)
    Z = sp.ImmutableMatrix(sp.zeros(6, 6))
    try:
        sts = rd.run(f, args=[None, {'position': p, 'orientation': o, 'covariance': Z}])
    except sym.Unsupported as u:
        R.undecided('K3', 'operator*(Affine3d,Pose3D)', 'symbolic reader: %s' % u)
        return
    A, t, P = H.A, H.t, H.P
    M = A * P
    want_o = [sp.atan2(M[2, 1], M[2, 2]), -sp.asin(M[2, 0]), sp.atan2(M[1, 0], M[0, 0])]
    for n, st in enumerate(sts):
        res = st.ret
        desc = ' && '.join(('' if c[2] else '!') + '(' + c[0] + ')' for c in st.cond)
        tag = '' if len(sts) == 1 else '[%s]' % desc
        if not isinstance(res, dict):
            R.undecided('K3', 'operator*:result' + tag, 'result not readable')
            continue
        pos = res.get('position')
        if not isinstance(pos, sp.MatrixBase) or pos.shape != (3, 1) or any(not isinstance(x_, sp.Basic) or x_.atoms(sp.core.function.AppliedUndef) for x_ in pos):
            R.undecided('K3', 'operator*:position' + tag, "position' is not readable on this path (%s)" % (str(pos)[:120],))
        else:
            dpos = (sp.Matrix(pos) - (A * p + t)).expand()
            okp = dpos == sp.zeros(3, 1)
            real_conds = [c for c in st.cond if c[0] not in ('True', 'False')]
            if okp:
                R.holds('K3', 'operator*:position' + tag, "p' = R p + T", loc, 'E-ALG')
            elif not real_conds:
                R.violated('K3', 'operator*:position', "position' is %s, expected R*p + T" % (pos,), loc, 'E-ALG')
            else:
                # a conditional path: the difference may vanish under the path's conditions.  It cannot when it moves with a quantity the conditions do not mention at all: whatever inputs reach the path,
                # changing that quantity alone keeps them on the path and changes the difference, so it is not zero for all of them
                csyms = set()
                for c in real_conds:
                    csyms |= (c[1].free_symbols if isinstance(c[1], sp.Basic) else set())
                free = None
                for k_ in range(3):
                    for s_ in sorted(dpos[k_].free_symbols - csyms, key=str):
                        d_ = sp.diff(dpos[k_], s_)
                        if d_.is_number and d_ != 0:
                            free = free or (k_, s_, d_)
                if free:
                    nm = {str(t[i]): 'translation %s' % 'xyz'[i] for i in range(3)}
                    R.violated('K3', 'operator*:position:shortcut', "on the path [%s] component %s of the new position is %s where the SE(3) action gives %s: the difference moves one for one with %s, which the "
                               "path's conditions do not mention - for whatever pose and rotation the shortcut is taken, it is taken for every translation, and the result is right for at most one value of that "
                               "component (the %s of the transform is dropped or altered on this path)" % (desc[:200], 'xyz'[free[0]], pos[free[0]], (A * p + t)[free[0]], free[1], nm.get(str(free[1]), str(free[1]))),
                               loc, 'E-ALG')
                else:
                    R.undecided('K3', 'operator*:position' + tag, "position' on this path is %s, which equals R*p + T only under the path's conditions; they are not decided here" % (str(pos.T.tolist())[:200],))
        ori = res.get('orientation')
        ok_o = isinstance(ori, sp.MatrixBase) and all(isinstance(ori[k, 0], sp.Basic) and str(ori[k, 0].func) == 'mod2pi' and sp.expand(ori[k, 0].args[0] - want_o[k]) == 0 or
                                                    (isinstance(ori[k, 0], sp.Basic) and str(ori[k, 0].func) == 'mod2pi' and ori[k, 0].args[0] == want_o[k]) for k in range(3))
        if ok_o:
            R.holds('K3', 'operator*:attitude' + tag, "attitude' = Euler extraction of R * R(pose)", loc, 'E-ALG')
            continue
        # a special-case path: acceptable only if its condition lies outside the quantifier (within 1e-3 rad of gimbal lock)
        thr = None
        for c in st.cond:
            r = c[1]
            if isinstance(r, (sp.Lt, sp.Le, sp.Gt, sp.Ge)) and any(isinstance(a, sp.Abs) for a in (r.lhs, r.rhs)):
                num = r.rhs if isinstance(r.lhs, sp.Abs) else r.lhs
                absarg = (r.lhs if isinstance(r.lhs, sp.Abs) else r.rhs).args[0]
                if num.is_number and sp.expand(absarg - M[2, 0]) == 0:
                    thr = (float(num), type(r), c[2], isinstance(r.lhs, sp.Abs))
        if thr is None:
            if len(sts) == 1:
                R.violated('K3', 'operator*:attitude', "attitude' is %s, not the Euler extraction of R * R(pose)" % (ori,), loc, 'E-ALG')
            else:
                w = disagreeing_witness(st, ori, want_o, A, t, p, o, P) if isinstance(ori, sp.MatrixBase) else None
                if w:
                    R.violated('K3', 'operator*:attitude:shortcut', "on the path [%s] the attitude is %s instead of the Euler extraction of R*R(pose); the path is taken for the transform Rz(%s) Ry(%s) Rx(%s) "
                               "applied to the attitude %s, where it differs from the SE(3) action by %.3g (largest entry of the difference of the two rotation matrices): the condition admits transforms "
                               "the shortcut formula is not exact for" % (desc, [str(x)[:60] for x in ori], w[0][2], w[0][1], w[0][0], w[1], w[2]), loc, 'E-ORD')
                else:
                    R.undecided('K3', 'operator*:attitude' + tag, 'path with a different attitude formula under a condition that is not a bound on |sin(pitch\')|; it agrees with the SE(3) action on the witness transforms that reach it')
            continue
        T = thr[0]
        limit = math.cos(1e-3)          # |sin pitch'| of attitudes exactly 1e-3 rad from gimbal lock
        if T < limit:
            R.violated('K3', 'operator*:attitude:special-case', "on the path [%s] the attitude is %s instead of the Euler extraction of R*R(pose); that path is taken for |sin(pitch')| >= %.9f, i.e. up to %.3g rad "
                       "from gimbal lock, but the property holds from 1e-3 rad on (|sin| <= %.9f)" % (desc, [str(x) for x in ori], T, math.acos(T), limit), loc, 'E-ORD')
        else:
            R.holds('K3', 'operator*:attitude' + tag, 'special case only closer than 1e-3 rad to gimbal lock', loc, 'E-ORD')


def _rot(roll, pitch, yaw):
    cx, sx_, cy, sy, cz, sz = sp.cos(roll), sp.sin(roll), sp.cos(pitch), sp.sin(pitch), sp.cos(yaw), sp.sin(yaw)
    Rx = sp.Matrix([[1, 0, 0], [0, cx, -sx_], [0, sx_, cx]])
    Ry = sp.Matrix([[cy, 0, sy], [0, 1, 0], [-sy, 0, cy]])
    Rz = sp.Matrix([[cz, -sz, 0], [sz, cz, 0], [0, 0, 1]])
    return Rz * Ry * Rx


def disagreeing_witness(st, ori, want_o, A, t, p, o, P=None):
    """A transform / attitude for which this path is taken (all its conditions hold) and its attitude differs, as a rotation, from the
    Euler extraction of A*R(o) by more than 1e-9; None if no witness reaches the path or all agree."""
    two_pi = 2 * sp.pi

    def defn(e):
        e = e.replace(lambda x: isinstance(x, sp.core.function.AppliedUndef) and len(x.args) == 2 and 'fmod' in str(x.func),
                      lambda x: x.args[0] - x.args[1] * sp.sign(x.args[0] / x.args[1]) * sp.floor(sp.Abs(x.args[0] / x.args[1])))
        return e.replace(lambda x: isinstance(x, sp.core.function.AppliedUndef) and len(x.args) == 1, lambda x: x.args[0] - two_pi * sp.floor(x.args[0] / two_pi))

    def num(e, env):
        return sp.N(defn(e.subs(env)), 40)
    att = (sp.Rational(1, 10), -sp.Rational(1, 5), sp.Rational(3, 10))
    for (al, be, ps) in ((0, 0, sp.Rational(7, 10)), (sp.Rational(3, 10 ** 5), 0, sp.Rational(7, 10)), (0, sp.Rational(2, 10 ** 5), sp.Rational(7, 10)), (sp.Rational(1, 10 ** 6), sp.Rational(1, 10 ** 6), 0),
                         (sp.Rational(1, 1000), 0, sp.Rational(1, 2)), (sp.Rational(3, 10), sp.Rational(1, 5), sp.Rational(7, 10))):
        An = _rot(al, be, ps)
        env = {A[i, j]: An[i, j] for i in range(3) for j in range(3)}
        env.update({t[i]: sp.Rational(1 + i, 2) for i in range(3)})
        env.update({p[i]: sp.Rational(2 + i, 3) for i in range(3)})
        env.update({o[i]: att[i] for i in range(3)})
        if P is not None:
            Pn = _rot(*att)
            env.update({P[i, j]: Pn[i, j] for i in range(3) for j in range(3)})
        try:
            feasible = True
            for c in st.cond:
                if c[0] in ('True', 'False') or not isinstance(c[1], sp.Basic):
                    continue
                v = defn(c[1].subs(env))
                v = sp.simplify(v) if v not in (sp.true, sp.false) else v
                if v not in (sp.true, sp.false):
                    lhs, rhs = sp.N(v.lhs, 40), sp.N(v.rhs, 40)
                    v = v.func(lhs, rhs)
                if v not in (sp.true, sp.false):
                    feasible = None
                    break
                if bool(v) != c[2]:
                    feasible = False
                    break
            if not feasible:
                continue
            got = [num(ori[k, 0], env) for k in range(3)]
            ref = [num(want_o[k], env) for k in range(3)]
            d = (_rot(*got) - _rot(*ref)).applyfunc(lambda x: abs(sp.N(x, 40)))
            worst = max(d)
            if worst > sp.Float('1e-9'):
                return ((al, be, ps), [str(a_) for a_ in att], float(worst))
        except (TypeError, ValueError, AttributeError):
            continue
    return None


def check_ellipse(fx, R):
    ctors = [f for f in fx.functions.values() if f.get('ctor') and f.get('cls') == NS + 'Ellipse' and len(f['params']) == 3 and 'Matrix<double, 2, 2' in f['sig']]
    if len(ctors) != 1:
        R.undecided('K4', 'Ellipse(centre, covariance, sigma)', 'constructor not found')
        return
    f = ctors[0]
    R.used(f)
    loc = fx.rel(f['loc'])
    st = stmts_sx(f)
    decls = {s[1]: s[2] for s in st if s[0] == 'decl'}
    assigns = {s[1][1]: s[1][2] for s in st if s[0] == 'expr' and isinstance(s[1], tuple) and s[1][0] == '='}

    def expand(x, depth=0):
        if isinstance(x, str) and x in decls and decls[x] is not None and depth < 5 and not (isinstance(decls[x], tuple) and str(decls[x][0]).startswith(('new:Eigen::JacobiSVD', 'new:Eigen::SelfAdjointEigenSolver'))):
            return expand(decls[x], depth + 1)
        if isinstance(x, tuple):
            return tuple(expand(y, depth + 1) if i else y for i, y in enumerate(x))
        return x
    # a path that leaves the constructor before the decomposition
    from .. import earlyexit
    top = f['body']['s'] if f['body'] and f['body'].get('k') == 'Compound' else []
    dec_i = next((i for i, x in enumerate(top) if x.get('k') == 'Decl' and any('JacobiSVD' in (v['t'].get('s') or '') or 'EigenSolver' in (v['t'].get('s') or '') for v in x['vars'])), None)
    for (node, ctext, tol) in earlyexit.exits_before(top, dec_i):
        if tol and 'covariance' in ctext.lower():
            R.violated('K4', 'Ellipse(covariance):tolerance-shortcut', 'under `%s` the ellipse is built without the decomposition; the test is %s on covariance entries whose magnitude the quantifier does not '
                       'bound (standard deviations of millimetres give entries of 1e-6): a correlated covariance of small magnitude is treated as axis-aligned, orientation and radii then do not reproduce it' % (ctext, tol),
                       fx.rel(node['loc']), 'E-STATE')
        else:
            # an exact shortcut: the constructor is read on witness covariances (axis-aligned with either axis dominant, isotropic, rank deficient, correlated); on every path that ends with plain numbers
            # the stored radii and orientation must reproduce the covariance
            rdw = sym.Reader(fx, call_hook=mat.hook, member_hook=mat.member_hook)
            sg = sp.Integer(2)
            judged, badw = 0, None
            for cw in ([[1, 0], [0, 4]], [[4, 0], [0, 1]], [[2, 0], [0, 2]], [[0, 0], [0, 3]], [[3, 0], [0, 0]], [[2, 1], [1, 2]], [[1, sp.Rational(1, 2)], [sp.Rational(1, 2), 3]]):
                Cw = sp.ImmutableMatrix(cw)
                try:
                    stsw = rdw.run(f, args=[mat.fresh('c', 2, 1), Cw, sg])
                except sym.Unsupported:
                    continue
                for sw in stsw:
                    Mj, mn, th = (sw.fields.get(('this', n_)) for n_ in ('majorRadius_', 'minorRadius_', 'orientation_'))
                    if not all(isinstance(v_, sp.Basic) and v_.is_number for v_ in (Mj, mn, th)):
                        continue
                    judged += 1
                    Rw = sp.Matrix([[sp.cos(th), -sp.sin(th)], [sp.sin(th), sp.cos(th)]])
                    back = sp.simplify(Rw * sp.diag(Mj ** 2, mn ** 2) * Rw.T / sg ** 2 - sp.Matrix(Cw))
                    if back != sp.zeros(2, 2) or not (Mj >= mn >= 0):
                        badw = badw or (cw, Mj, mn, th, (Rw * sp.diag(Mj ** 2, mn ** 2) * Rw.T / sg ** 2).tolist())
            if badw:
                R.violated('K4', 'Ellipse(covariance):shortcut:value', 'under `%s` the ellipse is built without the decomposition; for the covariance %s (sigma scale 2) that path stores major radius %s, minor radius %s, '
                           'orientation %s, and R diag(major^2, minor^2) R^T / sigma^2 is %s - not the covariance: the major axis is reported along x although the larger variance is along y' % (
                               ctext, badw[0], badw[1], badw[2], badw[3], badw[4]), fx.rel(node['loc']), 'E-STEP')
            elif judged:
                R.holds('K4', 'Ellipse(covariance):shortcut', 'under `%s` the stored radii and orientation reproduce the covariance on the %d witness covariances that take a path ending in plain numbers' % (ctext, judged),
                        fx.rel(node['loc']), 'E-STEP')
            else:
                R.undecided('K4', 'Ellipse(covariance):shortcut', 'a path leaves the constructor before the decomposition under `%s`' % ctext)
    svd = [n for n, d in decls.items() if isinstance(d, tuple) and str(d[0]).startswith('new:Eigen::JacobiSVD') and len(d) > 1 and d[1] == 'covarianceMatrix']
    eig = [n for n, d in decls.items() if isinstance(d, tuple) and str(d[0]).startswith('new:Eigen::SelfAdjointEigenSolver') and len(d) > 1 and d[1] == 'covarianceMatrix']
    maj, mnr, ori = expand(assigns.get('this.majorRadius_')), expand(assigns.get('this.minorRadius_')), expand(assigns.get('this.orientation_'))
    P3 = f['params'][2]['name']
    law = None
    if svd:
        sv = svd[0]
        val = lambda k: ('()', ('.singularValues', sv), k)
        vec_ = lambda i, j: ('()', ('.matrixU', sv), i, j)
        # the scale law of the constructor: radii sqrt(value) * P (P is a number of sigmas) or sqrt(value * P) (P is a squared Mahalanobis radius); what the callers pass is judged against it below
        def radius_form(x):
            for k_ in (0, 1):
                if x in (('*', ('sqrt', val(k_)), P3), ('*', P3, ('sqrt', val(k_)))):
                    return (k_, 'lin')
                if x in (('sqrt', ('*', val(k_), P3)), ('sqrt', ('*', P3, val(k_)))):
                    return (k_, 'sq')
            return None
        fm_, fn_ = radius_form(maj), radius_form(mnr)
        if fm_ and fn_ and fm_[1] == fn_[1]:
            law = fm_[1]
        sig_ = lambda k_: ('*', ('sqrt', val(k_)), 'sigmaScale')
        if law == 'sq' or (law == 'lin' and P3 != 'sigmaScale'):
            # normalise to the enumerated spelling so that the index rules below read both laws
            maj = sig_(fm_[0])
            mnr = sig_(fn_[0]) if not (isinstance(mnr, tuple) and mnr[0] == '?:') else mnr
        elif fm_ and fn_ and fm_[1] != fn_[1]:
            R.violated('K4', 'Ellipse(covariance):scale-law', 'the major radius is %s and the minor radius %s: the two semi-axes scale differently with the third argument (one linearly, one with its square root), so for '
                       'every scale other than 1 R diag(major^2, minor^2) R^T / sigma^2 does not reproduce the covariance' % (assigns.get('this.majorRadius_'), assigns.get('this.minorRadius_')), loc, 'E-SIB')
        ok = maj == ('*', ('sqrt', val(0)), 'sigmaScale') and mnr == ('*', ('sqrt', val(1)), 'sigmaScale') and ori == ('atan2', vec_(1, 0), vec_(0, 0))
        if ok:
            R.holds('K4', 'Ellipse(covariance):axes', 'major <- singular value 0, minor <- 1, orientation <- column 0 of U, radii %s' % ('sqrt(value)*scale' if law != 'sq' else 'sqrt(value*squared scale)'), loc, 'E-SIB')
        else:
            sw = maj == ('*', ('sqrt', val(1)), 'sigmaScale') and mnr == ('*', ('sqrt', val(0)), 'sigmaScale')
            def kidx(x):
                for k_ in (0, 1):
                    if x == ('*', ('sqrt', val(k_)), 'sigmaScale'):
                        return k_
                return None
            km, kn = kidx(maj), kidx(mnr)
            if km is not None and kn is not None and (km, kn) != (0, 1) and not sw:
                R.violated('K4', 'Ellipse(covariance):axes', 'major radius uses singular value %d and minor radius singular value %d; they must be values 0 and 1 (decreasing order)' % (km, kn), loc, 'E-SIB')
            elif sw:
                R.violated('K4', 'Ellipse(covariance):axes', 'major radius is taken from singular value 1 and minor from 0 (decreasing order: 0 is the largest)', loc, 'E-SIB')
            elif ori in (('atan2', vec_(1, 1), vec_(0, 1)),) and maj == ('*', ('sqrt', val(0)), 'sigmaScale'):
                R.violated('K4', 'Ellipse(covariance):axes', 'orientation is read from column 1 of U while the major radius uses singular value 0', loc, 'E-SIB')
            elif maj == ('*', ('sqrt', val(0)), 'sigmaScale') and isinstance(mnr, tuple) and mnr[0] == '?:' and len(mnr) == 4 and ('.rank', sv) in (mnr[1][1:] if isinstance(mnr[1], tuple) else ()):
                # minor radius forced to a constant when the decomposition reports rank <= 1: Eigen's rank() counts the singular values above
                # threshold * (largest one); the quantifier has covariances with condition number up to 1e8
                thr = None
                for x_ in walk(f['body']):
                    if isinstance(x_, dict) and x_.get('k') == 'MCall' and x_.get('m') == 'setThreshold' and x_.get('args'):
                        thr = const_value(x_['args'][0])
                alt = mnr[3] if mnr[2] == ('*', ('sqrt', val(1)), 'sigmaScale') else None
                if isinstance(thr, float) and thr * 1e8 > 1 and alt is not None:
                    R.violated('K4', 'Ellipse(covariance):rank-threshold', 'the minor radius is %s unless svd.rank() > 1, and the decomposition was given the threshold %g: rank() counts singular values above %g times the '
                               'largest, so every full-rank covariance with condition number above %.3g - the quantifier goes to 1e8 - is declared rank 1 and loses its minor axis: R diag(major^2, minor^2) R^T / sigma^2 '
                               'no longer reproduces it' % (alt, thr, thr, 1 / thr), loc, 'E-INT')
                else:
                    R.undecided('K4', 'Ellipse(covariance):axes', 'minor radius depends on svd.rank() (threshold %s): not decided' % thr)
            else:
                R.undecided('K4', 'Ellipse(covariance):axes', 'index pattern not recognised: major %s minor %s orientation %s' % (maj, mnr, ori))
        R.holds('K4', 'Ellipse(covariance):sqrt-domain', 'square roots of singular values (non-negative by construction)', loc, 'E-INT')
    elif eig:
        es = eig[0]
        uses = [x for x in (maj, mnr) if x is not None]
        clamp = all(('std::max' in str(x) or 'abs' in str(x)) for x in uses)
        if uses and all('.eigenvalues' in str(x) and 'sqrt' in str(x) for x in uses) and not clamp:
            R.violated('K4', 'Ellipse(covariance):sqrt-domain', 'the radii are square roots of eigenvalues of SelfAdjointEigenSolver taken without clamping: for a rank-deficient positive semi-definite '
                       'covariance (inside the quantifier) the smallest eigenvalue comes out as a tiny negative number and the minor radius is NaN', loc, 'E-INT')
        else:
            R.undecided('K4', 'Ellipse(covariance):axes', 'eigen-solver based construction: %s %s %s' % (maj, mnr, ori))
    else:
        R.undecided('K4', 'Ellipse(covariance):axes', 'neither a JacobiSVD nor a self-adjoint eigen decomposition of the covariance argument found')
    inits = {i.get('field'): deep_unwrap(sx(i['e'])) for i in f['inits'] if i.get('field')}
    R.form(inits.get('centerPosition_') == 'centerPosition', 'K4', 'Ellipse(covariance):centre', 'centre initialised with %s' % (inits.get('centerPosition_'),), 'centre = position', loc, 'E-SIB')
    for (q, cov) in ((NS + 'uncertaintyEllipse', None),):
        for g in fx.fn(q):
            R.used(g)
            st2 = stmts_sx(g)
            pn = g['params'][0]['name']
            want_pose = [('return', ('new:Ellipse', pn + '.position', ('.block', pn + '.covariance', 0, 0), 'sigmaScale'))]
            want_pos = [('return', ('new:Ellipse', pn + '.position', pn + '.covariance', 'sigmaScale'))]
            is_pose = 'Pose2D' in g['sig']
            # the sigma scale ranges over the REALS of (0, 10] (2.4477 is the 95 % ellipse): it must travel as a floating value from the caller to the radii
            sg = next((p_ for p_ in g['params'] if 'sigma' in p_['name'].lower()), None)
            if sg is not None:
                tsg = sg.get('t') or {}
                R.check(tsg.get('c') == 'fp', 'K4', 'uncertaintyEllipse(%s):sigma-type' % ('Pose2D' if is_pose else 'Position2D'), 'the sigma scale is taken as `%s`: a caller\'s 2.4477 (or 0.5) is converted '
                        'implicitly and silently truncated to 2 (or 0) before it reaches the radii, so R diag(major^2, minor^2) R^T / sigma^2 reproduces the covariance only for integral scales (the quantifier has every '
                        'scale in (0, 10])' % tsg.get('s'), 'sigma scale is a floating parameter', fx.rel(g['loc']), 'E-INT')
            ok = st2 == (want_pose if is_pose else want_pos)
            # what reaches the constructor's third parameter, composed with the constructor's scale law, must be the caller's sigma (sibling callers of one constructor must agree on the meaning of that parameter)
            psg = sg['name'] if sg is not None else 'sigmaScale'
            third = None
            if len(st2) == 1 and st2[0][0] == 'return' and isinstance(st2[0][1], tuple) and st2[0][1][0] == 'new:Ellipse' and len(st2[0][1]) == 4:
                third = deep_unwrap(st2[0][1][3])
            passed = 'sigma' if third == psg else 'sigma^2' if third in (('*', psg, psg), ('pow', psg, 2), ('std::pow', psg, 2)) else None
            who = 'Pose2D' if is_pose else 'Position2D'
            if law and passed:
                eff = {('lin', 'sigma'): 'sigma', ('lin', 'sigma^2'): 'sigma^2', ('sq', 'sigma'): 'sqrt(sigma)', ('sq', 'sigma^2'): 'sigma'}[(law, passed)]
                if eff != 'sigma':
                    w_ = {'sigma^2': '4 (twice too large)', 'sqrt(sigma)': '1.41 (the two-sigma ellipse comes out as the 1.41-sigma one)'}[eff]
                    R.violated('K4', 'uncertaintyEllipse(%s):scale-law' % who, 'this overload hands %s to the Ellipse constructor, whose radii are %s of its third parameter `%s`: the semi-axes come out scaled by %s instead of '
                               'sigma - for sigma = 2 by %s, so R diag(major^2, minor^2) R^T / sigma^2 is not the covariance%s' % (
                                   {'sigma': 'its sigma scale unchanged', 'sigma^2': 'the SQUARE of its sigma scale'}[passed], {'lin': 'sqrt(value) TIMES', 'sq': 'the square root of value times'}[law], P3, eff, w_,
                                   ' (callers of one constructor must agree with it on what its third parameter means)'), fx.rel(g['loc']), 'E-SIB')
                    continue
                if ok or (st2 == [('return', ('new:Ellipse',) + (want_pose if is_pose else want_pos)[0][1][1:3] + (st2[0][1][3],))]):
                    R.holds('K4', 'uncertaintyEllipse(%s)' % who, 'position, xy covariance block, %s handed to a constructor whose radii are %s of it: semi-axes scale with sigma' % (
                        passed, {'lin': 'sqrt(value) times', 'sq': 'sqrt(value times ...)'}[law]), fx.rel(g['loc']), 'E-SIB')
                    continue
            if ok and law in (None, 'lin'):
                R.holds('K4', 'uncertaintyEllipse(%s)' % ('Pose2D' if is_pose else 'Position2D'), 'position, xy covariance block, sigma', fx.rel(g['loc']), 'E-SIB')
            else:
                # by value: the function is read with a symbolic covariance; what reaches the Ellipse constructor must be the xy block of that covariance (the marginal covariance of the position), on every path
                v_ = ellipse_argument_value(fx, g, is_pose)
                who_ = 'Pose2D' if is_pose else 'Position2D'
                if v_ is None:
                    R.undecided('K4', 'uncertaintyEllipse(%s)' % who_, 'idiom not recognised: %s' % (st2,))
                elif v_[0]:
                    R.holds('K4', 'uncertaintyEllipse(%s)' % who_, 'the covariance handed to the constructor is the xy block on every path (%d)' % v_[1], fx.rel(g['loc']), 'E-ALG')
                else:
                    R.violated('K4', 'uncertaintyEllipse(%s):covariance' % who_, 'on the path [%s] the covariance handed to the Ellipse constructor is %s, not the xy block of the covariance (%s): the ellipse is built from '
                               'another matrix - entry (%d,%d) differs by %s - so R diag(major^2, minor^2) R^T / sigma^2 does not reproduce the xy covariance whenever that term is not zero (a covariance with '
                               'position-heading cross terms, as every filter produces)' % (v_[1][:120], str(v_[2])[:160], v_[3], v_[4][0], v_[4][1], str(v_[5])[:120]), fx.rel(g['loc']), 'E-ALG')
