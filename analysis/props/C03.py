"""C03 - Lambert conformal conic projection: defining identities (exact algebra on the extracted formulas)
and definedness on both hemispheres (interval/sign evaluation).

Rules
  D1  definedness on either hemisphere: every log / fractional-pow argument in the projection code is >= 0 for cones of the
      northern AND of the southern hemisphere (n and c change sign with the hemisphere)
  A1  the forward map is the polar form  x-xs = R sin(n dlon),  ys-y = R cos(n dlon)  with  R = c exp(-n L(lat))
  A2  scale k = n R / (N cos lat) is exactly 1 on both standard parallels (secant) and k0 on the tangent parallel
  A3  the projection origin maps to (x0, y0) and the central meridian onto x = x0
  A4  conformality: dL/dlat = (1-e^2) / ((1 - e^2 sin^2 lat) cos lat)   (with A1 this is meridian scale = parallel scale)
  A5  inverse consistency: substituting the forward map into the inverse gives back L and dlon; the latitude iteration has the
      true latitude as a fixed point
  A6  stopping tolerance of the latitude iteration: small enough for the 1e-11 rad claim, and above the spacing of doubles when it is the only exit
  A7  hidden state (E-PURE): the seven conversion functions keep no result in function-local statics / mutable globals unless every
      parameter the kept value depends on is compared on the path that re-uses it (two converters on different ellipsoids share statics)
  W1  parameters computed by computeProjectionParameters reach the fields the maps read (aggregate order / constructor chain)
Not decided: convergence of the latitude iteration and the 1e-11 rad bound (floating point)."""
import math
import sympy as sp
from .. import sym, esign
from ..tree import walk, pp, short_fn, strip_casts

LEVEL = 'other'
UNITS = ['src/geodesy/LambertConverter.cpp']
ENGINES = 'E-ALG + E-INT over romea-facts'
TECHNIQUE = 'IEEE remainder interpreted, ambient errno tested without being cleared (sweep H1), exits in front of the inverse under an absolute length test, every path of the two helpers on witness (latitude, eccentricity) pairs incl. the sphere, re-mapped constructor fields judged through the forward map on path-conditioned witnesses, sweep of every function read (and its in-repo callees) for frozen function-local statics, single precision inside double computations, lossy copy constructors, presence- or argument-keyed member caches, reference members bound to constructor arguments, loop accumulators that are members, members derived in the constructor and not refreshed by setters, results returned by reference to a member buffer, members filled from an argument under a condition that ignores it, hidden non-virtual base members, self-bound reference members, reductions that accumulate in float; constructors read end to end (delegating constructors, braced aggregates by record field order): the eccentricity the maps use is that of the ellipsoid; hidden-state (function-local static cache) coherence analysis, stopping-tolerance bounds, witness-confirmed residuals; formula extraction from the AST (symbolic reading, no execution) + exact computer algebra (sympy) for the projection identities; interval/sign evaluation of log/pow arguments on both hemispheres'
EXPLANATION = ('The projection formulas are extracted from the source as exact symbolic expressions over named atoms (N1, isolat1, n, c ...) with their defining relations; '
               'the identities quoted by the statement (scale 1 on the parallels, origin, central meridian, conformality, inverse consistency) are decided by exact algebra, '
               'and the domain of every log/pow is checked by interval evaluation for northern and southern cones.')
ASSUMPTIONS = ['exact real arithmetic; |latitude| < pi/2 so cos(lat) > 0 and tan(pi/4+lat/2) > 0; eccentricity in [0, 0.1]',
               'the cone constant n has the sign of the hemisphere (n ~ sin(lat0)) and is non-zero',
               'the cone apex (rho = 0, the pole) is outside the quantifier']
LEVEL_TEXT = ('The defining identities of the projection hold for all parameters and points at once in exact arithmetic (any changed term leaves a non-zero residual), '
              'and the formulas are defined for cones of either hemisphere. Convergence/rounding of the inverse latitude iteration is not decided.')
LEVEL_NOTE = 'Not decided: convergence and the 1e-11 rad bound of the fixed-point latitude iteration, floating-point rounding. Trusted: clang front end, extractor, sympy.'

Q = 'romea::core::LambertConverter::'
ATOMS = {'N1', 'N2', 'isolat0', 'isolat1', 'isolat2', 'coslat1', 'coslat2', 'n', 'c', 'N', 'cotlat', 'isolat', 'C', 'YS', 'rho', 'theta', 'alpha'}
DEG = math.pi / 180


def hook(rd, e, st, ctx):
    if e.get('k') in ('Call', 'MCall') and (e.get('fn') or '').endswith('::computeLatitude'):
        return [(sp.Function('computeLatitude')(*vals), s2) for (vals, s2) in rd.evs(e['args'], st, ctx)]
    return NotImplemented


def generic_eccentricity(c):
    """Standing assumption of the formula rules: the eccentricity is a generic one (0.08).  A branch condition that involves nothing but an
    eccentricity and constants is decided with it; the branch cut this way is the business of the path rule A8."""
    if not isinstance(c, sp.Basic) or not c.free_symbols:
        return None
    if not all(s_.name in ('arg:e', 'this.e_', 'ellipsoid.e', 'e') for s_ in c.free_symbols):
        return None
    v = c.subs({s_: sp.Rational(8, 100) for s_ in c.free_symbols})
    return True if v == sp.true else False if v == sp.false else None


def read(fx, f):
    rd = sym.Reader(fx, call_hook=hook)
    rd.atoms = set(ATOMS)
    rd.assume = generic_eccentricity
    return rd, rd.run(f)


def S(name):
    return sp.Symbol(name, real=True)


def hemi_env(h):
    lat = (15 * DEG, 75 * DEG) if h == 'north' else (-75 * DEG, -15 * DEG)
    env = {S('ellipsoid.e'): esign.IV(0, 0.1), S('ellipsoid.a'): esign.IV(6.37e6, 6.39e6), S('parameters.k0'): esign.IV(0.99, 1.0),
           S('this.e_'): esign.IV(0, 0.1), S('arg:e'): esign.IV(0, 0.1)}
    for k in ('0', '1', '2'):
        env[S('parameters.latitude' + k)] = esign.IV(*lat)
    env[S('wgs84Coordinates.latitude')] = esign.IV(lat[0] - 8 * DEG, lat[1] + 8 * DEG)
    env[S('arg:latitude')] = esign.IV(-83 * DEG, 83 * DEG)
    return env


def run(fx, R, tier):
    fsec = [f for f in fx.fn(Q + 'computeProjectionParameters') if 'SecantProjectionParameters' in f['sig']]
    ftan = [f for f in fx.fn(Q + 'computeProjectionParameters') if 'TangentProjectionParameters' in f['sig']]
    ffor, finv = fx.one(Q + 'toLambert'), fx.one(Q + 'toWGS84')
    fiso, flat, fN = fx.one(Q + 'computeIsometricLatitude'), fx.one(Q + 'computeLatitude'), fx.one(Q + 'computeGrandeNormal')
    if len(fsec) != 1 or len(ftan) != 1 or None in (ffor, finv, fiso, flat, fN):
        R.undecided('D1', 'LambertConverter', 'anchor vanished (computeProjectionParameters x2, toLambert, toWGS84, computeIsometricLatitude, computeLatitude, computeGrandeNormal)')
        return
    fsec, ftan = fsec[0], ftan[0]
    R.used(fsec, ftan, ffor, finv, fiso, flat, fN)
    try:
        rsec, ssec = read(fx, fsec)
        rtan, stan = read(fx, ftan)
        rfor, sfor = read(fx, ffor)
        rinv, sinv = read(fx, finv)
    except sym.Unsupported as u:
        R.undecided('D1', 'LambertConverter', 'symbolic reader: %s' % u)
        return
    R.floor('D1', 10)
    from .. import epure
    for f_ in (fsec, ftan, ffor, finv, fiso, flat, fN):
        epure.check(fx, R, 'A7', f_, 'LambertConverter::%s/%d' % (f_['name'], len(f_['params'])), fx.rel(f_['loc']))
    check_definedness(fx, R, fsec, rsec, ssec, ftan, rtan, stan, ffor, rfor, sfor, finv, rinv, sinv)
    check_helper_paths(fx, R, fiso, flat, [p_ for r_ in (rsec, rtan, rfor, rinv) for p_ in r_.pruned])
    from . import C03_alg
    C03_alg.run(fx, R, dict(fsec=fsec, rsec=rsec, ssec=ssec, ftan=ftan, rtan=rtan, stan=stan, ffor=ffor, rfor=rfor, sfor=sfor,
                            finv=finv, rinv=rinv, sinv=sinv, fiso=fiso, flat=flat, fN=fN))


def check_helper_paths(fx, R, fiso, flat, pruned):
    """A8: every path of the two helpers on witness (latitude, eccentricity) pairs of the quantifier, e = 0 (sphere) included.
    computeIsometricLatitude must return L(lat, e) = atanh(sin lat) - e atanh(e sin lat); a path of computeLatitude that returns before
    the iteration must return lat when handed L(lat, e).  The formula rules read the helpers under the assumption of a generic eccentricity;
    the branches that assumption cut are accounted for here."""
    import itertools
    lat, e = S('arg:latitude'), S('arg:e')
    Ltrue = lambda la, ee: sp.atanh(sp.sin(la)) - ee * sp.atanh(ee * sp.sin(la))
    LATS = (sp.Rational(3, 10), -sp.Rational(9, 10), sp.Rational(6, 5), sp.Rational(1, 100))
    ES = (sp.Integer(0), sp.Rational(1, 10 ** 12), sp.Rational(1, 1000), sp.Rational(5, 100), sp.Rational(818, 10000), sp.Rational(1, 10))

    def reach(st, env):
        for c in st.cond:
            if not isinstance(c[1], sp.Basic):
                continue
            v = c[1].subs(env)
            if v not in (sp.true, sp.false) and hasattr(v, 'lhs'):
                v = v.func(sp.N(v.lhs, 40), sp.N(v.rhs, 40))
            if v not in (sp.true, sp.false):
                return None
            if bool(v) != c[2]:
                return False
        return True
    covered = set()
    # ---- forward helper ----
    try:
        ps = sym.Reader(fx).run(fiso)
    except sym.Unsupported as u:
        ps = None
        R.undecided('A8', 'computeIsometricLatitude:paths', str(u))
    for st in ps or []:
        desc = ' && '.join(('' if c[2] else '!') + '(' + c[0] + ')' for c in st.cond)
        inst = 'computeIsometricLatitude:path[%s]' % desc
        covered |= {c[0] for c in st.cond}
        if not isinstance(st.ret, sp.Basic):
            R.undecided('A8', inst, 'returned value not readable')
            continue
        bad, n_, unknown = None, 0, False
        for (la, ee) in itertools.product(LATS, ES):
            env = {lat: la, e: ee}
            r_ = reach(st, env)
            if r_ is None:
                unknown = True
            if not r_:
                continue
            try:
                got = sp.N(st.ret.subs(env), 40)
                want = sp.N(Ltrue(la, ee), 40)
                err = abs(got - want)
            except (TypeError, ValueError):
                unknown = True
                continue
            if not (got.is_number and err.is_number and err.is_real is not None):
                unknown = True
                continue
            n_ += 1
            if not err.is_real or err > sp.Float('1e-12'):
                bad = bad or (la, ee, got, want)
        if bad:
            R.violated('A8', 'computeIsometricLatitude:path-value', 'on the path [%s] the isometric latitude of latitude %s rad with eccentricity %s is returned as %s; it is %s (atanh(sin lat) - e atanh(e sin lat)): '
                       'with another function of the latitude the meridian scale no longer equals the parallel scale (not conformal) and the standard parallels are not true to scale; the quantifier has every '
                       'eccentricity in [0, 0.1]' % (desc, bad[0], sp.N(bad[1], 3), sp.N(bad[2], 12), sp.N(bad[3], 12)), fx.rel(fiso['loc']), 'E-ORD')
        elif unknown:
            R.undecided('A8', inst, 'path condition or value not evaluable on the witness pairs')
        elif n_ == 0:
            R.holds('A8', inst, 'not taken by any witness (latitude, eccentricity) pair of the quantifier', fx.rel(fiso['loc']), 'E-ORD')
        else:
            R.holds('A8', inst, 'equals atanh(sin lat) - e atanh(e sin lat) on the %d witness pairs that take it' % n_, fx.rel(fiso['loc']), 'E-ORD')
    # ---- inverse helper: returns before the iteration ----
    from .. import earlyexit
    top = flat['body']['s'] if flat.get('body') and flat['body'].get('k') == 'Compound' else []
    li = next((i_ for i_, x in enumerate(top) if x.get('k') in ('For', 'While', 'Do')), None)
    if li is None:
        R.undecided('A8', 'computeLatitude:paths', 'no iteration found at the top level')
    else:
        rd = sym.Reader(fx)
        ctx = {'this': ('this',), 'fn': flat, 'depth': 0}
        st0 = sym.State()
        Liso = S('arg:' + flat['params'][0]['name'])
        ee_ = S('arg:' + flat['params'][1]['name'])
        for p in flat['params']:
            st0.locals[p['id']] = S('arg:' + p['name'])
        try:
            states = [st0]
            for x in top[:li]:
                nxt = []
                for s_ in states:
                    nxt += [s_] if s_.returned else rd.ex(x, s_, ctx)
                states = nxt
            early = [s_ for s_ in states if s_.returned]
        except sym.Unsupported as u:
            early = None
            if earlyexit.exits_before(top, li):
                R.undecided('A8', 'computeLatitude:paths', 'returns before the iteration, not interpretable: %s' % u)
        for st in early or []:
            desc = ' && '.join(('' if c[2] else '!') + '(' + c[0] + ')' for c in st.cond)
            covered |= {c[0] for c in st.cond}
            inst = 'computeLatitude:path[%s]' % desc
            if not isinstance(st.ret, sp.Basic):
                R.undecided('A8', inst, 'returned value not readable')
                continue
            bad, n_, unknown = None, 0, False
            for (la, ee) in itertools.product(LATS, ES):
                env = {Liso: Ltrue(la, ee), ee_: ee}
                r_ = reach(st, env)
                if r_ is None:
                    unknown = True
                if not r_:
                    continue
                try:
                    got = sp.N(st.ret.subs(env), 40)
                    err = abs(got - sp.N(la, 40))
                except (TypeError, ValueError):
                    unknown = True
                    continue
                if not (got.is_number and err.is_number and err.is_real is not None):
                    unknown = True
                    continue
                n_ += 1
                if not err.is_real or err > sp.Float('1e-11'):
                    bad = bad or (la, ee, got)
            if bad:
                R.violated('A8', 'computeLatitude:path-value', 'on the path [%s], which returns before the iteration, the isometric latitude of %s rad (eccentricity %s) is mapped back to %s rad: '
                           'projected -> geographic does not return the latitude (statement: 1e-11 rad)' % (desc, bad[0], sp.N(bad[1], 3), sp.N(bad[2], 12)), fx.rel(flat['loc']), 'E-ORD')
            elif unknown:
                R.undecided('A8', inst, 'path condition or value not evaluable on the witness pairs')
            else:
                R.holds('A8', inst, 'returns the latitude on the %d witness pairs that take it' % n_, fx.rel(flat['loc']), 'E-ORD')
        if early is not None and not early:
            R.holds('A8', 'computeLatitude:paths', 'no return before the iteration', fx.rel(flat['loc']), 'E-ORD')
    # ---- every branch the generic-eccentricity assumption cut is one of the helper paths above ----
    for (ctext, branch, loc, fq) in pruned:
        if ctext not in covered:
            R.undecided('A8', 'pruned:%s' % ctext, 'the formula rules assumed a generic eccentricity and did not follow the branch `%s` = %s in %s; no path rule covers it' % (ctext, branch, fq))


def eval_atoms(rd, env, overrides):
    """Interval of every atom in definition order; returns (env', issues)."""
    env = dict(env)
    issues = []
    for name in rd.atom_order:
        d = rd.atom_defs[name]
        for (kind, arg, iv, v) in esign.definedness(d, env):
            issues.append((name, kind, arg, iv, v))
        if name in overrides:
            env[S(name)] = overrides[name]
        else:
            env[S(name)] = esign.Evaluator(env).ev(d)
    return env, issues


def check_definedness(fx, R, fsec, rsec, ssec, ftan, rtan, stan, ffor, rfor, sfor, finv, rinv, sinv):
    for h in ('north', 'south'):
        npos = esign.IV(1e-3, 1.0) if h == 'north' else esign.IV(-1.0, -1e-3)
        base = hemi_env(h)
        cvals = {}
        for (tag, f, rd, sts, cname) in (('secant', fsec, rsec, ssec, 'c'), ('tangent', ftan, rtan, stan, 'C')):
            env, issues = eval_atoms(rd, base, {'n': npos})
            report(fx, R, 'computeProjectionParameters/%s' % tag, h, f, issues)
            for st in sts:
                for comp in (st.ret if isinstance(st.ret, tuple) else ()):
                    if isinstance(comp, sp.Basic):
                        report(fx, R, 'computeProjectionParameters/%s' % tag, h, f, [('return',) + x for x in esign.definedness(comp, env)])
            cvals[tag] = env.get(S(cname))
        # sign of c must agree between the two parameterisations (it is what the maps receive as c_)
        csec, ctan = cvals['secant'], cvals['tangent']
        same = csec is not None and ctan is not None and ((csec.lo >= 0 and ctan.lo >= 0) or (csec.hi <= 0 and ctan.hi <= 0))
        if not same:
            R.undecided('D1', 'sign-of-c/%s' % h, 'could not establish the sign of c on the %s hemisphere: secant %s tangent %s' % (h, csec, ctan))
            continue
        cfield = esign.IV(min(csec.lo, ctan.lo), max(csec.hi, ctan.hi))
        for (tag, f, rd, sts) in (('toLambert', ffor, rfor, sfor), ('toWGS84', finv, rinv, sinv)):
            env0 = dict(base)
            env0[S('this.n_')] = npos
            env0[S('this.c_')] = cfield
            env, issues = eval_atoms(rd, env0, {})
            report(fx, R, tag, h, f, issues)
            for st in sts:
                comps = st.ret if isinstance(st.ret, tuple) else (st.ret,)
                for comp in comps:
                    if isinstance(comp, sp.Basic):
                        report(fx, R, tag, h, f, [('return',) + x for x in esign.definedness(comp, env)])


def report(fx, R, fname, h, f, issues):
    for (where, kind, arg, iv, v) in issues:
        inst = 'LambertConverter::%s:%s(%s)' % (fname, kind, sp.sstr(arg))
        if v == 'ok':
            R.holds('D1', inst + '/' + h, 'argument range %s on the %s hemisphere' % (iv, h), fx.rel(f['loc']), 'E-INT')
        elif v == 'bad':
            R.violated('D1', inst, '%s(%s) in %s: the argument ranges over %s for cones of the %s hemisphere (n and c are negative there): the result is NaN, '
                       'and the latitude iteration fed with it never terminates' % (kind, sp.sstr(arg), fname, iv, h), fx.rel(f['loc']), 'E-INT')
        else:
            R.undecided('D1', inst + '/' + h, 'sign of the %s argument not decidable on the %s hemisphere: range %s' % (kind, h, iv))
