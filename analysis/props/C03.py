"""C03 - Lambert conformal conic projection: defining identities (exact algebra on the extracted formulas)
and definedness on both hemispheres (interval/sign evaluation).

Rules
  D1  definedness on either hemisphere: every log / fractional-pow argument in the projection code is >= 0 for cones of the
      northern AND of the southern hemisphere (n and c change sign with the hemisphere)
  A1  the forward map is the polar form  x-xs = R sin(n dlon),  ys-y = R cos(n dlon)  with  R = c exp(-n L(lat))
  A2  scale k = n R / (N cos lat) is exactly 1 on both standard parallels (secant) and k0 on the tangent parallel
  A3  the projection origin maps to (x0, y0) and the central meridian onto x = x0
  A4  conformality: dL/dlat = (1-e^2) / ((1 - e^2 sin^2 lat) cos lat)   (with A1 this is meridian scale = parallel scale)
  A5  inverse consistency: substituting the forward map into the inverse gives back L and dlon; the latitude iteration has the
      true latitude as a fixed point
  A6  stopping tolerance of the latitude iteration: small enough for the 1e-11 rad claim, and above the spacing of doubles when it is the only exit
  A7  hidden state (E-PURE): the seven conversion functions keep no result in function-local statics / mutable globals unless every
      parameter the kept value depends on is compared on the path that re-uses it (two converters on different ellipsoids share statics)
  W1  parameters computed by computeProjectionParameters reach the fields the maps read (aggregate order / constructor chain)
Not decided: convergence of the latitude iteration and the 1e-11 rad bound (floating point)."""
import math
import sympy as sp
from .. import sym, esign
from ..tree import walk, pp, short_fn, strip_casts

LEVEL = 'other'
UNITS = ['src/geodesy/LambertConverter.cpp', 'src/geodesy/EarthEllipsoid.cpp']
ENGINES = 'E-ALG + E-INT over romea-facts'
TECHNIQUE = 'guards that throw evaluated on parameter sets of the quantifier, additional overloads handing each field to the factory parameter of its name, IEEE remainder interpreted, ambient errno tested without being cleared (sweep H1), exits in front of the inverse under an absolute length test, every path of the two helpers on witness (latitude, eccentricity) pairs incl. the sphere, re-mapped constructor fields judged through the forward map on path-conditioned witnesses, sweep of every function read (and its in-repo callees) for frozen function-local statics, single precision inside double computations, lossy copy constructors, presence- or argument-keyed member caches, reference members bound to constructor arguments, loop accumulators that are members, members derived in the constructor and not refreshed by setters, results returned by reference to a member buffer, members filled from an argument under a condition that ignores it, hidden non-virtual base members, self-bound reference members, reductions that accumulate in float; constructors read end to end (delegating constructors, braced aggregates by record field order): the eccentricity the maps use is that of the ellipsoid; hidden-state (function-local static cache) coherence analysis, stopping-tolerance bounds, witness-confirmed residuals; formula extraction from the AST (symbolic reading, no execution) + exact computer algebra (sympy) for the projection identities; interval/sign evaluation of log/pow arguments on both hemispheres'
EXPLANATION = ('The projection formulas are extracted from the source as exact symbolic expressions over named atoms (N1, isolat1, n, c ...) with their defining relations; '
               'the identities quoted by the statement (scale 1 on the parallels, origin, central meridian, conformality, inverse consistency) are decided by exact algebra, '
               'and the domain of every log/pow is checked by interval evaluation for northern and southern cones.')
ASSUMPTIONS = ['exact real arithmetic; |latitude| < pi/2 so cos(lat) > 0 and tan(pi/4+lat/2) > 0; eccentricity in [0, 0.1]',
               'the cone constant n has the sign of the hemisphere (n ~ sin(lat0)) and is non-zero',
               'the cone apex (rho = 0, the pole) is outside the quantifier']
LEVEL_TEXT = ('The defining identities of the projection hold for all parameters and points at once in exact arithmetic (any changed term leaves a non-zero residual), '
              'and the formulas are defined for cones of either hemisphere. Convergence/rounding of the inverse latitude iteration is not decided.')
LEVEL_NOTE = 'Not decided: convergence and the 1e-11 rad bound of the fixed-point latitude iteration, floating-point rounding. Trusted: clang front end, extractor, sympy.'

Q = 'romea::core::LambertConverter::'
ATOMS = {'N1', 'N2', 'isolat0', 'isolat1', 'isolat2', 'coslat1', 'coslat2', 'n', 'c', 'N', 'cotlat', 'isolat', 'C', 'YS', 'rho', 'theta', 'alpha'}
DEG = math.pi / 180


def hook(rd, e, st, ctx):
    if e.get('k') in ('Call', 'MCall') and (e.get('fn') or '').endswith('::computeLatitude'):
        return [(sp.Function('computeLatitude')(*vals), s2) for (vals, s2) in rd.evs(e['args'], st, ctx)]
    return NotImplemented


def generic_eccentricity(c):
    """Standing assumption of the formula rules: the eccentricity is a generic one (0.08).  A branch condition that involves nothing but an
    eccentricity and constants is decided with it; the branch cut this way is the business of the path rule A8."""
    if not isinstance(c, sp.Basic) or not c.free_symbols:
        return None
    if not all(s_.name in ('arg:e', 'this.e_', 'ellipsoid.e', 'e') for s_ in c.free_symbols):
        return None
    v = c.subs({s_: sp.Rational(8, 100) for s_ in c.free_symbols})
    return True if v == sp.true else False if v == sp.false else None


def read(fx, f):
    rd = sym.Reader(fx, call_hook=hook)
    rd.atoms = set(ATOMS)
    rd.assume = generic_eccentricity
    return rd, rd.run(f)


def S(name):
    return sp.Symbol(name, real=True)


def hemi_env(h):
    lat = (15 * DEG, 75 * DEG) if h == 'north' else (-75 * DEG, -15 * DEG)
    env = {S('ellipsoid.e'): esign.IV(0, 0.1), S('ellipsoid.a'): esign.IV(6.37e6, 6.39e6), S('parameters.k0'): esign.IV(0.99, 1.0),
           S('this.e_'): esign.IV(0, 0.1), S('arg:e'): esign.IV(0, 0.1)}
    for k in ('0', '1', '2'):
        env[S('parameters.latitude' + k)] = esign.IV(*lat)
    env[S('wgs84Coordinates.latitude')] = esign.IV(lat[0] - 8 * DEG, lat[1] + 8 * DEG)
    env[S('arg:latitude')] = esign.IV(-83 * DEG, 83 * DEG)
    return env


class _QEnv(dict):
    """witness values of the quantifier looked up by the LAST component of a name (parameters.k0, p.k0, k0 ...)"""
    def _k(self, name):
        return name.split('.')[-1].rstrip('_') if isinstance(name, str) else name

    def __contains__(self, name):
        return dict.__contains__(self, self._k(name))

    def __getitem__(self, name):
        return dict.__getitem__(self, self._k(name))


def check_rejections(fx, R, fns):
    """D1 (E-STEP): a guard that throws (or aborts) inside the parameter functions and the conversions is evaluated on parameter sets and points of the quantifier: a set the quantifier names must not
    be rejected - for it no projection exists at all."""
    import math
    from .. import mini
    from .C20 import deep_unwrap
    from ..tree import walk, sx, pp
    DEG = math.pi / 180
    wit = []
    for k0 in (0.99, 0.995, 0.999, 0.9995, 0.99987734, 1.0):
        for (la0, l1, l2, lo0) in ((46.5, 44.0, 49.0, 3.0), (-33.0, -25.0, -40.0, 20.0), (16.0, 15.0, 17.0, -100.0), (72.0, 65.0, 75.0, 150.0)):
            for e_ in (0.0, 0.0818191910428, 0.1):
                wit.append({'k0': k0, 'latitude0': la0 * DEG, 'latitude1': l1 * DEG, 'latitude2': l2 * DEG, 'longitude0': lo0 * DEG, 'x0': 700000.0, 'y0': 6600000.0, 'e': e_, 'a': 6378137.0,
                            'e2': e_ * e_, 'b': 6378137.0 * math.sqrt(1 - e_ * e_), 'f': 1 - math.sqrt(1 - e_ * e_), 'latitude': (la0 + 3) * DEG, 'longitude': (lo0 - 12) * DEG, 'n': math.sin(la0 * DEG)})
    for f in fns:
        if f is None or f.get('body') is None:
            continue
        for x in walk(f['body']):
            if not (isinstance(x, dict) and x.get('k') == 'If'):
                continue
            leaves = [y for arm in (x.get('t'), x.get('e')) if arm is not None for y in walk(arm) if isinstance(y, dict) and (y.get('k') == 'Throw' or (y.get('k') == 'Call' and (y.get('fn') or '').split('::')[-1] in ('abort', 'terminate', 'exit', 'quick_exit')))]
            if not leaves:
                continue
            in_then = any(y in list(walk(x['t'])) for y in leaves)
            cond = deep_unwrap(sx(x['c']))
            inst = '%s:rejects[%s]' % (f['q'].split('(')[0].replace('romea::core::', ''), pp(x['c'])[:60])
            hit = why = None
            n_ = 0
            for w in wit:
                try:
                    v_ = mini.Step(deep_unwrap).ev(cond, _QEnv(w))
                except (mini.Unsupported, TypeError, KeyError) as u:
                    why = str(u)[:120]
                    break
                n_ += 1
                if bool(v_) == in_then:
                    hit = hit or w
            if why:
                R.undecided('D1', inst, 'a guard that throws is not evaluable on the parameter sets of the quantifier: %s' % why)
            elif hit:
                R.violated('D1', '%s:rejects-quantifier' % f['q'].split('(')[0].replace('romea::core::', ''), 'the guard `%s` throws for a parameter set the quantifier names (k0 = %g, latitude0 = %.1f deg, eccentricity %g): '
                           'no projection is produced for it at all - the scale on the tangent parallel, the origin and the inverse are not what the statement says for every k0 in [0.99, 1], every pair of standard '
                           'parallels at 15..75 deg of either hemisphere and every eccentricity up to 0.1' % (pp(x['c'])[:120], hit['k0'], hit['latitude0'] / DEG, hit['e']), fx.rel(x.get('loc') or f['loc']), 'E-STEP')
            else:
                R.holds('D1', inst, 'the guard that throws is false on all %d parameter sets of the quantifier tried' % n_, fx.rel(x.get('loc') or f['loc']), 'E-STEP')


def check_ellipsoid(fx, R):
    """D1: the projection takes its eccentricity from the ellipsoid the caller names by its two semi-axes: EarthEllipsoid(a, b) must define e2 = (a^2 - b^2)/a^2 and e = sqrt(e2)."""
    from .. import alg
    ell = [f for f in fx.functions.values() if f.get('ctor') and f.get('cls') == 'romea::core::EarthEllipsoid' and len(f.get('params', [])) == 2 and f.get('body') is not None]
    if len(ell) != 1:
        R.undecided('D1', 'EarthEllipsoid(a, b)', 'constructor not found')
        return
    R.used(ell[0])
    try:
        es = sym.Reader(fx).run(ell[0])
    except sym.Unsupported as u:
        R.undecided('D1', 'EarthEllipsoid(a, b)', str(u))
        return
    if len(es) != 1:
        R.undecided('D1', 'EarthEllipsoid(a, b)', 'constructor forks')
        return
    pa, pb = (sp.Symbol('arg:' + p_['name'], real=True) for p_ in ell[0]['params'])
    f_ = es[0].fields
    e2v, ev = f_.get(('this', 'e2')), f_.get(('this', 'e'))
    if f_.get(('this', 'a')) != pa or f_.get(('this', 'b')) != pb or not isinstance(e2v, sp.Basic) or not isinstance(ev, sp.Basic):
        R.undecided('D1', 'EarthEllipsoid(a, b)', 'constructor fields not readable')
        return
    dom_ = lambda s_: (637750000, 638450000) if s_ == pa else (635600000, 637700000) if s_ == pb else None
    alg.check_zero(R, sp.Matrix([sp.together(e2v - (pa ** 2 - pb ** 2) / pa ** 2), sp.together(ev ** 2 - (pa ** 2 - pb ** 2) / pa ** 2)]), 'D1', 'EarthEllipsoid:eccentricity',
                   'EarthEllipsoid(a, b) does not define e2 = (a^2 - b^2)/a^2 and e = sqrt(e2) (e2 = %s): the projection constants n, c and the isometric latitude are those of another ellipsoid' % str(e2v)[:120],
                   'e2 = (a^2 - b^2)/a^2, e = sqrt(e2)', fx.rel(ell[0]['loc']), domain=dom_)


def check_forwarding_overload(fx, R, g, name):
    """D1: an additional overload of a conversion (another point type) must hand the point on field by field: latitude to latitude, longitude to longitude - through a factory, each argument must
    land in the parameter of its own name."""
    from .C14 import stmts_sx
    from .C20 import deep_unwrap
    from ..tree import walk, strip_casts
    R.used(g)
    inst = 'LambertConverter::%s(%s)' % (name, ', '.join((p_.get('t') or {}).get('s', '?').replace('const ', '').replace('romea::core::', '').rstrip(' &') for p_ in g['params']))
    st = [s_ for s_ in stmts_sx(g) if s_ != ('expr', 0)]
    pn = [p_['name'] for p_ in g['params']]
    if not (len(st) == 1 and st[0][0] == 'return' and isinstance(st[0][1], tuple) and st[0][1][0] == '.' + name and len(st[0][1]) == 3):
        R.undecided('D1', inst + ':forwarding', 'not a single forwarding call of %s: %s' % (name, st[:2]))
        return
    arg = deep_unwrap(st[0][1][2])
    if arg in pn:
        R.holds('D1', inst + ':forwarding', 'hands its argument on unchanged', fx.rel(g['loc']), 'E-SIB')
        return
    call = next((x for x in walk(g['body']) if isinstance(x, dict) and x.get('k') == 'Call' and x.get('inrepo') and x.get('pnames') and isinstance(arg, tuple) and (x.get('m') or (x.get('fn') or '').split('::')[-1]) == arg[0]), None)
    if call is None or len(call.get('pnames', [])) != len(arg) - 1:
        R.undecided('D1', inst + ':forwarding', 'forwarded argument %s is not a factory call with named parameters' % (arg,))
        return
    wrong = []
    for pname, a in zip(call['pnames'], arg[1:]):
        fld = a.split('.')[-1] if isinstance(a, str) and '.' in a and a.split('.')[0] in pn else None
        if fld is None:
            R.undecided('D1', inst + ':forwarding', 'argument %s of %s is not a field of the parameter' % (a, arg[0]))
            return
        if fld != pname:
            wrong.append((pname, a))
    if wrong:
        R.violated('D1', 'LambertConverter::%s:forwarding-overload' % name, '%s builds the point it forwards with %s(%s): the parameter `%s` of the factory receives `%s` - latitude and longitude are exchanged, so for this '
                   'point type the origin no longer maps to (x0, y0) and the inverse does not return the point (the base-class overload is no longer chosen for it: overload resolution prefers the exact match)' % (
                       inst, arg[0], ', '.join(str(a_) for a_ in arg[1:]), wrong[0][0], wrong[0][1]), fx.rel(g['loc']), 'E-SIB')
    else:
        R.holds('D1', inst + ':forwarding', 'every field reaches the factory parameter of its own name', fx.rel(g['loc']), 'E-SIB')


def run(fx, R, tier):
    fsec = [f for f in fx.fn(Q + 'computeProjectionParameters') if 'SecantProjectionParameters' in f['sig']]
    ftan = [f for f in fx.fn(Q + 'computeProjectionParameters') if 'TangentProjectionParameters' in f['sig']]
    # the conversions proper take the 2-D geodetic fix / the projected point; other overloads must forward to them (judged below)
    fors = [f for f in fx.fn(Q + 'toLambert') if len(f['params']) == 1 and 'WGS84Coordinates' in (f['params'][0].get('t') or {}).get('s', '')]
    invs = [f for f in fx.fn(Q + 'toWGS84') if len(f['params']) == 1 and 'Matrix<double, 2, 1' in (f['params'][0].get('t') or {}).get('s', '')]
    ffor = fors[0] if len(fors) == 1 else fx.one(Q + 'toLambert')
    finv = invs[0] if len(invs) == 1 else fx.one(Q + 'toWGS84')
    for (main_, nm_) in ((ffor, 'toLambert'), (finv, 'toWGS84')):
        for g_ in fx.fn(Q + nm_):
            if main_ is not None and g_ is not main_ and g_.get('body') is not None:
                check_forwarding_overload(fx, R, g_, nm_)
    fiso, flat, fN = fx.one(Q + 'computeIsometricLatitude'), fx.one(Q + 'computeLatitude'), fx.one(Q + 'computeGrandeNormal')
    if len(fsec) != 1 or len(ftan) != 1 or None in (ffor, finv, fiso, flat, fN):
        R.undecided('D1', 'LambertConverter', 'anchor vanished (computeProjectionParameters x2, toLambert, toWGS84, computeIsometricLatitude, computeLatitude, computeGrandeNormal)')
        return
    fsec, ftan = fsec[0], ftan[0]
    R.used(fsec, ftan, ffor, finv, fiso, flat, fN)
    check_ellipsoid(fx, R)
    check_rejections(fx, R, [fsec, ftan, ffor, finv, fiso, flat, fN] + [c_ for c_ in fx.functions.values() if c_.get('ctor') and c_.get('cls') == Q.rstrip(':') and c_.get('body') is not None])
    try:
        rsec, ssec = read(fx, fsec)
        rtan, stan = read(fx, ftan)
        rfor, sfor = read(fx, ffor)
        rinv, sinv = read(fx, finv)
    except sym.Unsupported as u:
        R.undecided('D1', 'LambertConverter', 'symbolic reader: %s' % u)
        return
    R.floor('D1', 10)
    from .. import epure
    for f_ in (fsec, ftan, ffor, finv, fiso, flat, fN):
        epure.check(fx, R, 'A7', f_, 'LambertConverter::%s/%d' % (f_['name'], len(f_['params'])), fx.rel(f_['loc']))
    check_definedness(fx, R, fsec, rsec, ssec, ftan, rtan, stan, ffor, rfor, sfor, finv, rinv, sinv)
    check_helper_paths(fx, R, fiso, flat, [p_ for r_ in (rsec, rtan, rfor, rinv) for p_ in r_.pruned])
    from . import C03_alg
    C03_alg.run(fx, R, dict(fsec=fsec, rsec=rsec, ssec=ssec, ftan=ftan, rtan=rtan, stan=stan, ffor=ffor, rfor=rfor, sfor=sfor,
                            finv=finv, rinv=rinv, sinv=sinv, fiso=fiso, flat=flat, fN=fN))


def check_helper_paths(fx, R, fiso, flat, pruned):
    """A8: every path of the two helpers on witness (latitude, eccentricity) pairs of the quantifier, e = 0 (sphere) included.
    computeIsometricLatitude must return L(lat, e) = atanh(sin lat) - e atanh(e sin lat); a path of computeLatitude that returns before
    the iteration must return lat when handed L(lat, e).  The formula rules read the helpers under the assumption of a generic eccentricity;
    the branches that assumption cut are accounted for here."""
    import itertools
    lat, e = S('arg:latitude'), S('arg:e')
    Ltrue = lambda la, ee: sp.atanh(sp.sin(la)) - ee * sp.atanh(ee * sp.sin(la))
    LATS = (sp.Rational(3, 10), -sp.Rational(9, 10), sp.Rational(6, 5), sp.Rational(1, 100))
    ES = (sp.Integer(0), sp.Rational(1, 10 ** 12), sp.Rational(1, 1000), sp.Rational(5, 100), sp.Rational(818, 10000), sp.Rational(1, 10))

    def reach(st, env):
        for c in st.cond:
            if not isinstance(c[1], sp.Basic):
                continue
            v = c[1].subs(env)
            if v not in (sp.true, sp.false) and hasattr(v, 'lhs'):
                v = v.func(sp.N(v.lhs, 40), sp.N(v.rhs, 40))
            if v not in (sp.true, sp.false):
                return None
            if bool(v) != c[2]:
                return False
        return True
    covered = set()
    # ---- forward helper ----
    try:
        ps = sym.Reader(fx).run(fiso)
    except sym.Unsupported as u:
        ps = None
        R.undecided('A8', 'computeIsometricLatitude:paths', str(u))
    for st in ps or []:
        desc = ' && '.join(('' if c[2] else '!') + '(' + c[0] + ')' for c in st.cond)
        inst = 'computeIsometricLatitude:path[%s]' % desc
        covered |= {c[0] for c in st.cond}
        if not isinstance(st.ret, sp.Basic):
            R.undecided('A8', inst, 'returned value not readable')
            continue
        bad, n_, unknown = None, 0, False
        for (la, ee) in itertools.product(LATS, ES):
            env = {lat: la, e: ee}
            r_ = reach(st, env)
            if r_ is None:
                unknown = True
            if not r_:
                continue
            try:
                got = sp.N(st.ret.subs(env), 40)
                want = sp.N(Ltrue(la, ee), 40)
                err = abs(got - want)
            except (TypeError, ValueError):
                unknown = True
                continue
            if not (got.is_number and err.is_number and err.is_real is not None):
                unknown = True
                continue
            n_ += 1
            if not err.is_real or err > sp.Float('1e-12'):
                bad = bad or (la, ee, got, want)
        if bad:
            R.violated('A8', 'computeIsometricLatitude:path-value', 'on the path [%s] the isometric latitude of latitude %s rad with eccentricity %s is returned as %s; it is %s (atanh(sin lat) - e atanh(e sin lat)): '
                       'with another function of the latitude the meridian scale no longer equals the parallel scale (not conformal) and the standard parallels are not true to scale; the quantifier has every '
                       'eccentricity in [0, 0.1]' % (desc, bad[0], sp.N(bad[1], 3), sp.N(bad[2], 12), sp.N(bad[3], 12)), fx.rel(fiso['loc']), 'E-ORD')
        elif unknown:
            R.undecided('A8', inst, 'path condition or value not evaluable on the witness pairs')
        elif n_ == 0:
            R.holds('A8', inst, 'not taken by any witness (latitude, eccentricity) pair of the quantifier', fx.rel(fiso['loc']), 'E-ORD')
        else:
            R.holds('A8', inst, 'equals atanh(sin lat) - e atanh(e sin lat) on the %d witness pairs that take it' % n_, fx.rel(fiso['loc']), 'E-ORD')
    # ---- inverse helper: returns before the iteration ----
    from .. import earlyexit
    top = flat['body']['s'] if flat.get('body') and flat['body'].get('k') == 'Compound' else []
    li = next((i_ for i_, x in enumerate(top) if x.get('k') in ('For', 'While', 'Do')), None)
    if li is None:
        R.undecided('A8', 'computeLatitude:paths', 'no iteration found at the top level')
    else:
        rd = sym.Reader(fx)
        ctx = {'this': ('this',), 'fn': flat, 'depth': 0}
        st0 = sym.State()
        Liso = S('arg:' + flat['params'][0]['name'])
        ee_ = S('arg:' + flat['params'][1]['name'])
        for p in flat['params']:
            st0.locals[p['id']] = S('arg:' + p['name'])
        try:
            states = [st0]
            for x in top[:li]:
                nxt = []
                for s_ in states:
                    nxt += [s_] if s_.returned else rd.ex(x, s_, ctx)
                states = nxt
            early = [s_ for s_ in states if s_.returned]
        except sym.Unsupported as u:
            early = None
            if earlyexit.exits_before(top, li):
                R.undecided('A8', 'computeLatitude:paths', 'returns before the iteration, not interpretable: %s' % u)
        for st in early or []:
            desc = ' && '.join(('' if c[2] else '!') + '(' + c[0] + ')' for c in st.cond)
            covered |= {c[0] for c in st.cond}
            inst = 'computeLatitude:path[%s]' % desc
            if not isinstance(st.ret, sp.Basic):
                R.undecided('A8', inst, 'returned value not readable')
                continue
            bad, n_, unknown = None, 0, False
            for (la, ee) in itertools.product(LATS, ES):
                env = {Liso: Ltrue(la, ee), ee_: ee}
                r_ = reach(st, env)
                if r_ is None:
                    unknown = True
                if not r_:
                    continue
                try:
                    got = sp.N(st.ret.subs(env), 40)
                    err = abs(got - sp.N(la, 40))
                except (TypeError, ValueError):
                    unknown = True
                    continue
                if not (got.is_number and err.is_number and err.is_real is not None):
                    unknown = True
                    continue
                n_ += 1
                if not err.is_real or err > sp.Float('1e-11'):
                    bad = bad or (la, ee, got)
            if bad:
                R.violated('A8', 'computeLatitude:path-value', 'on the path [%s], which returns before the iteration, the isometric latitude of %s rad (eccentricity %s) is mapped back to %s rad: '
                           'projected -> geographic does not return the latitude (statement: 1e-11 rad)' % (desc, bad[0], sp.N(bad[1], 3), sp.N(bad[2], 12)), fx.rel(flat['loc']), 'E-ORD')
            elif unknown:
                R.undecided('A8', inst, 'path condition or value not evaluable on the witness pairs')
            else:
                R.holds('A8', inst, 'returns the latitude on the %d witness pairs that take it' % n_, fx.rel(flat['loc']), 'E-ORD')
        if early is not None and not early:
            R.holds('A8', 'computeLatitude:paths', 'no return before the iteration', fx.rel(flat['loc']), 'E-ORD')
    # ---- every branch the generic-eccentricity assumption cut is one of the helper paths above ----
    for (ctext, branch, loc, fq) in pruned:
        if ctext not in covered:
            R.undecided('A8', 'pruned:%s' % ctext, 'the formula rules assumed a generic eccentricity and did not follow the branch `%s` = %s in %s; no path rule covers it' % (ctext, branch, fq))


def eval_atoms(rd, env, overrides):
    """Interval of every atom in definition order; returns (env', issues)."""
    env = dict(env)
    issues = []
    for name in rd.atom_order:
        d = rd.atom_defs[name]
        for (kind, arg, iv, v) in esign.definedness(d, env):
            issues.append((name, kind, arg, iv, v))
        if name in overrides:
            env[S(name)] = overrides[name]
        else:
            env[S(name)] = esign.Evaluator(env).ev(d)
    return env, issues


def check_definedness(fx, R, fsec, rsec, ssec, ftan, rtan, stan, ffor, rfor, sfor, finv, rinv, sinv):
    for h in ('north', 'south'):
        npos = esign.IV(1e-3, 1.0) if h == 'north' else esign.IV(-1.0, -1e-3)
        base = hemi_env(h)
        cvals = {}
        for (tag, f, rd, sts, cname) in (('secant', fsec, rsec, ssec, 'c'), ('tangent', ftan, rtan, stan, 'C')):
            env, issues = eval_atoms(rd, base, {'n': npos})
            report(fx, R, 'computeProjectionParameters/%s' % tag, h, f, issues)
            for st in sts:
                for comp in (st.ret if isinstance(st.ret, tuple) else ()):
                    if isinstance(comp, sp.Basic):
                        report(fx, R, 'computeProjectionParameters/%s' % tag, h, f, [('return',) + x for x in esign.definedness(comp, env)])
            cvals[tag] = env.get(S(cname))
        # sign of c must agree between the two parameterisations (it is what the maps receive as c_)
        csec, ctan = cvals['secant'], cvals['tangent']
        same = csec is not None and ctan is not None and ((csec.lo >= 0 and ctan.lo >= 0) or (csec.hi <= 0 and ctan.hi <= 0))
        if not same:
            R.undecided('D1', 'sign-of-c/%s' % h, 'could not establish the sign of c on the %s hemisphere: secant %s tangent %s' % (h, csec, ctan))
            continue
        cfield = esign.IV(min(csec.lo, ctan.lo), max(csec.hi, ctan.hi))
        for (tag, f, rd, sts) in (('toLambert', ffor, rfor, sfor), ('toWGS84', finv, rinv, sinv)):
            env0 = dict(base)
            env0[S('this.n_')] = npos
            env0[S('this.c_')] = cfield
            env, issues = eval_atoms(rd, env0, {})
            report(fx, R, tag, h, f, issues)
            for st in sts:
                comps = st.ret if isinstance(st.ret, tuple) else (st.ret,)
                for comp in comps:
                    if isinstance(comp, sp.Basic):
                        report(fx, R, tag, h, f, [('return',) + x for x in esign.definedness(comp, env)])


def report(fx, R, fname, h, f, issues):
    for (where, kind, arg, iv, v) in issues:
        inst = 'LambertConverter::%s:%s(%s)' % (fname, kind, sp.sstr(arg))
        if v == 'ok':
            R.holds('D1', inst + '/' + h, 'argument range %s on the %s hemisphere' % (iv, h), fx.rel(f['loc']), 'E-INT')
        elif v == 'bad':
            R.violated('D1', inst, '%s(%s) in %s: the argument ranges over %s for cones of the %s hemisphere (n and c are negative there): the result is NaN, '
                       'and the latitude iteration fed with it never terminates' % (kind, sp.sstr(arg), fname, iv, h), fx.rel(f['loc']), 'E-INT')
        else:
            R.undecided('D1', inst + '/' + h, 'sign of the %s argument not decidable on the %s hemisphere: range %s' % (kind, h, iv))
