"""C03 - Lambert conformal conic projection: defining identities (exact algebra on the extracted formulas)
and definedness on both hemispheres (interval/sign evaluation).

Rules
  D1  definedness on either hemisphere: every log / fractional-pow argument in the projection code is >= 0 for cones of the
      northern AND of the southern hemisphere (n and c change sign with the hemisphere)
  A1  the forward map is the polar form  x-xs = R sin(n dlon),  ys-y = R cos(n dlon)  with  R = c exp(-n L(lat))
  A2  scale k = n R / (N cos lat) is exactly 1 on both standard parallels (secant) and k0 on the tangent parallel
  A3  the projection origin maps to (x0, y0) and the central meridian onto x = x0
  A4  conformality: dL/dlat = (1-e^2) / ((1 - e^2 sin^2 lat) cos lat)   (with A1 this is meridian scale = parallel scale)
  A5  inverse consistency: substituting the forward map into the inverse gives back L and dlon; the latitude iteration has the
      true latitude as a fixed point
  A6  stopping tolerance of the latitude iteration: small enough for the 1e-11 rad claim, and above the spacing of doubles when it is the only exit
  A7  hidden state (E-PURE): the seven conversion functions keep no result in function-local statics / mutable globals unless every
      parameter the kept value depends on is compared on the path that re-uses it (two converters on different ellipsoids share statics)
  W1  parameters computed by computeProjectionParameters reach the fields the maps read (aggregate order / constructor chain)
Not decided: convergence of the latitude iteration and the 1e-11 rad bound (floating point)."""
import math
import sympy as sp
from .. import sym, esign
from ..tree import walk, pp, short_fn, strip_casts

LEVEL = 'other'
UNITS = ['src/geodesy/LambertConverter.cpp']
ENGINES = 'E-ALG + E-INT over romea-facts'
TECHNIQUE = 'constructors read end to end (delegating constructors, braced aggregates by record field order): the eccentricity the maps use is that of the ellipsoid; hidden-state (function-local static cache) coherence analysis, stopping-tolerance bounds, witness-confirmed residuals; formula extraction from the AST (symbolic reading, no execution) + exact computer algebra (sympy) for the projection identities; interval/sign evaluation of log/pow arguments on both hemispheres'
EXPLANATION = ('The projection formulas are extracted from the source as exact symbolic expressions over named atoms (N1, isolat1, n, c ...) with their defining relations; '
               'the identities quoted by the statement (scale 1 on the parallels, origin, central meridian, conformality, inverse consistency) are decided by exact algebra, '
               'and the domain of every log/pow is checked by interval evaluation for northern and southern cones.')
ASSUMPTIONS = ['exact real arithmetic; |latitude| < pi/2 so cos(lat) > 0 and tan(pi/4+lat/2) > 0; eccentricity in [0, 0.1]',
               'the cone constant n has the sign of the hemisphere (n ~ sin(lat0)) and is non-zero',
               'the cone apex (rho = 0, the pole) is outside the quantifier']
LEVEL_TEXT = ('The defining identities of the projection hold for all parameters and points at once in exact arithmetic (any changed term leaves a non-zero residual), '
              'and the formulas are defined for cones of either hemisphere. Convergence/rounding of the inverse latitude iteration is not decided.')
LEVEL_NOTE = 'Not decided: convergence and the 1e-11 rad bound of the fixed-point latitude iteration, floating-point rounding. Trusted: clang front end, extractor, sympy.'

Q = 'romea::core::LambertConverter::'
ATOMS = {'N1', 'N2', 'isolat0', 'isolat1', 'isolat2', 'coslat1', 'coslat2', 'n', 'c', 'N', 'cotlat', 'isolat', 'C', 'YS', 'rho', 'theta', 'alpha'}
DEG = math.pi / 180


def hook(rd, e, st, ctx):
    if e.get('k') in ('Call', 'MCall') and (e.get('fn') or '').endswith('::computeLatitude'):
        return [(sp.Function('computeLatitude')(*vals), s2) for (vals, s2) in rd.evs(e['args'], st, ctx)]
    return NotImplemented


def read(fx, f):
    rd = sym.Reader(fx, call_hook=hook)
    rd.atoms = set(ATOMS)
    return rd, rd.run(f)


def S(name):
    return sp.Symbol(name, real=True)


def hemi_env(h):
    lat = (15 * DEG, 75 * DEG) if h == 'north' else (-75 * DEG, -15 * DEG)
    env = {S('ellipsoid.e'): esign.IV(0, 0.1), S('ellipsoid.a'): esign.IV(6.37e6, 6.39e6), S('parameters.k0'): esign.IV(0.99, 1.0),
           S('this.e_'): esign.IV(0, 0.1), S('arg:e'): esign.IV(0, 0.1)}
    for k in ('0', '1', '2'):
        env[S('parameters.latitude' + k)] = esign.IV(*lat)
    env[S('wgs84Coordinates.latitude')] = esign.IV(lat[0] - 8 * DEG, lat[1] + 8 * DEG)
    env[S('arg:latitude')] = esign.IV(-83 * DEG, 83 * DEG)
    return env


def run(fx, R, tier):
    fsec = [f for f in fx.fn(Q + 'computeProjectionParameters') if 'SecantProjectionParameters' in f['sig']]
    ftan = [f for f in fx.fn(Q + 'computeProjectionParameters') if 'TangentProjectionParameters' in f['sig']]
    ffor, finv = fx.one(Q + 'toLambert'), fx.one(Q + 'toWGS84')
    fiso, flat, fN = fx.one(Q + 'computeIsometricLatitude'), fx.one(Q + 'computeLatitude'), fx.one(Q + 'computeGrandeNormal')
    if len(fsec) != 1 or len(ftan) != 1 or None in (ffor, finv, fiso, flat, fN):
        R.undecided('D1', 'LambertConverter', 'anchor vanished (computeProjectionParameters x2, toLambert, toWGS84, computeIsometricLatitude, computeLatitude, computeGrandeNormal)')
        return
    fsec, ftan = fsec[0], ftan[0]
    R.used(fsec, ftan, ffor, finv, fiso, flat, fN)
    try:
        rsec, ssec = read(fx, fsec)
        rtan, stan = read(fx, ftan)
        rfor, sfor = read(fx, ffor)
        rinv, sinv = read(fx, finv)
    except sym.Unsupported as u:
        R.undecided('D1', 'LambertConverter', 'symbolic reader: %s' % u)
        return
    R.floor('D1', 10)
    from .. import epure
    for f_ in (fsec, ftan, ffor, finv, fiso, flat, fN):
        epure.check(fx, R, 'A7', f_, 'LambertConverter::%s/%d' % (f_['name'], len(f_['params'])), fx.rel(f_['loc']))
    check_definedness(fx, R, fsec, rsec, ssec, ftan, rtan, stan, ffor, rfor, sfor, finv, rinv, sinv)
    from . import C03_alg
    C03_alg.run(fx, R, dict(fsec=fsec, rsec=rsec, ssec=ssec, ftan=ftan, rtan=rtan, stan=stan, ffor=ffor, rfor=rfor, sfor=sfor,
                            finv=finv, rinv=rinv, sinv=sinv, fiso=fiso, flat=flat, fN=fN))


def eval_atoms(rd, env, overrides):
    """Interval of every atom in definition order; returns (env', issues)."""
    env = dict(env)
    issues = []
    for name in rd.atom_order:
        d = rd.atom_defs[name]
        for (kind, arg, iv, v) in esign.definedness(d, env):
            issues.append((name, kind, arg, iv, v))
        if name in overrides:
            env[S(name)] = overrides[name]
        else:
            env[S(name)] = esign.Evaluator(env).ev(d)
    return env, issues


def check_definedness(fx, R, fsec, rsec, ssec, ftan, rtan, stan, ffor, rfor, sfor, finv, rinv, sinv):
    for h in ('north', 'south'):
        npos = esign.IV(1e-3, 1.0) if h == 'north' else esign.IV(-1.0, -1e-3)
        base = hemi_env(h)
        cvals = {}
        for (tag, f, rd, sts, cname) in (('secant', fsec, rsec, ssec, 'c'), ('tangent', ftan, rtan, stan, 'C')):
            env, issues = eval_atoms(rd, base, {'n': npos})
            report(fx, R, 'computeProjectionParameters/%s' % tag, h, f, issues)
            for st in sts:
                for comp in (st.ret if isinstance(st.ret, tuple) else ()):
                    if isinstance(comp, sp.Basic):
                        report(fx, R, 'computeProjectionParameters/%s' % tag, h, f, [('return',) + x for x in esign.definedness(comp, env)])
            cvals[tag] = env.get(S(cname))
        # sign of c must agree between the two parameterisations (it is what the maps receive as c_)
        csec, ctan = cvals['secant'], cvals['tangent']
        same = csec is not None and ctan is not None and ((csec.lo >= 0 and ctan.lo >= 0) or (csec.hi <= 0 and ctan.hi <= 0))
        if not same:
            R.undecided('D1', 'sign-of-c/%s' % h, 'could not establish the sign of c on the %s hemisphere: secant %s tangent %s' % (h, csec, ctan))
            continue
        cfield = esign.IV(min(csec.lo, ctan.lo), max(csec.hi, ctan.hi))
        for (tag, f, rd, sts) in (('toLambert', ffor, rfor, sfor), ('toWGS84', finv, rinv, sinv)):
            env0 = dict(base)
            env0[S('this.n_')] = npos
            env0[S('this.c_')] = cfield
            env, issues = eval_atoms(rd, env0, {})
            report(fx, R, tag, h, f, issues)
            for st in sts:
                comps = st.ret if isinstance(st.ret, tuple) else (st.ret,)
                for comp in comps:
                    if isinstance(comp, sp.Basic):
                        report(fx, R, tag, h, f, [('return',) + x for x in esign.definedness(comp, env)])


def report(fx, R, fname, h, f, issues):
    for (where, kind, arg, iv, v) in issues:
        inst = 'LambertConverter::%s:%s(%s)' % (fname, kind, sp.sstr(arg))
        if v == 'ok':
            R.holds('D1', inst + '/' + h, 'argument range %s on the %s hemisphere' % (iv, h), fx.rel(f['loc']), 'E-INT')
        elif v == 'bad':
            R.violated('D1', inst, '%s(%s) in %s: the argument ranges over %s for cones of the %s hemisphere (n and c are negative there): the result is NaN, '
                       'and the latitude iteration fed with it never terminates' % (kind, sp.sstr(arg), fname, iv, h), fx.rel(f['loc']), 'E-INT')
        else:
            R.undecided('D1', inst + '/' + h, 'sign of the %s argument not decidable on the %s hemisphere: range %s' % (kind, h, iv))
