"""C02 - local tangent-plane (ENU) frame.

Rules
  E1  the frame rotation written by setAnchor is a proper rotation: R^T R = I and det R = +1 (exact algebra on the nine extracted entries)
  E2  orientation: col(2) is the altitude-coefficient vector of ECEFConverter::toECEF (up = ellipsoid normal), col(0) is parallel to
      d toECEF / d longitude with a positive factor (east, not west), col(1) = col(2) x col(0) (north)
  E3  translation = ECEFConverter::toECEF(the same anchor the rotation is built from)  (reference maps to the origin)
  E4  state protocol: setAnchor defines anchor, translation, the three columns and the flag on every path; a path that skips them
      is accepted only if every input the skipped values depend on is compared equal to the stored anchor (cache coherence);
      an un-anchored converter anchors on the first geodetic point (must-pass-through); constructor and reset() leave the flag false
  E5  inverse pairing: toENU(ecef) = enu2ecef_.inverse() * p, toECEF(enu) = enu2ecef_ * p, toWGS84 = ecef.toWGS84 o toECEF;
      the scalar-triple overloads forward their arguments in positional order
  E6  the geodetic <-> ECEF pair the local frame is built on (to-local / to-ECEF / to-geodetic are mutual inverses): the formula rules of
      C01 on ECEFConverter::toECEF / toWGS84 (normal-line form, inverse consistency, output ranges, stopping tolerance, no 0/0 quotient)
      evaluated under this rule name on witness points of THIS property's quantifier (|latitude| <= 85 deg, height -500 .. 9000 m)
Not decided: 1 mm agreement with toWGS84 and distance preservation to rounding (inherits C01's iteration and floating point)."""
import os
import sympy as sp
from .. import sym, vec
from ..tree import sx, walk, pp, short_fn, strip_casts
from .C20 import deep_unwrap
from .C14 import stmts_sx
from . import geo
from .. import alg

LEVEL = 'other'
UNITS = ['src/geodesy/ENUConverter.cpp', 'src/geodesy/ECEFConverter.cpp', 'src/geodesy/EarthEllipsoid.cpp', 'src/geodesy/GeodeticCoordinates.cpp']
ENGINES = 'E-ALG + E-STATE + E-SIB over romea-facts'
TECHNIQUE = 'vector conversions evaluated over the affine algebra on an exact rational frame, namespace-scope shared results and parameter aliasing of the anchor (sweep H1 / H13), frame completeness (raw-matrix writes outside setAnchor), data flow of the altitude into the geodetic-to-ECEF map, value of an alternative path compared with the main path on witnesses of its condition, remembered-result caches (hit-return form) against every writer of what they were computed from, finiteness of every stored member an un-anchored path reads after the constructor and after reset(), sweep of every function read (and its in-repo callees) for frozen function-local statics, single precision inside double computations, lossy copy constructors, presence- or argument-keyed member caches, reference members bound to constructor arguments, loop accumulators that are members, members derived in the constructor and not refreshed by setters, results returned by reference to a member buffer, members filled from an argument under a condition that ignores it, hidden non-virtual base members, self-bound reference members, reductions that accumulate in float; frame state may be read only after isAnchored_ is established on the path (reset keeps the old anchor); C01 formula rules re-evaluated on the witness domain of this property (E6); frames assembled from normalised/crossed vectors are read symbolically; residuals are witness-confirmed before a violation is reported; formula extraction of the frame matrix and exact algebra (orthogonality, determinant, cross-table agreement with the ECEF forward map); path enumeration for the anchoring typestate incl. cache-coherence of skipped updates'
EXPLANATION = ('The nine rotation entries and the translation written by setAnchor are extracted symbolically and checked by exact algebra against orthonormality, det=+1 and '
               'the forward map of ECEFConverter (up = altitude direction, east = longitude derivative); the anchoring protocol (constructor, setAnchor, reset, auto-anchor) is '
               'decided by path enumeration; the conversion overloads by structure.')
ASSUMPTIONS = ['exact real arithmetic; |latitude| < pi/2 so cos(lat) > 0; N + h > 0', 'Eigen::Affine3d semantics (linear/translation/inverse, operator*)']
LEVEL_TEXT = ('For every anchor and every sequence of construct/setAnchor/reset/convert calls: the frame is a proper rotation with the stated orientation, anchored at the ECEF image of the '
              'anchor, the typestate is maintained on every path, and the conversions are mutually inverse by construction. Millimetre agreement is floating-point (not decided).')
LEVEL_NOTE = 'Not decided: 1 mm round trips / distances to rounding. Trusted: clang front end, extractor, sympy, Eigen affine-transform semantics.'

Q = geo.ENU


class _Remap:
    """Forwards C01's verdicts under rule E6."""

    def __init__(self, R):
        self.R = R

    def holds(self, rule, inst, *a, **k):
        self.R.holds('E6', '%s[%s]' % (inst, rule), *a, **k)

    def violated(self, rule, inst, *a, **k):
        self.R.violated('E6', '%s[%s]' % (inst, rule), *a, **k)

    def undecided(self, rule, inst, *a, **k):
        self.R.undecided('E6', '%s[%s]' % (inst, rule), *a, **k)

    def check(self, cond, rule, inst, *a, **k):
        return self.R.check(cond, 'E6', '%s[%s]' % (inst, rule), *a, **k)

    def form(self, cond, rule, inst, *a, **k):
        return self.R.form(cond, 'E6', '%s[%s]' % (inst, rule), *a, **k)

    def used(self, *f):
        self.R.used(*f)

    def floor(self, rule, n):
        pass


def run(fx, R, tier):
    from . import C01
    C01.run(fx, _Remap(R), tier, lat_deg=(0, 45, -45, 85, -85), heights=(0, -500, 9000))
    fa = fx.one(Q + 'setAnchor')
    fr = fx.one(Q + 'reset')
    if fa is None or fr is None:
        R.undecided('E1', 'ENUConverter', 'anchor vanished: setAnchor/reset')
        return
    R.used(fa, fr)
    fwd = geo.forward_formulas(fx)
    if fwd is None:
        R.undecided('E2', 'ECEFConverter::toECEF', 'forward map not readable as three component formulas')
    else:
        R.used(fwd['fn'])
    try:
        paths = sym.Reader(fx, call_hook=geo.enu_hook).run(fa)
    except sym.Unsupported as u:
        R.undecided('E1', 'ENUConverter::setAnchor', 'symbolic reader: %s' % u)
        return
    full = [st for st in paths if sum(1 for k in st.fields if k[0] == 'comma') == 9]
    skip = [st for st in paths if st not in full]
    if not full and fwd is not None:
        # the frame may be assembled from whole vectors (constructed, normalised, crossed) instead of comma initialisers
        try:
            vpaths = sym.Reader(fx, call_hook=vector_frame_hook(fwd)).run(fa)
        except sym.Unsupported:
            vpaths = []
        vfull = [st for st in vpaths if sum(1 for k in st.fields if k[0] == 'frame') == 3]
        if vfull:
            paths, full, skip = vpaths, vfull, [st for st in vpaths if st not in vfull]
    if not full:
        R.undecided('E1', 'ENUConverter::setAnchor', 'no path writes the nine rotation entries through comma initialisers')
        return
    for n, st in enumerate(full):
        check_frame(fx, R, fa, st, fwd, '' if len(full) == 1 else '/path%d' % n)
    check_skips(fx, R, fa, full[0], skip)
    check_protocol(fx, R, fa, fr)
    check_conversions(fx, R)
    check_entry_values(fx, R, fr)
    check_frame_completeness(fx, R, fa)


def height_flow_fact(fx, f):
    """Data flow of the point's altitude in toENU(geodetic): the height displaces the point along ITS OWN ellipsoid normal, which only the geodetic-to-ECEF map does.  When the point object never reaches
    toECEF() with its altitude (it is sliced to its planar base, or rebuilt with another altitude) and the altitude enters the result through plain arithmetic on a local coordinate instead, the height is applied
    along the ANCHOR's up axis: the two normals differ by distance / earth radius, so the result is off by about distance * height difference / 6.4e6 m."""
    if not f.get('params'):
        return None
    pid, pname = f['params'][0]['id'], f['params'][0]['name']
    whole_to_ecef = False
    alt_in_arith = None
    sliced = False

    def visit(n, anc):
        nonlocal whole_to_ecef, alt_in_arith, sliced
        if not isinstance(n, dict):
            return
        if n.get('k') == 'Ref' and n.get('id') == pid:
            # how is the whole object used?
            chain = [a for a in anc if a.get('k') not in ('DefaultArg',)]
            par = chain[-1] if chain else None
            par2 = chain[-2] if len(chain) > 1 else None
            if par is not None and par.get('k') == 'Member' and par.get('name') == 'altitude':
                if not any(a.get('k') in ('MCall', 'Call') and (a.get('m') or a.get('fn') or '').split('::')[-1] in ('toECEF', 'makeGeodeticCoordinates') for a in chain):
                    if any(a.get('k') in ('Bin', 'Op') and a.get('op') in ('+', '-', '+=', '-=') for a in chain):
                        alt_in_arith = alt_in_arith or next(a for a in reversed(chain) if a.get('k') in ('Bin', 'Op') and a.get('op') in ('+', '-', '+=', '-='))
            elif par is not None and par.get('k') == 'Cast' and 'WGS84Coordinates' in ((par.get('t') or {}).get('s') or '') and 'Geodetic' not in ((par.get('t') or {}).get('s') or ''):
                sliced = True
            elif any(a.get('k') in ('MCall', 'Call') and (a.get('m') or a.get('fn') or '').split('::')[-1] in ('toECEF', 'setAnchor', 'toENU') for a in chain[-3:]) and not (par is not None and par.get('k') == 'Member'):
                inner = next(a for a in reversed(chain) if a.get('k') in ('MCall', 'Call'))
                if (inner.get('m') or inner.get('fn') or '').split('::')[-1] == 'toECEF':
                    whole_to_ecef = True
        for k_, v_ in n.items():
            if k_ in ('t', 'rt'):
                continue
            if isinstance(v_, dict):
                visit(v_, anc + [n])
            elif isinstance(v_, list):
                for x_ in v_:
                    if isinstance(x_, dict):
                        visit(x_, anc + [n])
    visit(f.get('body'), [])
    if alt_in_arith is not None and not whole_to_ecef:
        return ('the altitude of the point never reaches ECEFConverter::toECEF() in this overload (%s) and enters the result through `%s` instead: the height difference is added along the up axis of the ANCHOR '
                'frame, while a point h above the ellipsoid lies along the normal AT THE POINT; the two directions differ by distance / 6.4e6, so a point 60 km away and 5 km higher is off by about 46 m - the '
                'local and the geodetic conversions are no longer inverses to 1 mm within 100 km' % ('the point is sliced to its planar base first' if sliced else 'it is not handed over whole', pp(alt_in_arith)[:110]))
    return None


def check_frame_completeness(fx, R, fa):
    """E8: re-anchoring must FULLY replace the frame.  The frame is stored as a homogeneous transform; the parts of it that setAnchor() does not write (when it writes through translation() / linear()
    only: the bottom row) keep whatever another method left there - so no other method may write the transform through its raw matrix, and a whole-object assignment must assign a transform."""
    FRAME = 'enu2ecef_'

    def frame_writes(f):
        out = []          # (kind, node): 'parts' (translation/linear/rotation view), 'whole' (assignment of a transform), 'raw' (through matrix()/data())
        for y in walk(f.get('body')):
            if not isinstance(y, dict):
                continue
            tgt = None
            if (y.get('k') == 'Bin' and y.get('op') in ('=', '+=', '-=', '*=', '/=')) or (y.get('k') == 'Op' and y.get('op') in ('=', '<<', '+=', '-=', '*=') and len(y.get('args', [])) == 2):
                tgt = y['l'] if y.get('k') == 'Bin' else y['args'][0]
            elif y.get('k') == 'MCall' and y.get('m') in ('setZero', 'setConstant', 'setIdentity', 'fill', 'setOnes', 'setRandom', 'swap', 'makeAffine') and not y.get('inrepo'):
                tgt = y.get('obj')
            if tgt is None:
                continue
            chain, n0 = [], strip_casts(tgt)
            for _ in range(8):
                if n0 is None:
                    break
                if n0.get('k') == 'MCall':
                    chain.append(n0.get('m'))
                    n0 = strip_casts(n0.get('obj'))
                elif n0.get('k') == 'Op' and n0.get('args'):
                    chain.append(n0.get('op'))
                    n0 = strip_casts(n0['args'][0])
                else:
                    break
            if n0 is None or n0.get('k') != 'Member' or n0.get('name') != FRAME:
                continue
            first = chain[-1] if chain else None
            if first is None:
                kind = 'identity' if (y.get('k') == 'MCall' and y.get('m') == 'setIdentity') else 'whole' if y.get('k') != 'MCall' else 'raw'
            elif first in ('translation', 'linear', 'rotation', 'linearExt', 'affine'):
                kind = 'parts'
            elif first in ('matrix', 'data'):
                kind = 'raw'
            else:
                kind = 'other'
            out.append((kind, y))
        return out
    wa = frame_writes(fa)
    if not wa:
        R.undecided('E8', 'ENUConverter::setAnchor:frame-completeness', 'no write of %s found in setAnchor()' % FRAME)
        return
    if any(k_ in ('whole', 'identity') for k_, _n in wa):
        R.holds('E8', 'ENUConverter::setAnchor:frame-completeness', 'setAnchor() assigns the whole transform', fx.rel(fa['loc']), 'E-STATE')
        return
    if any(k_ in ('raw', 'other') for k_, _n in wa):
        R.undecided('E8', 'ENUConverter::setAnchor:frame-completeness', 'setAnchor() writes the transform through %s' % sorted({pp(n_)[:60] for k_, n_ in wa if k_ in ('raw', 'other')})[:2])
        return
    n_other = 0
    for g in fx.functions.values():
        if g.get('cls') != fa.get('cls') or g.get('body') is None or g is fa or g.get('ctor'):
            continue
        for (k_, node) in frame_writes(g):
            n_other += 1
            if k_ == 'raw':
                R.violated('E8', 'ENUConverter::%s:frame-raw-write' % g['name'], '%s() writes the frame through its raw matrix (`%s`), which includes the bottom row of the homogeneous transform; setAnchor() writes only '
                           'translation() and linear(), so after %s() every later anchor keeps that bottom row: the frame handed out by getEnuToEcefTransform() after re-anchoring is not the rotation-plus-translation '
                           'of a fresh converter on the same anchor (as a 4x4 matrix its determinant is 0 and its inverse NaN) - the old state is not fully replaced' % (g['name'], pp(node)[:80], g['name']),
                           fx.rel(node.get('loc') or g['loc']), 'E-STATE')
            elif k_ == 'other':
                R.undecided('E8', 'ENUConverter::%s:frame-write' % g['name'], 'writes the frame through `%s`' % pp(node)[:80])
            else:
                R.holds('E8', 'ENUConverter::%s:frame-write@%s' % (g['name'], fx.rel(node.get('loc') or g['loc']).split(':', 1)[-1]), 'assigns a whole transform / a part setAnchor() rewrites', fx.rel(node.get('loc') or g['loc']), 'E-STATE')
    if not n_other:
        R.holds('E8', 'ENUConverter:frame-completeness', 'only setAnchor() and the constructors write the frame', fx.rel(fa['loc']), 'E-STATE')


def check_entry_values(fx, R, fr):
    """E7: what an un-anchored converter hands to a conversion.  The constructor and reset() are the two ways into the un-anchored state; a
    conversion path that has not established the anchored flag may still READ stored members (toENU(WGS84Coordinates) takes the altitude of
    the stored anchor before the auto-anchor test).  Every member such a path reads must be a finite value after the constructor and after
    reset(): a NaN / infinite / indeterminate one becomes the anchor of the auto-anchored frame."""
    convs = [f for f in fx.functions.values() if f.get('cls') == 'romea::core::ENUConverter' and f['name'] in ('toENU', 'toECEF', 'toWGS84') and f.get('body') is not None]
    reads = {}          # stored member path (tuple) -> (function, path description)
    unread = []
    for f in sorted(convs, key=lambda f: f['sig']):
        R.used(f)
        try:
            ps = sym.Reader(fx, call_hook=geo.enu_hook).run(f)
        except sym.Unsupported as u:
            unread.append((f, str(u)))
            continue
        for st in ps:
            established = any(isinstance(c[1], sp.Basic) and ((c[1] == sp.Symbol('this.isAnchored_') and c[2]) or (c[1] == sp.Not(sp.Symbol('this.isAnchored_')) and not c[2]) or
                                                            (str(c[1]) == '~this.isAnchored_' and not c[2])) for c in st.cond)
            asserted = any(x.get('k') == 'Call' and 'assert' in (x.get('fn') or '') for x in walk(f['body'])) or 'assert' in str(stmts_sx(f))
            if established or (asserted and not any('isAnchored' in c[0] for c in st.cond)):
                continue
            whole = st.fields.get(('this', 'wgs84Anchor_'))
            restored = whole is not None and str(whole) != 'this.wgs84Anchor_'
            if restored and not isinstance(whole, sp.Basic):
                import re as _re
                whole = sp.Add(*[sp.Symbol(n_) for n_ in set(_re.findall(r'this\.(?:wgs84Anchor_|enu2ecef_)[\w.]*', str(whole)))])
            if restored:
                # the path re-writes the stored anchor as a whole: component symbols met afterwards denote the NEW anchor; what it read of the
                # old one is what the new value (and the path conditions) are made of
                vals = [c[1] for c in st.cond if isinstance(c[1], sp.Basic)] + [whole]
            else:
                vals = [c[1] for c in st.cond if isinstance(c[1], sp.Basic)] + ([st.ret] if isinstance(st.ret, sp.Basic) else []) + \
                       [v for k_, v in st.fields.items() if isinstance(v, sp.Basic) and not (len(k_) >= 2 and v == sp.Symbol('.'.join(map(str, k_))))] + \
                       [x_ for v in st.fields.values() if isinstance(v, sp.MatrixBase) for x_ in v]
            for e_ in vals:
                for s_ in e_.free_symbols:
                    if s_.name.startswith('this.wgs84Anchor_') or s_.name.startswith('this.enu2ecef_'):
                        desc = ' && '.join(('' if c[2] else '!') + '(' + c[0] + ')' for c in st.cond)
                        reads.setdefault(tuple(s_.name.split('.')), (f, desc))
                        if os.environ.get('VERIF_DEBUG'):
                            print('E7 read', s_.name, short_sig(f), desc, str(e_)[:120])
    inst = 'ENUConverter:un-anchored-entry-values'
    for (f, why) in unread:
        if 'WGS84Coordinates' in f['sig'] and f['name'] == 'toENU':
            R.undecided('E7', inst + ':' + short_sig(f), 'not interpretable: %s' % why)
    # the two ways into the un-anchored state
    writers = []
    try:
        for st in sym.Reader(fx, call_hook=geo.enu_hook).run(fr):
            writers.append(('reset()', {k: v for k, v in st.fields.items()}, fr))
    except sym.Unsupported as u:
        R.undecided('E7', inst + ':reset', str(u))
    ctors = [f for f in fx.functions.values() if f.get('ctor') and f.get('cls') == 'romea::core::ENUConverter' and not f.get('copyctor') and not f['params']]
    if len(ctors) == 1:
        inits = {i.get('field'): i for i in ctors[0]['inits'] if i.get('field')}
        writers.append(('the default constructor', {('this', k): ('init', v) for k, v in inits.items()}, ctors[0]))
    bad = None
    n_checked = 0
    for path, (f, desc) in sorted(reads.items()):
        for (wname, fields, wf) in writers:
            n_checked += 1
            if wname.startswith('the default'):
                if ('this', path[1]) not in fields:
                    bad = bad or (path, f, desc, wname, 'left uninitialised (no member initialiser)', wf)
                continue
            v = fields.get(path)
            if v is None:
                v = fields.get(path[:2])
            if isinstance(v, sp.Basic) and (v.has(sp.nan) or v.has(sp.oo) or v.has(sp.zoo)):
                bad = bad or (path, f, desc, wname, 'set to %s' % v, wf)
    if bad:
        path, f, desc, wname, what, wf = bad
        R.violated('E7', inst, '%s leaves the converter un-anchored with %s %s, and %s reads that member on the path [%s] before (or without) establishing that the converter is anchored: '
                   'the value goes into the anchor the converter gives itself, so the first converted point does not map to the origin and the frame is not a finite rigid motion' % (
                       wname, '.'.join(path[1:]), what, short_sig(f), desc), fx.rel(wf['loc']), 'E-STATE')
    else:
        R.holds('E7', inst, '%d stored member(s) read on un-anchored paths (%s); finite after the constructor and after reset() (%d combinations)' % (
            len(reads), ', '.join(sorted('.'.join(p[1:]) for p in reads)) or 'none', n_checked), fx.rel(fr['loc']), 'E-STATE')


def short_sig(f):
    return '%s(%s)' % (f['name'], ', '.join(p['t'].get('s', '?').replace('const ', '').replace('romea::core::', '').replace(' &', '') for p in f['params']))


def vector_frame_hook(fwd):
    """Reader hook for a frame built from Eigen 3-vectors: enu2ecef_.translation() reads as the forward map of the stored anchor,
    enu2ecef_.linear().col(k) = v records column k, v.normalize() rescales a local in place; everything else: enu_hook / mat.hook."""
    from .. import mat
    from ..tree import const_value

    def as_vector(t):
        if isinstance(t, sp.Basic) and str(t.func) == 'toECEF' and len(t.args) == 3:
            sub = {fwd['lat']: t.args[0], fwd['lon']: t.args[1], fwd['alt']: t.args[2]}
            return sp.ImmutableMatrix(3, 1, [fwd[c].subs(sub, simultaneous=True) for c in ('X', 'Y', 'Z')])
        return t

    def hook(rd, e, st, ctx):
        k = e.get('k')
        if k == 'Store':
            l = strip_casts(e['lhs'])
            if l.get('k') == 'MCall' and l.get('m') == 'col' and len(l.get('args', [])) == 1:
                o_ = strip_casts(l['obj'])
                kk = const_value(l['args'][0])
                if o_.get('k') == 'MCall' and o_.get('m') == 'linear' and kk is not None and isinstance(e['value'], sp.MatrixBase) and e['op'] == '=':
                    st.fields[('frame', int(kk))] = sp.ImmutableMatrix(e['value'])
                    return [(e['value'], st)]
        if k == 'MCall' and e.get('m') == 'translation' and not e.get('args'):
            lv = rd.lvalue(e['obj'], st, ctx)
            if lv and lv[0] == 'field':
                t = st.fields.get(lv[1] + ('translation()',))
                v = as_vector(t)
                if isinstance(v, sp.MatrixBase):
                    return [(v, st)]
        if k == 'MCall' and e.get('m') in ('normalize', 'normalized') and not e.get('args'):
            out = []
            for (ov, s2) in rd.ev(e['obj'], st, ctx):
                if not isinstance(ov, sp.MatrixBase):
                    return NotImplemented
                nv = sp.ImmutableMatrix(ov / sp.sqrt(sum(x_ ** 2 for x_ in ov)))
                if e['m'] == 'normalize':
                    lv = rd.lvalue(e['obj'], s2, ctx)
                    if not lv or lv[0] != 'local':
                        return NotImplemented
                    rd.assign(lv, nv, s2)
                    out.append((None, s2))
                else:
                    out.append((nv, s2))
            return out
        r = geo.enu_hook(rd, e, st, ctx)
        if r is NotImplemented:
            r = mat.hook(rd, e, st, ctx)
        return r
    return hook


def frame_of(st):
    fc = {k[1]: v for k, v in st.fields.items() if k[0] == 'frame'}
    if sorted(fc) == [0, 1, 2] and all(isinstance(v, sp.MatrixBase) and v.shape == (3, 1) for v in fc.values()):
        return sp.Matrix(3, 3, lambda i, j: fc[j][i, 0])
    cols = {}
    for k, v in st.fields.items():
        if k[0] == 'comma':
            name = k[1]
            if '.linear().col(' in name and name.startswith('this.enu2ecef_'):
                c = int(name.split('.col(')[1].rstrip(')'))
                cols.setdefault(c, {})[k[2]] = v
    if sorted(cols) != [0, 1, 2] or any(sorted(cols[c]) != [0, 1, 2] for c in cols):
        return None
    return sp.Matrix(3, 3, lambda i, j: cols[j][i])


def check_frame(fx, R, fa, st, fwd, tag):
    M = frame_of(st)
    loc = fx.rel(fa['loc'])
    if M is None:
        R.undecided('E1', 'ENUConverter::setAnchor:frame' + tag, 'columns 0..2 of enu2ecef_.linear() are not each written with three entries')
        return
    G = alg.simp(M.T * M - sp.eye(3))
    alg.check_zero(R, G, 'E1', 'ENUConverter::setAnchor:orthonormal' + tag, 'R^T R - I = %s (should vanish)' % (G.tolist(),), 'R^T R = I', loc)
    det3 = M[0, 0] * (M[1, 1] * M[2, 2] - M[1, 2] * M[2, 1]) - M[0, 1] * (M[1, 0] * M[2, 2] - M[1, 2] * M[2, 0]) + M[0, 2] * (M[1, 0] * M[2, 1] - M[1, 1] * M[2, 0])
    d = alg.simp(det3)            # cofactor form, never expanded (Matrix.det() expands big entries for minutes)
    alg.check_zero(R, d - 1, 'E1', 'ENUConverter::setAnchor:determinant' + tag, 'det R = %s (a proper rotation needs +1: -1 is a mirrored frame)' % d, 'det R = +1', loc)
    syms = {s.name: s for s in M.free_symbols}
    latn = [n for n in syms if n.endswith('.latitude')]
    lonn = [n for n in syms if n.endswith('.longitude')]
    if len(latn) != 1 or len(lonn) != 1:
        R.undecided('E2', 'ENUConverter::setAnchor:orientation' + tag, 'frame does not depend on exactly one latitude and one longitude: %s' % sorted(syms))
        return
    lat, lon = syms[latn[0]], syms[lonn[0]]
    root = latn[0][:-len('.latitude')]
    if fwd is not None:
        sub = {fwd['lat']: lat, fwd['lon']: lon}
        P = sp.Matrix([fwd['X'], fwd['Y'], fwd['Z']]).subs(sub)
        up = alg.simp(P.diff(fwd['alt']))
        alg.check_zero(R, alg.simp(up - M[:, 2]), 'E2', 'ENUConverter::setAnchor:up' + tag,
                       'col(2) = %s but the altitude direction of toECEF is %s: a point h above the reference does not map to (0,0,h)' % (M[:, 2].T.tolist(), up.T.tolist()),
                       'col(2) = d toECEF / d altitude', loc)
        de = P.diff(lon)
        cross = alg.simp(M[:, 0].cross(de))
        dot = alg.simp(M[:, 0].dot(de))
        # col(0) is the unit vector along d toECEF/d lon  <=>  cross = 0, (col0.de)^2 = |de|^2 and col0.de > 0 (sign fixed on the connected domain: one sample decides it)
        unitlen = alg.simp(dot ** 2 - de.dot(de))
        sample = {sy: (sp.Rational(3, 10) if 'latitude' in sy.name else sp.Rational(1, 5) if 'longitude' in sy.name else sp.Integer(10) if 'altitude' in sy.name
                       else sp.Rational(1, 150) if sy.name.endswith('e2') else sp.Integer(6378137)) for sy in dot.free_symbols}
        positive = bool(dot.subs(sample).evalf() > 0)
        alg.check_zero(R, sp.Matrix(list(cross) + [unitlen]), 'E2', 'ENUConverter::setAnchor:east' + tag,
                       'col(0) x d toECEF/d lon = %s, (col(0) . d toECEF/d lon) = %s (expected parallel with a positive factor): the first axis does not point east' % (cross.T.tolist(), dot),
                       'col(0) = unit vector along d toECEF / d longitude', loc, extra_ok=positive,
                       extra_what='col(0) is anti-parallel to d toECEF/d lon (col(0) . d toECEF/d lon = %s < 0 at a sample anchor): the first axis points west' % dot)
    north = alg.simp(M[:, 2].cross(M[:, 0]) - M[:, 1])
    alg.check_zero(R, north, 'E2', 'ENUConverter::setAnchor:north' + tag, 'col(1) - col(2) x col(0) = %s: the second axis is not north' % (north.T.tolist(),),
                   'col(1) = up x east', loc)
    # ---- E3 translation ---------------------------------------------------------
    t = st.fields.get(('this', 'enu2ecef_', 'translation()'))
    want = sp.Function('toECEF')(sp.Symbol(root + '.latitude', real=True), sp.Symbol(root + '.longitude', real=True), sp.Symbol(root + '.altitude', real=True))
    R.check(t == want, 'E3', 'ENUConverter::setAnchor:translation' + tag, 'translation is %s, expected ECEFConverter::toECEF of the anchor the rotation is built from (%s)' % (t, root),
            'translation = toECEF(anchor)', loc, 'E-STATE')
    anc = st.fields.get(('this', 'wgs84Anchor_'))
    R.check(isinstance(anc, sp.Symbol) and anc.name in ('arg:' + root, root), 'E4', 'ENUConverter::setAnchor:stores-anchor' + tag, 'stored anchor is %s' % anc, 'stores the anchor', loc, 'E-STATE')
    R.check(st.fields.get(('this', 'isAnchored_')) == 1, 'E4', 'ENUConverter::setAnchor:flag' + tag, 'anchored flag is %s after setAnchor' % st.fields.get(('this', 'isAnchored_')),
            'flag set', loc, 'E-STATE')


def check_skips(fx, R, fa, full, skip):
    """E4 cache coherence of paths of setAnchor that skip (part of) the re-anchoring."""
    loc = fx.rel(fa['loc'])
    needed_all = {}
    for k, v in full.fields.items():
        if k[0] in ('comma',) or k == ('this', 'enu2ecef_', 'translation()') or k == ('this', 'wgs84Anchor_'):
            if isinstance(v, sp.Basic):
                needed_all[k] = {s.name for s in v.free_symbols if not s.name.startswith('this.')}
    for n, st in enumerate(skip):
        desc = ' && '.join(('' if c[2] else '!') + '(' + c[0] + ')' for c in st.cond)
        missing = [k for k in needed_all if k not in st.fields]
        if not missing:
            R.undecided('E4', 'ENUConverter::setAnchor:path%d' % n, 'path [%s] writes the frame in an unrecognised way' % desc)
            continue
        needed = set()
        for k in missing:
            needed |= needed_all[k]
        # whole-struct copies depend on every component
        if ('this', 'wgs84Anchor_') in missing:
            root = next(iter(needed_all[('this', 'wgs84Anchor_')]), 'arg:anchor').replace('arg:', '')
            needed |= {root + '.latitude', root + '.longitude', root + '.altitude'}
            needed = {x for x in needed if not x.startswith('arg:')}
        compared = set()
        flag_tested = False
        interpretable = True
        for c in st.cond:
            if not isinstance(c[1], sp.Basic):
                interpretable = False
                continue
            conj = list(c[1].args) if isinstance(c[1], sp.And) and c[2] else [c[1]] if c[2] else []
            for a in conj:
                if isinstance(a, sp.Eq):
                    names = {s.name for s in a.free_symbols}
                    stored = {x for x in names if x.startswith('this.wgs84Anchor_')}
                    inputs = {x for x in names if not x.startswith('this.')}
                    if stored and inputs and all(x.split('.')[-1] == next(iter(stored)).split('.')[-1] for x in inputs):
                        compared |= inputs
                if any(s.name == 'this.isAnchored_' for s in a.free_symbols):
                    flag_tested = True
        if not interpretable:
            R.undecided('E4', 'ENUConverter::setAnchor:path%d' % n, 'path [%s] skips the re-anchoring under a condition that is not interpretable' % desc)
            continue
        lacking = sorted(needed - compared)
        if lacking or not flag_tested:
            R.violated('E4', 'ENUConverter::setAnchor:incoherent-skip', 'on the path [%s] setAnchor keeps the old %s, but these depend on %s which the condition does not compare with the stored anchor%s: '
                       're-anchoring does not fully replace the old frame' % (desc, sorted({k[1] if k[0] == 'comma' else '.'.join(k[1:]) for k in missing})[:3], lacking,
                                                                              '' if flag_tested else ' (and it does not test the anchored flag)'), loc, 'E-STATE')
        else:
            R.holds('E4', 'ENUConverter::setAnchor:path%d' % n, 'skip path compares every input the skipped state depends on', loc, 'E-STATE')


def check_protocol(fx, R, fa, fr):
    # constructor: flag false
    ctors = [f for f in fx.functions.values() if f.get('ctor') and f.get('cls') == 'romea::core::ENUConverter' and not f.get('copyctor')]
    dflt = [f for f in ctors if not f['params']]
    withanchor = [f for f in ctors if len(f['params']) == 1]
    if len(dflt) == 1:
        R.used(dflt[0])
        inits = {i.get('field'): deep_unwrap(sx(i['e'])) for i in dflt[0]['inits']}
        R.check(inits.get('isAnchored_') is False, 'E4', 'ENUConverter::ENUConverter():flag', 'default constructor initialises the anchored flag with %s' % (inits.get('isAnchored_'),),
                'constructed un-anchored', fx.rel(dflt[0]['loc']), 'E-STATE')
    else:
        R.undecided('E4', 'ENUConverter::ENUConverter()', 'default constructor not found')
    if len(withanchor) == 1:
        R.used(withanchor[0])
        st = stmts_sx(withanchor[0])
        deleg = any(i.get('delegating') for i in withanchor[0]['inits'])
        R.check(deleg and st == [('expr', ('.setAnchor', 'this', 'anchor'))], 'E4', 'ENUConverter::ENUConverter(anchor)', 'anchor constructor is %s' % (st,), 'delegates and calls setAnchor(anchor)',
                fx.rel(withanchor[0]['loc']), 'E-STATE')
    # reset: flag false on every path
    try:
        rp = sym.Reader(fx, call_hook=geo.enu_hook).run(fr)
        ok = all(st.fields.get(('this', 'isAnchored_')) == 0 for st in rp)
        R.check(ok, 'E4', 'ENUConverter::reset:flag', 'reset() leaves the anchored flag %s on some path' % [st.fields.get(('this', 'isAnchored_')) for st in rp], 'un-anchored after reset on every path',
                fx.rel(fr['loc']), 'E-STATE')
    except sym.Unsupported as u:
        R.undecided('E4', 'ENUConverter::reset', str(u))
    fi = fx.one(Q + 'isAnchored')
    if fi is not None:
        R.used(fi)
        R.check(stmts_sx(fi) == [('return', 'this.isAnchored_')], 'E4', 'ENUConverter::isAnchored', 'isAnchored() is %s' % (stmts_sx(fi),), 'returns the flag', fx.rel(fi['loc']), 'E-STATE')
    # auto-anchor
    fg = [f for f in fx.fn(Q + 'toENU') if 'GeodeticCoordinates' in f['sig']]
    if len(fg) != 1:
        R.undecided('E4', 'ENUConverter::toENU(geodetic)', 'overload not found')
        return
    R.used(fg[0])
    hf = height_flow_fact(fx, fg[0])
    if hf:
        R.violated('E4', 'ENUConverter::toENU(geodetic):height-path', hf, fx.rel(fg[0]['loc']), 'E-ALG')
        return
    try:
        ps = sym.Reader(fx, call_hook=geo.enu_hook).run(fg[0])
    except sym.Unsupported as u:
        R.undecided('E4', 'ENUConverter::toENU(geodetic)', str(u))
        return
    fact, unknown = None, None
    seen_unanchored = False
    for st in ps:
        flag_conds = [c for c in st.cond if isinstance(c[1], sp.Basic) and any(s.name == 'this.isAnchored_' for s in c[1].free_symbols)]
        unanchored = any((c[1] == sp.Not(sp.Symbol('this.isAnchored_')) and c[2]) or (isinstance(c[1], sp.Symbol) and not c[2]) or (str(c[1]) == '~this.isAnchored_' and c[2]) for c in flag_conds)
        if unanchored:
            seen_unanchored = True
            anc = st.fields.get(('this', 'wgs84Anchor_'))
            t = st.fields.get(('this', 'enu2ecef_', 'translation()'))
            flag = st.fields.get(('this', 'isAnchored_'))
            if not (isinstance(anc, sp.Symbol) and anc.name == 'arg:geodeticCoordinates' and flag == 1 and t is not None):
                if anc is None or flag in (None, 0) or (isinstance(anc, sp.Symbol) and anc.name != 'arg:geodeticCoordinates'):
                    fact = fact or 'on the un-anchored path the converter is not anchored on the point being converted (anchor=%s, flag=%s)' % (anc, flag)
                else:
                    unknown = unknown or 'state after the un-anchored path not readable (anchor=%s, flag=%s)' % (anc, flag)
        r = st.ret
        want = 'inverse(this.enu2ecef_'
        if not (isinstance(r, sp.Basic) and want in str(r) and 'toECEF(geodeticCoordinates.latitude, geodeticCoordinates.longitude, geodeticCoordinates.altitude)' in str(r)):
            alt = alternative_path_value(st) if not unanchored else None
            if alt is not None and alt[0] == 'violated':
                fact = fact or alt[1]
            elif alt is not None and alt[0] == 'agrees':
                unknown = unknown or ('a path [%s] returns a closed form instead of enu2ecef_.inverse() * toECEF(point); it agrees with the frame conversion on %d witness points to 1e-4 m, which is not a proof' % (
                    ' && '.join(c[0][:50] for c in st.cond), alt[1]))
            else:
                unknown = unknown or 'result %s is not in the enumerated form enu2ecef_.inverse() * toECEF(point)' % str(r)[:200]
    # a path may use the stored frame (anchor / transform) only after it has established that the converter is anchored:
    # reset() clears the flag, not the stored anchor, so an un-guarded read sees the frame of before the reset
    for st in ps:
        established = any(isinstance(c[1], sp.Basic) and ((c[1] == sp.Symbol('this.isAnchored_') and c[2]) or (c[1] == sp.Not(sp.Symbol('this.isAnchored_')) and not c[2]) or
                                                        (str(c[1]) == '~this.isAnchored_' and not c[2])) for c in st.cond) or st.fields.get(('this', 'isAnchored_')) == 1
        uses = set()
        for e_ in [c[1] for c in st.cond if isinstance(c[1], sp.Basic)] + ([st.ret] if isinstance(st.ret, sp.Basic) else []):
            uses |= {s_.name for s_ in e_.free_symbols if s_.name.startswith(('this.wgs84Anchor_', 'this.enu2ecef_'))}
        if uses and not established:
            desc = ' && '.join(('' if c[2] else '!') + '(' + c[0] + ')' for c in st.cond)
            fact = fact or ('the path [%s] of toENU(geodetic) reads the stored frame (%s) without having established that the converter is anchored: reset() clears the flag but keeps the old anchor, so after '
                            'anchor(A); reset() this path answers in the frame of A instead of anchoring on the point (which must map to the origin)' % (desc, sorted(uses)))
    calls_anchor = any(x.get('k') == 'MCall' and x.get('m') == 'setAnchor' for x in walk(fg[0]['body']))
    if not seen_unanchored:
        if not calls_anchor:
            fact = fact or 'toENU(geodetic) never calls setAnchor: an un-anchored converter is not anchored on its first geodetic point'
        else:
            unknown = unknown or 'no path is recognised as the un-anchored one'
    R.form(fact is None and unknown is None, 'E4', 'ENUConverter::toENU(geodetic):auto-anchor', unknown or '', 'un-anchored => setAnchor(point) before converting', fx.rel(fg[0]['loc']), 'E-STATE',
           facts=[(fact is not None, fact)])


def alternative_path_value(st):
    """A path of toENU(geodetic) that returns three closed-form components instead of going through the frame: evaluated on witness anchors (sea level
    to 9000 m, both hemispheres) and points that satisfy the path condition, against R(anchor)^T (ecef(point) - ecef(anchor)) on GRS80."""
    import itertools
    r = st.ret
    if not (isinstance(r, sp.Basic) and isinstance(r, sp.core.function.AppliedUndef) and len(r.args) == 3 and 'Matrix' in str(r.func)):
        return None
    A_, E2_ = sp.Float(6378137, 40), sp.Float('0.00669438002290', 40)

    def ecef(la, lo, h):
        N = A_ / sp.sqrt(1 - E2_ * sp.sin(la) ** 2)
        return sp.Matrix([(N + h) * sp.cos(la) * sp.cos(lo), (N + h) * sp.cos(la) * sp.sin(lo), (N * (1 - E2_) + h) * sp.sin(la)])
    n_ok, worst = 0, None
    for (la0, h0) in itertools.product((sp.Float('0.8', 40), sp.Float('-0.65', 40)), (sp.Float(10, 40), sp.Float(4000, 40), sp.Float(9000, 40))):
        lo0 = sp.Float('0.05', 40)
        Rm = sp.Matrix([[-sp.sin(lo0), -sp.sin(la0) * sp.cos(lo0), sp.cos(la0) * sp.cos(lo0)],
                        [sp.cos(lo0), -sp.sin(la0) * sp.sin(lo0), sp.cos(la0) * sp.sin(lo0)],
                        [0, sp.cos(la0), sp.sin(la0)]])
        for (dla, dlo, dh) in ((5e-6, 5e-6, 0), (0, 8e-6, 5), (3e-4, 1e-4, 0), (1e-2, 1e-2, 3), (-7e-6, 2e-6, -2)):
            la, lo, h = la0 + sp.Float(dla, 40), lo0 + sp.Float(dlo, 40), h0 + sp.Float(dh, 40)
            env = {}
            for e_ in list(r.args) + [c[1] for c in st.cond if isinstance(c[1], sp.Basic)]:
                for s_ in e_.free_symbols:
                    n_ = s_.name
                    if n_ == 'this.isAnchored_':
                        env[s_] = sp.true
                    elif n_.startswith('this.wgs84Anchor_.'):
                        env[s_] = {'latitude': la0, 'longitude': lo0, 'altitude': h0}.get(n_.split('.')[-1])
                    elif n_.startswith('geodeticCoordinates.'):
                        env[s_] = {'latitude': la, 'longitude': lo, 'altitude': h}.get(n_.split('.')[-1])
                    elif n_.endswith('.a'):
                        env[s_] = A_
                    elif n_.endswith('.e2'):
                        env[s_] = E2_
                    elif n_.endswith('.e'):
                        env[s_] = sp.sqrt(E2_)
                    elif n_.endswith('.b'):
                        env[s_] = A_ * sp.sqrt(1 - E2_)
            if any(v is None for v in env.values()):
                return None
            ok = True
            for c in st.cond:
                if not isinstance(c[1], sp.Basic) or 'isAnchored' in c[0]:
                    continue
                try:
                    v = c[1].subs(env)
                    if v not in (sp.true, sp.false) and hasattr(v, 'lhs'):
                        v = v.func(sp.N(v.lhs, 30), sp.N(v.rhs, 30))
                except Exception:
                    return None
                if v not in (sp.true, sp.false):
                    return None
                if bool(v) != c[2]:
                    ok = False
            if not ok:
                continue
            try:
                got = sp.Matrix([sp.N(a_.subs(env), 30) for a_ in r.args])
            except Exception:
                return None
            if not all(g_.is_number for g_ in got):
                return None
            exact = Rm.T * (ecef(la, lo, h) - ecef(la0, lo0, h0))
            err = max(abs(sp.N(got[i] - exact[i], 30)) for i in range(3))
            n_ok += 1
            if err > sp.Float('1e-3') and (worst is None or err > worst[0]):
                worst = (err, la0, h0, dla, dlo, dh)
    if worst:
        desc = ' && '.join(('' if c[2] else '!') + c[0][:70] for c in st.cond if 'isAnchored' not in c[0])
        return ('violated', 'the path [%s] of toENU(geodetic) does not go through the frame: for an anchor at latitude %s rad and %s m and a point (%g, %g) rad / %g m from it, what it returns differs from '
                'R^T (ecef(point) - ecef(anchor)) by %s m (statement: mutual inverses within 1 mm, distances preserved); the surface radii of curvature ignore the anchor height' % (
                    desc, sp.N(worst[1], 3), sp.N(worst[2], 5), worst[3], worst[4], worst[5], sp.N(worst[0], 3)))
    return ('agrees', n_ok) if n_ok else None


class _Aff(object):
    def __init__(self, Rm, t):
        self.R, self.t = Rm, t


def frame_value(f, name):
    """Evaluates the single return expression of a vector conversion over the affine algebra (frame member, inverse(), linear()/rotation(), translation(), transpose(), products, sums) on an exact frame.
    Returns None when the body is not such an expression; (True, n) when it agrees with the oracle on all witness points; (False, n, t, x, got, want, diff, wrong_frame) otherwise."""
    st = [s_ for s_ in stmts_sx(f) if s_ != ('expr', 0)]
    if len(st) != 1 or st[0][0] != 'return':
        return None
    pn = f['params'][0]['name']
    # rotation of the unit quaternion (1, 2, 3, 4)/sqrt(30): exact rational entries
    a, b, c, d = 1, 2, 3, 4
    n2 = sp.Integer(a * a + b * b + c * c + d * d)
    Rm = sp.Matrix([[a * a + b * b - c * c - d * d, 2 * (b * c - a * d), 2 * (b * d + a * c)], [2 * (b * c + a * d), a * a - b * b + c * c - d * d, 2 * (c * d - a * b)],
                    [2 * (b * d - a * c), 2 * (c * d + a * b), a * a - b * b - c * c + d * d]]) / n2
    tv = sp.Matrix([4200000, 170000, 4780000])

    class Unsup(Exception):
        pass

    def ev(t, env):
        if isinstance(t, (int, float)):
            return sp.nsimplify(t, rational=True)
        if isinstance(t, str):
            if t in env:
                return env[t]
            raise Unsup(t)
        if not isinstance(t, tuple) or not t:
            raise Unsup(str(t))
        op = t[0]
        if op == '.inverse' and len(t) in (2, 3):
            A = ev(t[1], env)
            if isinstance(A, _Aff):
                return _Aff(A.R.T, -A.R.T * A.t)
            if isinstance(A, sp.MatrixBase) and A.shape == (3, 3):
                return A.inv()
            raise Unsup('inverse')
        if op in ('.linear', '.rotation') and len(t) == 2:
            A = ev(t[1], env)
            if isinstance(A, _Aff):
                return A.R
            raise Unsup(op)
        if op == '.translation' and len(t) == 2:
            A = ev(t[1], env)
            if isinstance(A, _Aff):
                return A.t
            raise Unsup(op)
        if op == '.transpose' and len(t) == 2:
            M = ev(t[1], env)
            if isinstance(M, sp.MatrixBase):
                return M.T
            raise Unsup(op)
        if op in ('.eval', '.matrix', '.array') and len(t) == 2:
            return ev(t[1], env)
        if op == '*' and len(t) == 3:
            A, B = ev(t[1], env), ev(t[2], env)
            if isinstance(A, _Aff) and isinstance(B, sp.MatrixBase) and B.shape == (3, 1):
                return A.R * B + A.t
            if isinstance(A, _Aff) and isinstance(B, _Aff):
                return _Aff(A.R * B.R, A.R * B.t + A.t)
            if isinstance(A, _Aff) or isinstance(B, _Aff):
                raise Unsup('product')
            return A * B
        if op in ('+', '-') and len(t) == 3:
            A, B = ev(t[1], env), ev(t[2], env)
            if isinstance(A, _Aff) or isinstance(B, _Aff):
                raise Unsup('sum')
            return A + B if op == '+' else A - B
        if op in ('u-', '-') and len(t) == 2:
            return -ev(t[1], env)
        if isinstance(op, str) and op.startswith('new:') and len(t) == 2:
            return ev(t[1], env)
        raise Unsup(str(op))
    first, n_ok = None, 0
    diffs = []
    for x in (sp.Matrix([4201000, 168500, 4779000]), sp.Matrix([4200000, 170000, 4780000]), sp.Matrix([-1, 2, 3]), sp.Matrix([4300000, -50000, 4600000])):
        if name == 'toECEF':
            x = x - tv if x[0] > 1000 else x
        env = {'this.enu2ecef_': _Aff(Rm, tv), pn: x}
        try:
            got = ev(deep_unwrap(st[0][1]), env)
        except (Unsup, TypeError, ValueError, AttributeError):
            return None
        if not (isinstance(got, sp.MatrixBase) and got.shape == (3, 1)):
            return None
        want = Rm.T * (x - tv) if name == 'toENU' else Rm * x + tv
        if got == want:
            n_ok += 1
        else:
            diffs.append(got - want)
            first = first or (x, got, want)
    if not first:
        return (True, n_ok)
    x, got, want = first
    same = all(d_ == diffs[0] for d_ in diffs) and len(diffs) > 1
    wrong_frame = same and name == 'toENU' and diffs[0] == (Rm.T * tv - tv)
    fmt = lambda M: '(%s)' % ', '.join('%.6g' % float(v_) for v_ in M)
    return (False, n_ok, fmt(tv), fmt(x), fmt(got), fmt(want), fmt(got - want) + ' (%.4g m)' % float(sp.sqrt(sum(v_ ** 2 for v_ in (got - want)))), wrong_frame)


def check_conversions(fx, R):
    want = {
        ('toENU', 'Matrix'): [('return', ('*', ('.inverse', 'this.enu2ecef_', 'Eigen::Transform<double, 3, 2, 0>::Mode'), 'ecefCoordinates'))],
        ('toECEF', 'Matrix'): [('return', ('*', 'this.enu2ecef_', 'enuPosition'))],
        ('toWGS84', 'Matrix'): [('return', ('.toWGS84', 'this.ecefConverter_', ('.toECEF', 'this', 'enuPosition')))],
    }
    for (name, kind), w in want.items():
        fs = [f for f in fx.fn(Q + name) if len(f['params']) == 1 and 'Eigen::Matrix<double, 3, 1' in f['sig'].split('(')[1]]
        if len(fs) != 1:
            R.undecided('E5', 'ENUConverter::%s(vector)' % name, 'overload not found')
            continue
        R.used(fs[0])
        got = [s for s in stmts_sx(fs[0]) if s != ('expr', 0)]
        alt = [('return', ('*', ('.inverse', 'this.enu2ecef_'), 'ecefCoordinates'))] if name == 'toENU' else None
        if got == w or got == alt:
            R.holds('E5', 'ENUConverter::%s(vector)' % name, str(w[0][1]), fx.rel(fs[0]['loc']), 'E-SIB')
        elif name == 'toENU' and got == [('return', ('*', 'this.enu2ecef_', 'ecefCoordinates'))]:
            R.violated('E5', 'ENUConverter::toENU(vector)', 'toENU applies enu2ecef_ itself, not its inverse', fx.rel(fs[0]['loc']), 'E-SIB')
        elif name == 'toECEF' and isinstance(got[0][1], tuple) and got[0][1][0] == '*' and contains_inverse(got[0][1]):
            R.violated('E5', 'ENUConverter::toECEF(vector)', 'toECEF applies the inverse transform', fx.rel(fs[0]['loc']), 'E-SIB')
        else:
            # by value: the body is evaluated on an exact rational frame (rotation R from a rational quaternion, origin t) and witness points; toENU must give R^T (x - t), toECEF R x + t
            v_ = frame_value(fs[0], name) if name in ('toENU', 'toECEF') else None
            if v_ is None:
                R.undecided('E5', 'ENUConverter::%s(vector)' % name, 'conversion idiom not recognised: %s' % (got,))
            elif v_[0]:
                R.holds('E5', 'ENUConverter::%s(vector)' % name, 'evaluated on an exact rational frame and %d witness points: %s' % (v_[1], 'R^T (x - t)' if name == 'toENU' else 'R x + t'), fx.rel(fs[0]['loc']), 'E-STEP')
            else:
                R.violated('E5', 'ENUConverter::%s(vector):value' % name, 'evaluated on an exact frame (rotation R, origin t = %s) the overload maps the point %s to %s; %s is %s - they differ by %s, the same for every point '
                           '(%s): the two directions are no longer mutual inverses and the reference point no longer maps to the origin for ECEF input' % (
                               v_[2], v_[3], v_[4], 'R^T (x - t)' if name == 'toENU' else 'R x + t', v_[5], v_[6],
                               'the origin is subtracted in the wrong frame: R^T x - t instead of R^T (x - t)' if v_[7] else 'the difference does not depend on the point'), fx.rel(fs[0]['loc']), 'E-STEP')
    for name in ('toECEF', 'toWGS84'):
        fs = [f for f in fx.fn(Q + name) if len(f['params']) == 3]
        if len(fs) != 1:
            R.undecided('E5', 'ENUConverter::%s(x,y,z)' % name, 'overload not found')
            continue
        f = fs[0]
        R.used(f)
        pn = [p['name'] for p in f['params']]
        rets = [x for x in walk(f['body']) if x.get('k') == 'Return']
        ok = None
        if len(rets) == 1:
            r = strip_casts(rets[0]['e'])
            if r.get('k') == 'MCall' and r.get('m') in ('toECEF', 'toWGS84') and len(r['args']) == 1:
                ci = vec.comma_init(r['args'][0])
                if ci is not None:
                    vals = [deep_unwrap(sx(v)) for v in ci[1]]
                    ok = (vals == pn) and (r.get('m') == name)
                    if not ok:
                        R.violated('E5', 'ENUConverter::%s(x,y,z)' % name, 'the scalar overload builds the vector (%s) from parameters %s and forwards to %s: components are reordered/negated, so it is not the same '
                                   'map as the vector overload' % (', '.join(map(str, vals)), pn, r.get('m')), fx.rel(f['loc']), 'E-SIB')
        if ok is None and name == 'toWGS84' and stmts_sx(f) == [('return', ('.toWGS84', 'this.ecefConverter_', ('.toECEF', 'this') + tuple(pn)))]:
            ok = True
        if ok:
            R.holds('E5', 'ENUConverter::%s(x,y,z)' % name, 'forwards (p0,p1,p2) to the vector overload', fx.rel(f['loc']), 'E-SIB')
        elif ok is None:
            R.undecided('E5', 'ENUConverter::%s(x,y,z)' % name, 'forwarding idiom not recognised: %s' % (stmts_sx(f),))


def contains_inverse(s):
    if isinstance(s, tuple):
        return s[0] == '.inverse' or any(contains_inverse(x) for x in s)
    return False
