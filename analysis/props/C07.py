"""C07 - linear least squares: row discipline and path agreement.

Rules (float and double instantiations)
  L1  row slicing: inside the solver every use of the data buffers J_, Y_, W_ is restricted to the first dataSize_ rows
      (.head(dataSize_), .col(i).head(dataSize_), .topRows(dataSize_), .block(0,.,dataSize_,.), .segment(0,dataSize_)); the buffers only
      grow, so an unsliced use reads rows of an earlier, larger problem.  setDataSize() assigns dataSize_ on every path.
  L2  normal equations: JtJ_(i,j) = JtJ_(j,i) = col_i . col_j over i in [0,E), j in [i,E);  JtY_(i) = col_i . Y over i in [0,E)
  L3  Cholesky and SVD paths: both call computeJTJ_() and computeJTY_() before using JtJ_/JtY_ and return Ac_*inverseJtJ_*JtY_ + Bc_;
      Cholesky inverse = JtJ_.ldlt().solve(Identity); SVD pseudo-inverse = V * diag(1/sigma) * U^T of the SVD of JtJ_, every singular
      value above the truncation threshold inverted, the threshold not above sigma_max*1e-12 (cond(J) < 1e6 in the quantifier)
  L4  weighted variant: weightJAndY_() runs before the estimate and scales Y_ and every column of J_ by W_ over the same slice
  L5  preconditioner: setPreconditionner(Ac,Bc) stores both, setPreconditionner(Ac) uses Bc = 0 of the estimate size
  L6  effects: the unweighted entries (estimateUsingSVD / estimateUsingCholeskyDecomposition and the helpers they reach) never let the weight
      buffer W_ flow into a member or the result - W_ keeps the weights of an earlier weighted problem (it is reset only when the buffers grow),
      and the unweighted answer is the minimiser of |Jx - Y|, a function of J and Y alone
  L7  semantic instance (E-ALG on a representative instance, analysis/lsmodel.py): the solver is read symbolically on an instance with 5
      allocated rows of which the current problem uses 3 (and a square 2x2 one), 2 parameters, symbolic entries, and JtJ_/JtY_/inverseJtJ_
      holding what an earlier solve left; every path of computeJTJ_/computeJTY_/estimateUsingCholeskyDecomposition/weightedEstimate must give
      J3^T J3, J3^T Y3, A (J3^T J3)^-1 J3^T Y3 + b and A (J3^T W3^2 J3)^-1 J3^T W3^2 Y3 + b exactly (rational-function identity); a result that
      contains a symbol of a stale row, of an earlier solve's matrices or (unweighted entries) of the weights is reported with that symbol.
      When L7 decides a function, an unrecognised *form* of it is no longer reported by L2/L4.
Verdict discipline: a form that is not one of the enumerated idioms is UNDECIDED; VIOLATED needs a fact that holds whatever the form
(a member that no path writes, a buffer that no path reads, a tainted store).
Not decided: residual 'to rounding', agreement of the two paths numerically for given condition numbers."""
from ..tree import sx, walk, pp, short_fn, strip_casts, const_value, children
from .C20 import m, deep_unwrap, contains_name
from .C14 import stmts_sx

LEVEL = 'other'
UNITS = ['src/regression/leastsquares/LeastSquares.cpp']
ENGINES = 'E-STATE + E-SIB + E-ALG over romea-facts'
TECHNIQUE = 'results assigned on branches and the result of a sibling estimator preconditioned again, weights overwritten through a writable view, a lazily formed stored inverse judged through the covariance query on the state the solve left, stored factorisation objects in the solver model, setDataSize stepped on (rows held, requested) pairs, compile-time maximum sizes of the solver matrices, same-value shortcuts of configuring methods (sweep H14), raw factors of the pivoted LDLT, offset of the preconditioner reaching the estimate on every path, one-parameter instance, recorded denominators of the weighted path (nothing divided by a weight alone), diagonal views and machine constants in the instance model, a 131-row instance for rows left out, sub-rounding differences re-evaluated with the design scaled down, SVD path read up to the decomposition on the instance, block-coverage instance (192 rows), NaN results, relative threshold of svd.solve, tolerance shortcuts, sweep of every function read (and its in-repo callees) for frozen function-local statics, single precision inside double computations, lossy copy constructors, presence- or argument-keyed member caches, reference members bound to constructor arguments, loop accumulators that are members, members derived in the constructor and not refreshed by setters, results returned by reference to a member buffer, members filled from an argument under a condition that ignores it, hidden non-virtual base members, self-bound reference members, reductions that accumulate in float; symbolic small-instance model of the solver (concrete sizes, symbolic entries, stale rows and stale matrices as separate symbols, bounded loop unrolling) compared with the closed forms as rational-function identities; effect analysis (weight buffer must not reach the unweighted entries), final stored values of the preconditioner setters, word algebra over J / J^T / J^-1 for every store of the inverse normal matrix; slicing discipline by ancestor-chain analysis of every buffer use on the instantiated AST; must-pass-through and structural agreement of the two solver paths; bound on the singular-value truncation constant'
EXPLANATION = ('Every occurrence of J_, Y_, W_ in the solver functions is classified by its enclosing Eigen view (must restrict to dataSize_ rows); the normal-equation loops, the two solver '
               'paths, the weighting and the preconditioner are matched structurally on normalised expression trees.')
ASSUMPTIONS = ['estimateSize_ <= dataSize_ (quantifier: data size from the estimate size upwards)', 'Eigen head/topRows/block/col/dot/ldlt/JacobiSVD semantics; buffers never shrink (checked: only resize in setDataSize under growth)',
               'cond(J) < 1e6 (quantifier) hence relative singular values of J^T J down to 1e-12 are significant']
LEVEL_TEXT = ('For every history of problem sizes: no solver path can read a row beyond the current problem, both paths build and use the same normal equations, and the weighting/preconditioner '
              'are applied as stated. Numerical accuracy for given condition numbers is not decided.')
LEVEL_NOTE = 'Not decided: residual to rounding, numerical agreement Cholesky/SVD. Trusted: clang front end, extractor, Eigen view semantics.'

DECIDED = set()      # functions of the current class whose semantics L7 has decided
BUFFERS = ('J_', 'Y_', 'W_')
SOLVER = ('estimateUsingCholeskyDecomposition', 'estimateUsingSVD', 'weightedEstimate', 'computeEstimateCovariance', 'weightJAndY_', 'computeJTJ_', 'computeJTY_')
ACCESSORS = ('getJ', 'getY', 'getW')


def uses_with_chain(node, chain=()):
    """Yields (member node, ancestor chain innermost-last) for every this->J_/Y_/W_ occurrence."""
    if node is None:
        return
    if node.get('k') == 'Member' and node.get('name') in BUFFERS and strip_casts(node['base']).get('k') == 'This':
        yield node, chain
        return
    for ch in children(node):
        yield from uses_with_chain(ch, chain + (node,))


def is_datasize(e):
    """a row count that stays inside the current problem: dataSize_, or estimateSize_ (<= dataSize_: the quantifier takes the data size from the estimate size upwards)"""
    e = strip_casts(e)
    return e is not None and e.get('k') == 'Member' and e.get('name') in ('dataSize_', 'estimateSize_') and strip_casts(e['base']).get('k') == 'This'


BOUNDED_LOOP_VARS = set()      # ids of loop variables that run below dataSize_ / estimateSize_ in the function being judged
PASS_THROUGH = ('col', 'array', 'matrix', 'leftCols', 'middleCols', 'rightCols', 'eval', 'noalias', 'derived')
WHOLE_USE = ('transpose', 'adjoint', 'dot', 'sum', 'norm', 'squaredNorm', 'cwiseProduct', 'cwiseQuotient', 'asDiagonal', 'colwise', 'rowwise', 'mean', 'maxCoeff', 'minCoeff', 'rows', 'data',
             'jacobiSvd', 'ldlt', 'llt', 'inverse', 'determinant', 'square', 'abs')


def sliced(member, chain):
    """True: restricted to the first dataSize_ (or estimateSize_) rows by its enclosing views.  False: certainly used whole (the buffer
    reaches an operator, a product or a whole-object method without any row view).  None: a view this rule does not enumerate."""
    anc = [a for a in chain if a.get('k') not in ('Cast', 'DefaultArg')]
    cur = member
    for a in reversed(anc):
        obj = a.get('obj') if a.get('k') == 'MCall' else None
        o = obj
        while o is not None and o.get('k') in ('Cast', 'DefaultArg'):
            o = o['e']
        if a.get('k') == 'Op' and a.get('op') in ('()', '[]') and a.get('args') and strip_casts(a['args'][0]) is cur:
            # element access X(i[, j]): inside the current rows when the row index is a loop variable bounded by dataSize_ / estimateSize_
            idx = strip_casts(a['args'][1]) if len(a['args']) > 1 else None
            if idx is not None and idx.get('k') == 'Ref' and idx.get('id') in BOUNDED_LOOP_VARS:
                return True
            return None
        if a.get('k') != 'MCall' or o is not cur:
            # `cur` is an operand of an operator / an argument of a call: it is used with all its rows
            return False
        name = a.get('m')
        args = a.get('args', [])
        if name == 'data':
            return None              # a raw pointer into the buffer: the rows it reaches are decided by pointer arithmetic this rule does not follow
        if name in ('head', 'topRows') and len(args) == 1:
            return True if is_datasize(args[0]) else None
        if name == 'segment' and len(args) == 2:
            return True if const_value(args[0]) == 0 and is_datasize(args[1]) else None
        if name == 'block' and len(args) == 4:
            return True if const_value(args[0]) == 0 and is_datasize(args[2]) else None
        if name in ('topLeftCorner', 'topRightCorner') and len(args) == 2:
            return True if is_datasize(args[0]) else None
        if name == 'row' and len(args) == 1:
            idx = strip_casts(args[0])
            return True if idx.get('k') == 'Ref' and idx.get('id') in BOUNDED_LOOP_VARS else None
        if name in PASS_THROUGH:
            cur = a
            continue
        if name in WHOLE_USE:
            return False
        return None
    return False


ASSIGN_OPS = ('=', '+=', '-=', '*=', '/=')


def root_name(t):
    while isinstance(t, tuple) and len(t) > 1:
        t = t[1]
    return t if isinstance(t, str) else None


def names_in(t, acc=None):
    acc = set() if acc is None else acc
    if isinstance(t, str):
        acc.add(t)
    elif isinstance(t, tuple):
        for x in t:
            names_in(x, acc)
    return acc


def effects(fx, cq, f, seen=None):
    """(reads, writes, tainted_stores) over this-members of f and of the member functions of the same class it calls (transitively).
    tainted_stores: statements in which W_ (or a local initialised from it) appears and a member is written or a value is returned."""
    seen = set() if seen is None else seen
    if f is None or f.get('body') is None or f['q'] + f['sig'] in seen:
        return set(), set(), []
    seen.add(f['q'] + f['sig'])
    reads, writes, tainted = set(), set(), []
    taint_locals = set()
    for s in stmts_sx(f):
        kind, t = s[0], s[-1]
        ns = names_in(t)
        mem = {n for n in ns if n.startswith('this.')}
        w_here = set()
        def scan(u):
            if isinstance(u, tuple):
                if u and u[0] in ASSIGN_OPS and len(u) == 3:
                    r = root_name(u[1])
                    if r and r.startswith('this.'):
                        w_here.add(r)
                elif u and isinstance(u[0], str) and u[0] in ('.resize', '.conservativeResize', '.setZero', '.setOnes', '.setConstant', '.setIdentity', '.fill', '.swap', 'u++', 'u--', '++u', '--u') and len(u) > 1:
                    r = root_name(u[1])
                    if r and r.startswith('this.'):
                        w_here.add(r)
                for x in u:
                    scan(x)
        scan(t)
        writes |= w_here
        reads |= mem
        has_w = 'this.W_' in ns or bool(ns & taint_locals)
        if kind == 'decl' and has_w:
            taint_locals.add(s[1])
        if has_w and (kind == 'return' or (w_here - {'this.W_'})):
            tainted.append((f['name'], s))
        # calls to members of the same class
        def calls(u):
            if isinstance(u, tuple):
                if u and isinstance(u[0], str) and u[0].startswith('.') and len(u) >= 2 and u[1] == 'this':
                    yield u[0][1:], len(u) - 2
                for x in u:
                    yield from calls(x)
        for (callee, nargs) in calls(t):
            for g in fx.fn(cq + '::' + callee):
                if len(g['params']) != nargs:
                    continue
                r2, w2, t2 = effects(fx, cq, g, seen)
                reads |= r2
                writes |= w2
                tainted += t2
    return reads, writes, tainted


SV = {'ratio': 1e-12, 'why': 'with cond(J) < 1e6 (quantifier) the singular values of J^T J legitimately span a ratio of 1e12'}


def run(fx, R, tier, sv_ratio=1e-12, sv_why='with cond(J) < 1e6 (quantifier) the singular values of J^T J legitimately span a ratio of 1e12'):
    SV['ratio'], SV['why'] = sv_ratio, sv_why
    classes = sorted(q for q in fx.records if q.startswith('romea::core::LeastSquares<'))
    if len(classes) != 2:
        R.undecided('L1', 'LeastSquares', 'float and double instantiations expected, found %s' % classes)
    R.floor('L1', 20)
    for cq in classes:
        cname = short_fn(cq)
        # ---- L1 --------------------------------------------------------------
        rec = fx.records[cq]
        for mth in rec['methods']:
            if mth.get('ctor') or mth['name'].startswith('~') or mth.get('implicit'):
                continue
            for f in fx.fn(mth['q']):
                if f.get('body') is None or f['sig'] != mth['sig']:
                    continue
                if mth['name'] in ACCESSORS or mth['name'] in ('setDataSize', 'setEstimateSize'):
                    continue
                R.used(f)
                BOUNDED_LOOP_VARS.clear()
                for L_ in walk(f['body']):
                    if L_.get('k') == 'For' and L_.get('init') and L_['init'].get('k') == 'Decl' and L_['init']['vars'] and L_.get('c') is not None:
                        c_ = strip_casts(L_['c'])
                        if c_.get('k') == 'Bin' and c_.get('op') == '<' and strip_casts(c_['l']).get('id') == L_['init']['vars'][0]['id'] and is_datasize(c_['r']):
                            BOUNDED_LOOP_VARS.add(L_['init']['vars'][0]['id'])
                for (mem, chain) in uses_with_chain(f['body']):
                    inst = '%s::%s:%s' % (cname, f['name'], mem['name'])
                    sl = sliced(mem, chain)
                    if sl:
                        R.holds('L1', inst + '@' + fx.rel(mem['loc']).split(':', 1)[1], 'restricted to the first dataSize_ rows', fx.rel(mem['loc']), 'E-STATE')
                    elif sl is None:
                        R.undecided('L1', inst + '@' + fx.rel(mem['loc']).split(':', 1)[1], '%s is used through a view this rule does not enumerate: `%s`' % (mem['name'], pp(chain[-1]) if chain else mem['name']))
                    else:
                        top = next((a for a in chain if a.get('k') in ('Expr', 'Return', 'Decl')), None)
                        R.violated('L1', inst + ':unsliced', '%s is used without restriction to the first dataSize_ rows in %s(): `%s` - the buffers never shrink, so after a larger problem '
                                   'this reads rows of the earlier one' % (mem['name'], f['name'], pp(chain[-1]) if chain else mem['name']), fx.rel(mem['loc']), 'E-STATE')
        DECIDED.clear()
        check_instance(fx, R, cq, cname)
        check_shortcuts(fx, R, cq, cname)
        check_set_data_size(fx, R, cq, cname)
        check_workspaces(fx, R, cq, cname)
        check_ldlt_factors(fx, R, cq, cname)
        for g_ in fx.fn(cq + '::setEstimateSize'):
            R.used(g_)                    # the other configuration call of a sequence of problems: swept for state it leaves behind
        check_normal(fx, R, cq, cname)
        check_paths(fx, R, cq, cname)
        check_weight_precond(fx, R, cq, cname)


def check_set_data_size(fx, R, cq, cname):
    f = fx.one(cq + '::setDataSize')
    if f is None:
        R.undecided('L1', cname + '::setDataSize', 'anchor vanished')
        return
    R.used(f)
    body = f['body']['s']
    first = [s for s in body if s['k'] == 'Expr']
    def is_assign(e):
        t = deep_unwrap(sx(e))
        return isinstance(t, tuple) and len(t) == 3 and t[:2] == ('=', 'this.dataSize_') and contains_name(t[2], 'dataSize')
    uncond = any(is_assign(s['e']) for s in first)
    R.check(uncond, 'L1', cname + '::setDataSize:assigns', 'dataSize_ is not assigned from the argument unconditionally (on the no-growth path the previous size would stay)',
            'dataSize_ assigned on every path', fx.rel(f['loc']), 'E-STATE')
    check_capacity(fx, R, cq, cname, f)
    # buffers only grow here
    shr = []
    rec = fx.records[cq]
    for mth in rec['methods']:
        for g in fx.fn(mth['q']):
            if g.get('body') is None or g.get('ctor'):
                continue
            for x in walk(g['body']):
                if x.get('k') == 'MCall' and x.get('m') in ('resize', 'conservativeResize', 'setZero', 'setConstant', 'setOnes') and strip_casts(x['obj']).get('name') in BUFFERS:
                    bname = strip_casts(x['obj']).get('name')
                    # a resize that keeps the buffer's own number of rows (X.resize(X.rows(), n)) only changes the columns: row discipline untouched
                    a0 = deep_unwrap(sx(x['args'][0])) if x.get('m') in ('resize', 'conservativeResize') and len(x.get('args', [])) == 2 else None
                    if a0 == ('.rows', 'this.' + bname):
                        continue
                    shr.append((g['name'], x.get('m'), bname))
    only = all(n == 'setDataSize' for (n, _, _) in shr)
    R.form(only, 'L1', cname + ':buffer-resizes', 'row buffers are resized/reset outside setDataSize (%s); what that does to the rows of the current problem is judged by the instance rule L7 only for the paths it '
           'reads' % [t_ for t_ in shr if t_[0] != 'setDataSize'], 'row buffers resized only in setDataSize (column-only resizes elsewhere)', fx.rel(f['loc']), 'E-STATE')


def check_ldlt_factors(fx, R, cq, cname):
    """L3 (contract fact): Eigen::LDLT is a PIVOTED factorisation, A = P^T L D L^T P.  matrixL() / matrixU() / vectorD() used without transpositionsP() rebuild P A P^T (or its inverse): a
    symmetric permutation of the matrix that is wanted - same eigenvalues, entries attached to other parameters."""
    rec = fx.records.get(cq) or {}
    n = 0
    for mth in rec.get('methods', []):
        for g in fx.fn(mth['q']):
            if g.get('body') is None:
                continue
            uses = [y for y in walk(g['body']) if isinstance(y, dict) and y.get('k') == 'MCall' and y.get('m') in ('matrixL', 'matrixU', 'vectorD', 'matrixLDLT') and 'LDLT' in ((y.get('cls') or '') + pp(y.get('obj')))]
            perm = [y for y in walk(g['body']) if isinstance(y, dict) and y.get('k') == 'MCall' and y.get('m') in ('transpositionsP', 'reconstructedMatrix')]
            if not uses:
                continue
            n += 1
            if perm:
                R.undecided('L3', '%s::%s:ldlt-factors' % (cname, g['name']), 'the factors of an LDLT are used together with its transpositions: the product is not checked')
            else:
                R.violated('L3', '%s::%s:ldlt-permutation-ignored' % (cname.split('<')[0], g['name']), '%s() uses %s of an Eigen::LDLT and never its transpositionsP(): Eigen\'s LDLT is pivoted, A = P^T L D L^T P, so a matrix '
                           'assembled from L and D alone is that of P A P^T - here a symmetric PERMUTATION of (J^T J)^-1.  It is symmetric, positive definite and of the right size, but its entries belong to other '
                           'parameters whenever the factorisation pivots (a later parameter with a larger normal-matrix diagonal): the covariance reported afterwards is not data variance times the inverse normal '
                           'matrix.  ldlt.solve() applies the permutation itself, which is why the estimate is unaffected' % (g['name'], ', '.join(sorted({y['m'] + '()' for y in uses}))), fx.rel(uses[0].get('loc') or g['loc']), 'E-ALG')
    if not n:
        R.holds('L3', cname + ':ldlt-factors', 'no method rebuilds a matrix from the raw factors of a pivoted LDLT', None, 'E-ALG')


def check_workspaces(fx, R, cq, cname):
    """L1 (type fact): a dynamic Eigen matrix with a compile-time MAXIMUM size (Matrix<T, Dynamic, Dynamic, Options, MaxRows, MaxCols>) used by the solver must be able to hold the problems of the
    quantifier: estimate sizes up to 8 (normal matrix 8x8, estimate 8x1).  Eigen checks the bound with an assertion only; the library is built with NDEBUG."""
    import re
    found = []
    rec = fx.records.get(cq) or {}
    types = [((fl_.get('t') or {}).get('s', ''), 'member ' + fl_['name'], None) for fl_ in rec.get('fields', [])]
    for mth in rec.get('methods', []):
        for g in fx.fn(mth['q']):
            if g.get('body') is None:
                continue
            for x in walk(g['body']):
                if isinstance(x, dict) and x.get('k') == 'Decl':
                    for v in x['vars']:
                        types.append(((v.get('t') or {}).get('s', ''), 'local `%s` of %s()' % (v['name'], g['name']), x.get('loc')))
    for (ts, what, loc_) in types:
        for mm in re.finditer(r'Eigen::Matrix<[^<>]*?, (-?\d+), (-?\d+), \d+, (-?\d+), (-?\d+)>', ts):
            r_, c_, mr, mc = (int(mm.group(k_)) for k_ in (1, 2, 3, 4))
            caps = [(n_, m_) for (n_, m_) in ((r_, mr), (c_, mc)) if n_ == -1 and m_ != -1]
            if caps and min(m_ for (_n, m_) in caps) < 8:
                found.append((what, mm.group(0), min(m_ for (_n, m_) in caps), loc_))
    if found:
        what, ty, cap, loc_ = found[0]
        R.violated('L1', cname.split('<')[0] + ':workspace-capacity', '%s has the type %s: a dynamic matrix whose storage is a fixed buffer of at most %d rows / columns.  The quantifier has estimate sizes up to 8 '
                   '(an 8x8 normal matrix): for sizes above %d the decomposition writes beyond that buffer - Eigen checks the bound with an assertion only and the library is built with NDEBUG - so the result is '
                   'whatever the overrun leaves (typically a crash); sizes up to %d are unchanged' % (what, ty, cap, cap, cap), fx.rel(loc_) if loc_ else None, 'E-INT')
    else:
        R.holds('L1', cname + ':workspace-capacity', 'no matrix of the solver has a compile-time maximum size below the 8 parameters of the quantifier (%d declarations read)' % len(types), None, 'E-INT')


def check_capacity(fx, R, cq, cname, f):
    """L1 (E-STEP): setDataSize(n) stepped on witness (rows held before, n): afterwards every row buffer holds at least n rows (the caller fills rows 0..n-1 through getJ/getY/getW next) and
    dataSize_ is n.  Buffers: J_, Y_, W_; `rows()` / `size()` of a buffer is its row count, resize() sets it."""
    from .. import mini
    bufs = ['this.' + b for b in BUFFERS]
    bad = why = None
    n_w = 0
    pn = f['params'][0]['name']
    for (held, n_) in ((0, 5), (5, 5), (5, 3), (3, 5), (1, 2), (6, 131), (131, 6)):
        rows = {b: held for b in bufs}
        S_ = mini.Step(deep_unwrap)
        S_.hooks['.rows'] = lambda t, env: rows[t[1]] if t[1] in rows else (_ for _ in ()).throw(mini.Unsupported('rows of %s' % (t[1],)))
        S_.hooks['.size'] = S_.hooks['.rows']
        S_.hooks['.cols'] = lambda t, env: 2

        def resize(t, env):
            if t[1] not in rows:
                raise mini.Unsupported('resize of %s' % (t[1],))
            rows[t[1]] = S_.ev(t[2], env)
            return 0
        S_.hooks['.resize'] = resize
        S_.hooks['.conservativeResize'] = resize
        for h_ in ('.setConstant', '.setZero', '.setOnes', '.fill'):
            S_.hooks[h_] = lambda t, env: 0
        env = {pn: n_, 'this.estimateSize_': 2, 'this.dataSize_': held}
        try:
            S_.call(f['body'], env)
        except (mini.Unsupported, TypeError, KeyError) as u:
            why = str(u)[:140]
            break
        n_w += 1
        short = [b for b in bufs if not (isinstance(rows[b], (int, float)) and rows[b] >= n_)]
        if short and bad is None:
            bad = (held, n_, short[0], rows[short[0]])
        elif env.get('this.dataSize_') != n_ and bad is None:
            bad = (held, n_, 'this.dataSize_', env.get('this.dataSize_'))
    if why:
        R.undecided('L1', cname + '::setDataSize:capacity', 'setDataSize() is not steppable: %s' % why)
    elif bad and bad[2] == 'this.dataSize_':
        R.violated('L1', cname.split('<')[0] + '::setDataSize:size', 'stepping setDataSize(%d) on buffers of %d rows leaves dataSize_ = %s' % (bad[1], bad[0], bad[3]), fx.rel(f['loc']), 'E-STEP')
    elif bad:
        R.violated('L1', cname.split('<')[0] + '::setDataSize:capacity', 'stepping setDataSize(%d) on an object whose row buffers hold %d rows leaves %s with %s rows: the caller fills rows 0..%d next (getJ / getY / getW), '
                   'beyond the end of the buffer - the problem solved is not the one that was set up (out-of-bounds writes; an Eigen assertion in a debug build)' % (bad[1], bad[0], bad[2][5:], bad[3], bad[1] - 1),
                   fx.rel(f['loc']), 'E-STEP')
    else:
        R.holds('L1', cname + '::setDataSize:capacity', 'on %d witness (rows held, requested) pairs every row buffer ends with at least the requested rows and dataSize_ is the request' % n_w, fx.rel(f['loc']), 'E-STEP')


def loop_header(L):
    init = L.get('init')
    v = init['vars'][0] if init and init['k'] == 'Decl' and len(init['vars']) == 1 else None
    if v is None:
        return None
    return (v['name'], deep_unwrap(sx(v['init'])), deep_unwrap(sx(L['c'])), deep_unwrap(sx(L['inc'])))


def check_normal(fx, R, cq, cname):
    fj, fy = fx.one(cq + '::computeJTJ_'), fx.one(cq + '::computeJTY_')
    if fj is None or fy is None:
        R.undecided('L2', cname, 'computeJTJ_/computeJTY_ vanished')
        return
    R.used(fj, fy)
    loops = [x for x in walk(fj['body']) if x.get('k') == 'For']
    hs = [loop_header(L) for L in loops]
    ex = [deep_unwrap(sx(x['e'])) for x in walk(fj['body']) if x.get('k') == 'Expr']
    ok = False
    if len(hs) == 2 and None not in hs:
        (i, i0, ic, ii), (j, j0, jc, ji) = hs
        col = lambda k: ('.head', ('.col', 'this.J_', k), 'this.dataSize_')
        full_i = i0 == 0 and ic == ('<', i, 'this.estimateSize_') and ii == ('u++', i)
        tri_j = j0 in (i, 0) and jc == ('<', j, 'this.estimateSize_') and ji == ('u++', j)
        dot = ('.dot', col(i), col(j))
        dot2 = ('.dot', col(j), col(i))
        body_ok = len(ex) == 1 and (
            ex[0] in (('=', ('()', 'this.JtJ_', i, j), ('=', ('()', 'this.JtJ_', j, i), dot)), ('=', ('()', 'this.JtJ_', j, i), ('=', ('()', 'this.JtJ_', i, j), dot)),
                      ('=', ('()', 'this.JtJ_', i, j), ('=', ('()', 'this.JtJ_', j, i), dot2)), ('=', ('()', 'this.JtJ_', j, i), ('=', ('()', 'this.JtJ_', i, j), dot2))))
        ok = full_i and tri_j and body_ok
    if ok:
        R.holds('L2', cname + '::computeJTJ_', 'JtJ(i,j)=JtJ(j,i)=col_i.col_j over the upper triangle, mirrored', fx.rel(fj['loc']), 'E-ALG')
    elif 'computeJTJ_' in DECIDED:
        R.holds('L2', cname + '::computeJTJ_', 'form not enumerated; semantics decided by L7 on the representative instance', fx.rel(fj['loc']), 'E-ALG')
    else:
        R.undecided('L2', cname + '::computeJTJ_', 'normal-matrix loop idiom not recognised: %s %s' % (hs, ex))
    loops = [x for x in walk(fy['body']) if x.get('k') == 'For']
    hs = [loop_header(L) for L in loops]
    ex = [deep_unwrap(sx(x['e'])) for x in walk(fy['body']) if x.get('k') == 'Expr']
    ok = False
    if len(hs) == 1 and hs[0] is not None:
        (i, i0, ic, ii) = hs[0]
        ok = i0 == 0 and ic == ('<', i, 'this.estimateSize_') and ii == ('u++', i) and ex == [('=', ('()', 'this.JtY_', i), ('.dot', ('.head', ('.col', 'this.J_', i), 'this.dataSize_'), ('.head', 'this.Y_', 'this.dataSize_')))]
    if ok:
        R.holds('L2', cname + '::computeJTY_', 'JtY(i) = col_i . Y over all i', fx.rel(fy['loc']), 'E-ALG')
    elif 'computeJTY_' in DECIDED:
        R.holds('L2', cname + '::computeJTY_', 'form not enumerated; semantics decided by L7 on the representative instance', fx.rel(fy['loc']), 'E-ALG')
    else:
        R.undecided('L2', cname + '::computeJTY_', 'idiom not recognised: %s %s' % (hs, ex))


def jword(t, locs, depth=0):
    """expression -> list of (J, power, transposed) factors if it is a product of J-slices, their inverses and transposes; None otherwise."""
    if depth > 6:
        return None
    if isinstance(t, str):
        if t in locs and locs[t] is not None:
            return jword(locs[t], locs, depth + 1)
        return [('J', 1, False)] if t == 'this.J_' else None
    if not isinstance(t, tuple) or not t:
        return None
    op = t[0]
    if op == '*' and len(t) == 3:
        a, b = jword(t[1], locs, depth + 1), jword(t[2], locs, depth + 1)
        return None if a is None or b is None else a + b
    if op == '.transpose' and len(t) == 2:
        a = jword(t[1], locs, depth + 1)
        return None if a is None else [(n, p, not tr) for (n, p, tr) in reversed(a)]
    if op == '.inverse' and len(t) == 2:
        a = jword(t[1], locs, depth + 1)
        return None if a is None else [(n, -p, tr) for (n, p, tr) in reversed(a)]
    if op in ('.topLeftCorner', '.topRows', '.block', '.leftCols') and len(t) >= 2:
        return jword(t[1], locs, depth + 1)
    if isinstance(op, str) and op.startswith('new:Eigen::Matrix') and len(t) == 2:
        return jword(t[1], locs, depth + 1)
    return None


RET = ('+', ('*', ('*', 'this.Ac_', 'this.inverseJtJ_'), 'this.JtY_'), 'this.Bc_')
RET2 = ('+', ('*', 'this.Ac_', ('*', 'this.inverseJtJ_', 'this.JtY_')), 'this.Bc_')


def check_paths(fx, R, cq, cname):
    fc, fs = fx.one(cq + '::estimateUsingCholeskyDecomposition'), fx.one(cq + '::estimateUsingSVD')
    if fc is None or fs is None:
        R.undecided('L3', cname, 'estimate functions vanished')
        return
    R.used(fc, fs)
    for (f, tag) in ((fc, 'cholesky'), (fs, 'svd')):
        st = stmts_sx(f)
        inst = '%s::%s' % (cname, f['name'])
        calls = [s[1] for s in st if s[0] == 'expr']
        # normal equations built by the shared helpers before any use of JtJ_/JtY_
        idx_j = next((n for n, s in enumerate(st) if s == ('expr', ('.computeJTJ_', 'this'))), None)
        idx_y = next((n for n, s in enumerate(st) if s == ('expr', ('.computeJTY_', 'this'))), None)
        first_use_j = next((n for n, s in enumerate(st) if contains_name(s, 'this.JtJ_')), None)
        first_use_y = next((n for n, s in enumerate(st) if contains_name(s, 'this.JtY_')), None)
        okj = idx_j is not None and (first_use_j is None or idx_j < first_use_j)
        oky = idx_y is not None and (first_use_y is None or idx_y < first_use_y)
        if okj and oky:
            R.holds('L3', inst + ':normal-equations', 'computeJTJ_() and computeJTY_() precede every use of JtJ_/JtY_', fx.rel(f['loc']), 'E-STATE')
        else:
            other = [s for s in st if (contains_name(s, 'this.JtJ_') or contains_name(s, 'this.JtY_')) and s[0] == 'expr' and isinstance(s[1], tuple) and s[1][0] != '=']
            R.violated('L3', inst + ':normal-equations', 'this path does not build %s with the shared helper before using it (%s): the two solver paths then solve different normal equations' % (
                'J^T J' if not okj else 'J^T Y', [s[1] for s in st if contains_name(s, 'this.JtJ_')][:1]), fx.rel(f['loc']), 'E-STATE')
        rets = [s[1] for s in st if s[0] == 'return']
        # locals standing for a sub-expression (`Vector estimate = inverseJtJ_ * JtY_;`) are resolved before the returned expressions are judged
        locs_ = {s_[1]: s_[2] for s_ in st if s_[0] == 'decl' and s_[2] is not None}

        def resolve(t, depth=0):
            if isinstance(t, str) and t in locs_ and depth < 4:
                return resolve(locs_[t], depth + 1)
            if isinstance(t, tuple):
                return tuple(resolve(y_, depth) if n_ else y_ for n_, y_ in enumerate(t))
            return t
        rres = [resolve(r_) for r_ in rets]
        # a local the result is built from may be ASSIGNED on several branches (`estimate = ...` in an if / else): each assigned form gives one variant of the returned expression
        assigned = {}
        for s_ in st:
            if s_[0] == 'expr' and isinstance(s_[1], tuple) and len(s_[1]) == 3 and s_[1][0] == '=' and isinstance(s_[1][1], str) and not s_[1][1].startswith('this.'):
                assigned.setdefault(s_[1][1], []).append(s_[1][2])
        if assigned:
            def subst(t, nm, v):
                if t == nm:
                    return v
                if isinstance(t, tuple):
                    return tuple(subst(y_, nm, v) if n_ else y_ for n_, y_ in enumerate(t))
                return t
            for nm in assigned:
                locs_.pop(nm, None)                  # `Vector estimate;` followed by assignments: the declaration is not the value
            variants = [resolve(r_) for r_ in rets]
            for nm, vs in assigned.items():
                variants = [subst(r_, nm, resolve(v_)) for r_ in variants for v_ in vs] if any(contains_name(r_, nm) for r_ in variants) else variants
            twice = None
            for v_ in variants:
                def sibling(t):
                    if isinstance(t, tuple):
                        if t and isinstance(t[0], str) and t[0].startswith('.estimateUsing') and len(t) == 2 and t[1] == 'this':
                            return t[0].lstrip('.')
                        for y_ in t:
                            r__ = sibling(y_)
                            if r__:
                                return r__
                    return None
                sb = sibling(v_)
                if sb and (contains_name(v_, 'this.Ac_') or contains_name(v_, 'this.Bc_')):
                    sib_f = fx.one(cq + '::' + sb)
                    sib_rets = [s2_[1] for s2_ in stmts_sx(sib_f) if s2_[0] == 'return'] if sib_f is not None else []
                    if sib_rets and all(contains_name(r2_, 'this.Ac_') or contains_name(r2_, 'this.Bc_') for r2_ in sib_rets):
                        twice = (sb, v_)
            if twice:
                R.violated('L3', inst + ':result:preconditioner-twice', 'on the path where the result is taken from %s() the function returns `%s`: %s() already returns A x + b, so the caller gets A (A x + b) + b - the '
                           'configured preconditioner is applied twice (identity preconditioners hide it).  That path is selected by a run-time test (conditioning of the normal matrix), so the two solver paths '
                           'agree for well-conditioned problems only' % (twice[0], str(twice[1])[:120], twice[0]), fx.rel(f['loc']), 'E-SIB')
                rres = []
                rets = []
            else:
                rres = variants
        guards = [s_[1] for s_ in st if s_[0] == 'if']
        partial = [r_ for r_ in rres if not contains_name(r_, 'this.Bc_') and contains_name(r_, 'this.inverseJtJ_') and contains_name(r_, 'this.JtY_')]
        full = [r_ for r_ in rres if all(contains_name(r_, n_) for n_ in ('this.Ac_', 'this.Bc_', 'this.inverseJtJ_', 'this.JtY_'))]
        if rets in ([RET], [RET2]):
            R.holds('L3', inst + ':result', 'x = A (JtJ)^-1 JtY + b', fx.rel(f['loc']), 'E-SIB')
        elif partial and full and guards:
            ridx = next((n_ for n_, s_ in enumerate(st) if s_[0] == 'return' and resolve(s_[1]) == partial[0]), len(st))
            gtxt = next((s_[1] for s_ in reversed(st[:ridx]) if s_[0] == 'if'), guards[0])
            R.violated('L3', inst + ':result:offset-dropped', 'one return of this function is `%s` (under `%s`) - the solution of the normal equations WITHOUT the offset Bc_ - next to the full `A x + b`: on that path a '
                       'configured preconditioner offset is not applied (setPreconditionner(I, b) with b != 0 returns x instead of x + b)' % (str(partial[0])[:100], str(gtxt)[:80]), fx.rel(f['loc']), 'E-SIB')
        else:
            absent = [n for n in ('this.Ac_', 'this.Bc_', 'this.inverseJtJ_', 'this.JtY_') if rres and not any(contains_name(r, n) for r in rres)]
            # `decomposition(JtJ_).solve(JtY_)` applies the inverse of the normal matrix without naming the stored inverse
            def solves_normal(t):
                if isinstance(t, tuple):
                    if t and t[0] == '.solve' and len(t) == 3 and contains_name(t[2], 'this.JtY_') and (contains_name(t[1], 'this.JtJ_') or (isinstance(t[1], str) and t[1].startswith('this.'))):
                        return True          # a stored factorisation object: which matrix it holds is decided by value (L7, closed form on the instances)
                    return any(solves_normal(y_) for y_ in t)
                return False
            if 'this.inverseJtJ_' in absent and rres and all(solves_normal(r_) for r_ in rres):
                absent.remove('this.inverseJtJ_')
                if not absent:
                    R.holds('L3', inst + ':result', 'x = A solve(JtJ, JtY) + b (the factorisation is applied directly)', fx.rel(f['loc']), 'E-SIB')
            if not rres:
                pass
            elif not absent and rres and all(solves_normal(r_) for r_ in rres):
                pass
            elif absent:
                R.violated('L3', inst + ':result', 'the returned expression %s does not use %s: the %s is not applied on this path' % (
                    rets, absent, 'preconditioner' if absent[0] in ('this.Ac_', 'this.Bc_') else 'solution of the normal equations'), fx.rel(f['loc']), 'E-SIB')
            else:
                R.undecided('L3', inst + ':result', 'returns %s, not one of the enumerated forms of Ac_*inverseJtJ_*JtY_ + Bc_' % (rets,))
    stc = stmts_sx(fc)
    inv = [s[1] for s in stc if s[0] == 'expr' and isinstance(s[1], tuple) and s[1][:2] == ('=', 'this.inverseJtJ_')]
    # stores of inverseJtJ_ built from an inverse of (a slice of) J itself: word algebra over J, J^T, J^-1, J^-T
    locs = {s[1]: s[2] for s in stc if s[0] == 'decl'}
    extra = []
    for st_ in list(inv):
        w = jword(st_[2], locs)
        if w is not None:
            inv.remove(st_)
            extra.append((st_, w))
    for (st_, w) in extra:
        if w == [('J', -1, False), ('J', -1, True)]:
            R.holds('L3', cname + '::estimateUsingCholeskyDecomposition:inverse(square)', 'J^-1 J^-T = (J^T J)^-1', fx.rel(fc['loc']), 'E-ALG')
        elif w == [('J', -1, True), ('J', -1, False)]:
            R.violated('L3', cname + '::estimateUsingCholeskyDecomposition:inverse(square)', 'a path stores inverseJtJ_ = J^-T J^-1 = (J J^T)^-1 (`%s`); the covariance of the estimate is built on (J^T J)^-1 = J^-1 J^-T, '
                       'which differs whenever J is not normal (same eigenvalues, other entries: the variances are attributed to the wrong parameters)' % (st_[2],), fx.rel(fc['loc']), 'E-ALG')
        else:
            R.undecided('L3', cname + '::estimateUsingCholeskyDecomposition:inverse(square)', 'product of J factors %s not decided' % (w,))
    okc = len(inv) == 1 and m(('=', 'this.inverseJtJ_', ('.solve', ({'.ldlt', '.llt'}, 'this.JtJ_'), ('Eigen::MatrixBase<$M>::Identity', 'this.estimateSize_', 'this.estimateSize_'))), inv[0], {}) or \
        (len(inv) == 1 and isinstance(inv[0][2], tuple) and inv[0][2][0] == '.solve' and inv[0][2][1] in (('.ldlt', 'this.JtJ_'), ('.llt', 'this.JtJ_')) and 'Identity' in str(inv[0][2][2]))
    if okc:
        R.holds('L3', cname + '::estimateUsingCholeskyDecomposition:inverse', 'inverse = JtJ_.ldlt().solve(Identity)', fx.rel(fc['loc']), 'E-SIB')
    else:
        R.undecided('L3', cname + '::estimateUsingCholeskyDecomposition:inverse', 'inverse idiom not recognised: %s' % (inv,))
    # SVD pseudo-inverse
    sts = stmts_sx(fs)
    svd = [s for s in sts if s[0] == 'decl' and isinstance(s[2], tuple) and str(s[2][0]).startswith('new:Eigen::JacobiSVD')]
    if len(svd) != 1 or svd[0][2][1] != 'this.JtJ_':
        R.undecided('L3', cname + '::estimateUsingSVD:svd', 'SVD of JtJ_ not found: %s' % (svd,))
        return
    sv = svd[0][1]
    want_diag = ('expr', ('=', 'this.inverseJtJ_', ('.asDiagonal', ('.singularValues', sv))))
    want_prod = ('expr', ('=', 'this.inverseJtJ_', ('*', ('*', ('.matrixV', sv), 'this.inverseJtJ_'), ('.transpose', ('.matrixU', sv)))))
    if want_diag in sts and want_prod in sts and sts.index(want_diag) < sts.index(want_prod):
        R.holds('L3', cname + '::estimateUsingSVD:pinv', 'V diag(1/sigma) U^T', fx.rel(fs['loc']), 'E-SIB')
    elif [s_ for s_ in sts if s_[0] == 'expr' and isinstance(s_[1], tuple) and s_[1][:2] == ('=', 'this.inverseJtJ_') and isinstance(s_[1][2], tuple) and s_[1][2][:2] == ('.solve', sv) and 'Identity' in str(s_[1][2][2])]:
        R.holds('L3', cname + '::estimateUsingSVD:pinv', 'inverse = svd.solve(Identity) of the SVD of JtJ_', fx.rel(fs['loc']), 'E-SIB')
    else:
        R.undecided('L3', cname + '::estimateUsingSVD:pinv', 'pseudo-inverse is not in the enumerated form V * diag(f(sigma)) * U^T: %s' % [s[1] for s in sts if s[0] == 'expr' and contains_name(s, 'this.inverseJtJ_')])
    loops = [x for x in walk(fs['body']) if x.get('k') == 'For']
    inst = cname + '::estimateUsingSVD:truncation'
    solve_form = [s_ for s_ in sts if s_[0] == 'expr' and isinstance(s_[1], tuple) and s_[1][:2] == ('=', 'this.inverseJtJ_') and isinstance(s_[1][2], tuple) and s_[1][2][:2] == ('.solve', sv)
                  and 'Identity' in str(s_[1][2][2])]
    if not loops and solve_form:
        # inverse = svd.solve(Identity): Eigen drops the singular values below threshold() * (largest one); the default threshold is
        # max(rows, cols) * machine epsilon, setThreshold(c) replaces it
        thr = None
        for x_ in walk(fs['body']):
            if isinstance(x_, dict) and x_.get('k') == 'MCall' and x_.get('m') == 'setThreshold' and x_.get('args'):
                thr = const_value(x_['args'][0])
                thr_loc = x_.get('loc')
        if thr is None and not any(isinstance(x_, dict) and x_.get('k') == 'MCall' and x_.get('m') == 'setThreshold' for x_ in walk(fs['body'])):
            R.holds('L3', inst, 'svd.solve(Identity) with Eigen\'s default threshold (size * machine epsilon, relative)', fx.rel(fs['loc']), 'E-INT')
        elif isinstance(thr, float):
            R.check(thr <= SV['ratio'], 'L3', inst, 'svd.solve() drops the singular values below sigma_max * %.3g (setThreshold); %s, so well-determined directions are dropped from the solution and from the '
                    'inverse normal matrix the covariance is built on' % (thr, SV['why']), 'relative threshold %.3g <= %g' % (thr, SV['ratio']), fx.rel(thr_loc or fs['loc']), 'E-INT')
        else:
            R.undecided('L3', inst, 'setThreshold argument is not a constant')
        return
    if len(loops) != 1 or loop_header(loops[0]) is None:
        R.undecided('L3', inst, 'singular-value loop not found')
        return
    (n, n0, nc, ni) = loop_header(loops[0])
    full = n0 == 0 and nc == ('<', n, 'this.estimateSize_') and ni == ('u++', n)
    ifs = [x for x in walk(loops[0]['b']) if x.get('k') == 'If']
    body = [deep_unwrap(sx(x['e'])) for x in walk(loops[0]['b']) if x.get('k') == 'Expr']
    d = ('()', 'this.inverseJtJ_', n, n)
    if not full or len(ifs) != 1:
        R.undecided('L3', inst, 'loop/if idiom not recognised')
        return
    cond = deep_unwrap(sx(ifs[0]['c']))
    inv_stmt = ('=', d, ('/', 1, d))
    then_b = [deep_unwrap(sx(x['e'])) for x in walk(ifs[0]['t']) if x.get('k') == 'Expr']
    else_b = [deep_unwrap(sx(x['e'])) for x in walk(ifs[0].get('e')) if x.get('k') == 'Expr'] if ifs[0].get('e') else []
    if not (isinstance(cond, tuple) and cond[0] == '>' and cond[1] == d and then_b == [inv_stmt]):
        R.undecided('L3', inst, 'inversion idiom not recognised: if %s then %s' % (cond, then_b))
        return
    # threshold analysis
    thr_node = strip_casts(ifs[0]['c'])['r']
    cv = const_value(thr_node)
    scalar_eps = 1.1920928955078125e-07 if 'float' in cq else 2.220446049250313e-16
    if cv is not None:
        R.check(cv <= scalar_eps * 1.0000001, 'L3', inst, 'singular values up to the absolute constant %s are not inverted (machine epsilon is %s)' % (cv, scalar_eps),
                'absolute threshold %s <= machine epsilon' % cv, fx.rel(ifs[0]['loc']), 'E-INT')
    else:
        k = relative_factor(fs, thr_node)
        if k is None:
            R.undecided('L3', inst, 'truncation threshold `%s` is neither a constant nor sigma_max * constant' % pp(thr_node))
        else:
            R.check(k <= SV['ratio'], 'L3', inst, 'singular values below sigma_max * %.3g are %s; %s, so '
                    'well-determined directions are dropped from the solution' % (k, 'zeroed' if else_b else 'not inverted', SV['why']), 'relative threshold %.3g <= %g' % (k, SV['ratio']), fx.rel(ifs[0]['loc']), 'E-INT')
    if else_b and else_b != [inv_stmt]:
        R.holds('L3', inst + ':else', 'values below the threshold: %s' % (else_b,), fx.rel(ifs[0]['loc']), 'E-INT')


def relative_factor(f, node):
    """If node denotes (max singular value) * constant (possibly through one local), returns the constant."""
    import math
    node = strip_casts(node)
    defs = {}
    for x in walk(f['body']):
        if x.get('k') == 'Decl':
            for v in x['vars']:
                if v.get('init') is not None:
                    defs[v['id']] = v['init']
    seen = 0
    while node.get('k') == 'Ref' and node.get('id') in defs and seen < 4:
        node = strip_casts(defs[node['id']])
        seen += 1
    if node.get('k') != 'Bin' or node['op'] != '*':
        return None
    a, b = strip_casts(node['l']), strip_casts(node['r'])
    for (x, y) in ((a, b), (b, a)):
        cv = const_value(y)
        if cv is None and y.get('k') == 'Call' and (y.get('fn') or '').split('<')[0].endswith('sqrt') and len(y.get('args', [])) == 1:
            inner = const_value(y['args'][0])
            cv = math.sqrt(inner) if isinstance(inner, (int, float)) and inner >= 0 else None
        sxx = str(deep_unwrap(sx(x)))
        if cv is not None and ('singularValues' in sxx or 'maxCoeff' in sxx):
            return float(cv)
    return None


def check_weight_precond(fx, R, cq, cname):
    fw, fwe = fx.one(cq + '::weightJAndY_'), fx.one(cq + '::weightedEstimate')
    if fw is None or fwe is None:
        R.undecided('L4', cname, 'weighting functions vanished')
    else:
        R.used(fw, fwe)
        st = stmts_sx(fwe)
        ok = st in ([('expr', ('.weightJAndY_', 'this')), ('return', ('.estimateUsingCholeskyDecomposition', 'this'))],
                    [('expr', ('.weightJAndY_', 'this')), ('return', ('.estimateUsingSVD', 'this'))])
        rd, wr, _ = effects(fx, cq, fwe)
        # the weights are the CALLER's (set once through getW(), J and Y refilled for every problem): the weighted solve must leave them as they are.  A local declared `auto` from a
        # head()/block()/array() of W_ is a writable VIEW of W_, not a copy: assigning to it overwrites the weights
        wview = None
        for x_ in walk(fwe['body']):
            if isinstance(x_, dict) and x_.get('k') == 'Decl':
                for v_ in x_['vars']:
                    ts_ = (v_.get('t') or {}).get('s', '')
                    if v_.get('init') is not None and ts_.startswith(('Eigen::ArrayWrapper<Eigen::Block<Eigen::Matrix', 'Eigen::Block<Eigen::Matrix', 'Eigen::VectorBlock<Eigen::Matrix', 'Eigen::MatrixWrapper<Eigen::Block<Eigen::Matrix')) \
                            and 'this.W_' in pp(v_['init']):
                        stores = [y_ for y_ in walk(fwe['body']) if isinstance(y_, dict) and ((y_.get('k') == 'Bin' and y_.get('op', '').endswith('=') and y_.get('op') not in ('==', '!=', '<=', '>=') and strip_casts(y_['l']).get('id') == v_['id'])
                                                                                              or (y_.get('k') == 'Op' and y_.get('op') in ('=', '+=', '-=', '*=', '/=') and y_.get('args') and strip_casts(y_['args'][0]).get('id') == v_['id']))]
                        if stores:
                            wview = (v_['name'], ts_, stores[0])
        if wview or 'this.W_' in wr:
            R.violated('L4', cname.split('<')[0] + '::weightedEstimate:weights-overwritten', 'weightedEstimate() overwrites the weight buffer W_%s: the weights are the caller\'s, set once through getW() while J and Y are '
                       'refilled for each problem; the first weighted solve is right, the next one on the same object runs with the modified weights (w^2, then w^4 ...) - not the minimiser of sum (w_i r_i)^2 for the '
                       'weights that were configured, and not the answer of a fresh solver' % (' through `%s`, a local of type %s: a writable view of W_, not a copy (`%s`)' % (wview[0], wview[1][:60], pp(wview[2])[:80]) if wview else ''),
                       fx.rel((wview[2] if wview else fwe).get('loc') or fwe['loc']), 'E-STATE')
        if ok:
            R.holds('L4', cname + '::weightedEstimate', 'weights applied before the estimate', fx.rel(fwe['loc']), 'E-STATE')
        elif 'this.W_' not in rd:
            R.violated('L4', cname + '::weightedEstimate', 'no function reached from weightedEstimate() reads the weight buffer W_: the weighted variant returns the unweighted minimiser',
                       fx.rel(fwe['loc']), 'E-STATE')
        elif 'weightedEstimate' in DECIDED:
            R.holds('L4', cname + '::weightedEstimate', 'form not enumerated; semantics decided by L7 on the representative instance', fx.rel(fwe['loc']), 'E-ALG')
        else:
            R.undecided('L4', cname + '::weightedEstimate', 'weightedEstimate is %s, not the enumerated form weightJAndY_() then an estimate' % (st,))
        sw = stmts_sx(fw)
        loops = [x for x in walk(fw['body']) if x.get('k') == 'For']
        h = loop_header(loops[0]) if len(loops) == 1 else None
        wy = ('expr', ('*=', ('.head', 'this.Y_', 'this.dataSize_'), ('.head', 'this.W_', 'this.dataSize_')))
        okw = h is not None and h[1] == 0 and h[2] == ('<', h[0], 'this.estimateSize_') and h[3] == ('u++', h[0]) and wy in sw and \
            ('expr', ('*=', ('.head', ('.col', 'this.J_', h[0]), 'this.dataSize_'), ('.head', 'this.W_', 'this.dataSize_'))) in sw
        if okw:
            R.holds('L4', cname + '::weightJAndY_', 'Y and every column of J scaled by W over the same slice', fx.rel(fw['loc']), 'E-SIB')
        else:
            R.undecided('L4', cname + '::weightJAndY_', 'weighting idiom not recognised: %s' % (sw,))
    ps = sorted(fx.fn(cq + '::setPreconditionner'), key=lambda f: len(f['params']))
    if len(ps) != 2:
        R.undecided('L5', cname, 'setPreconditionner overloads vanished')
        return
    R.used(*ps)
    s1, s2 = stmts_sx(ps[0]), stmts_sx(ps[1])
    def subst(t, env):
        if isinstance(t, str):
            return env.get(t, t)
        if isinstance(t, tuple):
            return tuple(subst(x, env) for x in t)
        return t

    def final_values(f, env=None, depth=0):
        """member -> stored expression for a body made of plain member assignments and at most a delegation to a sibling overload; None otherwise."""
        out = {}
        for st_ in stmts_sx(f):
            if st_[0] != 'expr' or not isinstance(st_[1], tuple):
                return None
            t = subst(st_[1], env or {})
            if t[0] == '=' and isinstance(t[1], str) and t[1].startswith('this.'):
                out[t[1]] = t[2]
            elif t[0] == '.setPreconditionner' and t[1] == 'this' and depth == 0:
                g = [p for p in ps if len(p['params']) == len(t) - 2 and p is not f]
                if len(g) != 1:
                    return None
                sub = final_values(g[0], {p['name']: a for p, a in zip(g[0]['params'], t[2:])}, 1)
                if sub is None:
                    return None
                out.update(sub)
            else:
                return None
        return out
    for (f, tag, what) in ((ps[1], '(A,b)', 'stores A and b'), (ps[0], '(A)', 'b = 0')):
        _, wr, _ = effects(fx, cq, f)
        missing = [n for n in ('this.Ac_', 'this.Bc_') if n not in wr]
        inst = cname + '::setPreconditionner' + tag
        fv = final_values(f)
        if missing:
            R.violated('L5', inst, 'no path of setPreconditionner%s writes %s (%s): the solver keeps applying the previous %s' % (
                tag, missing, stmts_sx(f), 'offset b' if missing == ['this.Bc_'] else 'preconditioner'), fx.rel(f['loc']), 'E-STATE')
            continue
        if fv is None:
            R.undecided('L5', inst, 'not a sequence of member assignments / one delegation: %s' % (stmts_sx(f),))
            continue
        a, b = fv.get('this.Ac_'), fv.get('this.Bc_')
        names = [p['name'] for p in f['params']]
        if a != names[0]:
            if a == 'this.Ac_' or (len(names) > 1 and a == names[1]):
                R.violated('L5', inst, 'Ac_ receives `%s`, not the matrix argument' % (a,), fx.rel(f['loc']), 'E-STATE')
            else:
                R.undecided('L5', inst, 'Ac_ receives %s' % (a,))
            continue
        if tag == '(A,b)':
            if b == names[1]:
                R.holds('L5', inst, what, fx.rel(f['loc']), 'E-SIB')
            elif b in ('this.Bc_', names[0]):
                R.violated('L5', inst, 'Bc_ receives `%s`, not the offset argument' % (b,), fx.rel(f['loc']), 'E-STATE')
            else:
                R.undecided('L5', inst, 'Bc_ receives %s' % (b,))
        else:
            if 'Zero' in str(b) and contains_name(b, 'this.estimateSize_'):
                R.holds('L5', inst, what, fx.rel(f['loc']), 'E-SIB')
            elif b == 'this.Bc_':
                R.violated('L5', inst, 'setPreconditionner(A) stores Bc_ = Bc_: the offset of an earlier setPreconditionner(A,b) is kept, the statement gives A x + 0 after setPreconditionner(A)', fx.rel(f['loc']), 'E-STATE')
            else:
                R.undecided('L5', inst, 'Bc_ receives %s, not Zero(estimateSize_)' % (b,))
    # ---- L6: the unweighted entries are functions of J and Y alone --------------------------------------------------
    for en in ('estimateUsingSVD', 'estimateUsingCholeskyDecomposition', 'computeEstimateCovariance'):
        f = fx.one(cq + '::' + en)
        if f is None:
            R.undecided('L6', cname + '::' + en, 'anchor vanished')
            continue
        rd, wr, tainted = effects(fx, cq, f)
        if tainted:
            (fn_, st_) = tainted[0]
            R.violated('L6', '%s::%s:reads-weights' % (cname, en), 'the unweighted entry %s() reaches %s(), where the weight buffer W_ flows into `%s`; W_ still holds the weights of an earlier weighted '
                       'problem (it is reset only when the buffers grow), so the result is not the minimiser of |Jx - Y| of the current problem' % (en, fn_, st_[-1],), fx.rel(f['loc']), 'E-STATE')
        elif 'this.W_' in rd:
            R.undecided('L6', '%s::%s:reads-weights' % (cname, en), 'W_ is read on the unweighted path but no store or return uses it directly')
        else:
            R.holds('L6', '%s::%s:reads-weights' % (cname, en), 'no function reached reads W_ (reads: %s)' % sorted(rd), fx.rel(f['loc']), 'E-STATE')


def check_shortcuts(fx, R, cq, cname):
    """L8: a return in front of the decomposition.  Under a TOLERANCE test on the normal equations (|J^T Y| < c, isZero ...) the solver answers
    without solving; the statement is scale-free (every full-rank J with condition number below 1e6, and the estimators built on it rescale
    their problems by 1e-3 .. 1e3), so a perfectly conditioned problem of small magnitude takes the shortcut and gets the null correction."""
    from .. import earlyexit
    for name in ('estimateUsingSVD', 'estimateUsingCholeskyDecomposition'):
        f = fx.one(cq + '::' + name)
        if f is None or f.get('body') is None or f['body'].get('k') != 'Compound':
            continue
        top = f['body']['s']
        dec = next((i_ for i_, x_ in enumerate(top) if (x_.get('k') == 'Decl' and any('JacobiSVD' in (v_['t'].get('s') or '') for v_ in x_['vars'])) or
                    any(isinstance(y_, dict) and y_.get('k') == 'MCall' and y_.get('m') in ('ldlt', 'llt', 'fullPivLu', 'partialPivLu', 'colPivHouseholderQr') for y_ in walk(x_))), None)
        inst = '%s::%s:shortcut' % (cname, name)
        if dec is None:
            continue
        exits = earlyexit.exits_before(top, dec)
        if not exits:
            R.holds('L8', inst, 'no return in front of the decomposition', fx.rel(f['loc']), 'E-STATE')
        for (node, ctext, tol) in exits:
            if tol:
                R.violated('L8', '%s::%s:tolerance-shortcut' % (cname.split('<')[0], name), '%s() returns without solving when `%s` (%s): the threshold is an absolute number in the units of J^T Y, which scale with the data '
                           '(and with the square of any preconditioning scale, 1e-3 .. 1e3 for the estimators built on this solver); a full-rank, well-conditioned problem of small magnitude satisfies it and gets '
                           'the null correction instead of the minimiser' % (name, ctext, tol), fx.rel(node['loc']), 'E-STATE')
            else:
                R.undecided('L8', inst, 'returns in front of the decomposition when `%s`; the instance rule L7 judges the paths it reaches, the others are not decided' % ctext)


def check_instance(fx, R, cq, cname):
    import sympy as sp
    from .. import lsmodel, sym, alg
    getj = [g for g in fx.fn(cq + '::getJ') if not g.get('const')]
    escapes = any('&' in (g.get('sig') or '').split('(')[0] for g in getj)
    for (data, est, tag) in ((3, 2, '3 rows of 5'), (2, 2, 'square: 2 rows of 5'), (3, 1, 'one parameter: 3 rows of 5'), (192, 1, 'block sizes: 192 rows (a multiple of 8, 16, 32 and 64) of 200'),
                             (131, 1, 'remainder rows: 131 rows (a prime: no block size divides it) of 200')):
        inst = lsmodel.Instance(data=data, est=est, rows=200 if data >= 100 else lsmodel.ROWS)
        J3, Y3, W3 = inst.cur()
        stale_rows, old_state = inst.stale()
        wsyms = set(inst.W)
        Wd = sp.diag(*list(W3))
        try:
            exp_chol = inst.A * (J3.T * J3).inv() * J3.T * Y3 + inst.B
            exp_w = inst.A * (J3.T * Wd * Wd * J3).inv() * J3.T * Wd * Wd * Y3 + inst.B
        except Exception:
            continue
        jobs = (('computeJTJ_', lambda st: st.fields.get(('this', 'JtJ_')), J3.T * J3, 'J^T J of the current rows', False),
                ('computeJTY_', lambda st: st.fields.get(('this', 'JtY_')), J3.T * Y3, 'J^T Y of the current rows', False),
                ('estimateUsingCholeskyDecomposition', lambda st: st.ret, exp_chol, 'A (J^T J)^-1 J^T Y + b', False),
                ('weightedEstimate', lambda st: st.ret, exp_w, 'A (J^T W^2 J)^-1 J^T W^2 Y + b (the minimiser of sum (w_i r_i)^2)', True),
                ('estimateUsingCholeskyDecomposition', lambda st: st.fields.get(('this', 'inverseJtJ_')), (J3.T * J3).inv(), 'inverseJtJ_ = (J^T J)^-1 (what computeEstimateCovariance scales)', False))
        if data >= 100:
            jobs = jobs[:2]         # row coverage of the two accumulation helpers only
        for (name, getter, expected, what, weighted) in jobs:
            f = fx.one(cq + '::' + name)
            inst_name = '%s::%s:instance(%s)%s' % (cname, name, tag, ':stored-inverse' if what.startswith('inverseJtJ_') else '')
            if f is None:
                continue
            dens = [] if weighted and data <= 3 else None
            try:
                sts = lsmodel.run(fx, f, inst, denominators=dens)
            except sym.Unsupported as u:
                R.undecided('L7', inst_name, 'not interpretable on the instance: %s' % u)
                continue
            except Exception as ex:      # singular symbolic inverse etc.
                R.undecided('L7', inst_name, 'instance evaluation failed: %s: %s' % (type(ex).__name__, str(ex)[:120]))
                continue
            if dens:
                # a weight may be exactly zero (robust weight functions reject outliers with w = 0; the statement is about sum (w_i r_i)^2): nothing may be divided by a weight alone
                byw = [(d_, l_) for (d_, l_) in dens if d_.free_symbols and d_.free_symbols <= wsyms]
                zero = [(d_, l_) for (d_, l_) in byw if d_.subs({y_: 0 for y_ in d_.free_symbols}) == 0]
                if zero:
                    R.violated('L7', '%s::%s:division-by-weight' % (cname, name), '%s() divides by %s: a weight that is exactly 0 (an outlier rejected by a robust weight function) turns the quotient into 0/0, '
                               'and the NaN is stored in the solver\'s own buffers - this solve or the next one on the same object returns NaN instead of the minimiser of sum (w_i r_i)^2' % (name, zero[0][0]),
                               fx.rel(zero[0][1]) if zero[0][1] else fx.rel(f['loc']), 'E-ALG')
                else:
                    R.holds('L7', '%s::%s:division-by-weight(%s)' % (cname, name, tag), 'no quantity is divided by a weight alone (%d divisions met)' % len(dens), fx.rel(f['loc']), 'E-ALG')
            all_ok = True
            for st in sts:
                desc = ' && '.join(('' if c[2] else '!') + '(' + c[0] + ')' for c in st.cond)
                got = getter(st)
                pinst = inst_name + ('[%s]' % desc if desc else '')
                if not isinstance(got, sp.MatrixBase):
                    R.undecided('L7', pinst, 'result not readable as a matrix')
                    all_ok = False
                    continue
                if any(x.has(sp.nan) or x.has(sp.zoo) for x in got):
                    all_ok = False
                    R.violated('L7', '%s::%s:%s' % (cname, name, 'stored-inverse:not-a-number' if what.startswith('inverseJtJ_') else 'not-a-number'),
                               'on the instance (%s: J has full column rank, so the minimiser exists and is %s) %s()%s yields NaN entries instead' % (
                                   tag, what, name, ' on the path [%s], which this instance takes' % desc if desc else ''), fx.rel(f['loc']), 'E-ALG')
                    continue
                if lsmodel.same_matrix(got, expected):
                    R.holds('L7', pinst, 'exactly %s' % what, fx.rel(f['loc']), 'E-ALG')
                    continue
                fs = set().union(*[x.free_symbols for x in got])
                if what.startswith('inverseJtJ_') and fs & old_state and not (fs & stale_rows):
                    # the stored inverse is not refreshed by the solve: it may be formed on demand.  What the property fixes is the QUERY: computeEstimateCovariance() is read on the state this solve left
                    fcov = fx.one(cq + '::computeEstimateCovariance')
                    lazy = None
                    if fcov is not None:
                        try:
                            var_ = sp.Symbol('dataVarianceQ', positive=True)
                            st_q = st.copy()
                            st_q.ret, st_q.returned, st_q.cond = None, False, []
                            cvs = lsmodel.run(fx, fcov, inst, state=st_q, args=[var_])
                            want_c = inst.A.T * (J3.T * J3).inv() * inst.A * var_
                            if cvs and all(isinstance(c_.ret, sp.MatrixBase) and lsmodel.same_matrix(c_.ret, want_c) for c_ in cvs):
                                lazy = True
                        except (sym.Unsupported, Exception):
                            lazy = None
                    if lazy:
                        R.used(fcov)
                        R.holds('L7', pinst, 'the stored inverse is formed on demand: computeEstimateCovariance() read on the state this solve left returns exactly A^T (J^T J)^-1 A * variance of the current rows',
                                fx.rel(f['loc']), 'E-ALG')
                        continue
                all_ok = False
                if fs & stale_rows:
                    sy = sorted(map(str, fs & stale_rows))[0]
                    R.violated('L7', '%s::%s:stale-rows' % (cname, name), 'on the instance with %d current rows in a buffer of %d, the result of %s()%s contains %s, an entry of a row beyond the current problem '
                               '(left there by an earlier, larger problem): the answer is not that of a fresh solver' % (data, inst.rows, name, ' on the path [%s]' % desc if desc else '', sy), fx.rel(f['loc']), 'E-ALG')
                elif fs & old_state:
                    sy = sorted(map(str, fs & old_state))[0]
                    if escapes or not desc:
                        R.violated('L7', '%s::%s:stale-normal-matrix' % (cname, name), 'the result of %s()%s contains %s, an entry of the matrices an EARLIER solve left in the object: it is re-used instead of being '
                                   'rebuilt from the current J/Y%s' % (name, ' on the path [%s]' % desc if desc else '', sy,
                                                                       '; J_ is handed out by mutable reference (getJ()), so no flag can know that the caller has not rewritten it' if desc else ''), fx.rel(f['loc']), 'E-ALG')
                    else:
                        R.undecided('L7', pinst, 'the path re-uses matrices of an earlier solve (%s); whether its condition guarantees they are current is not decided' % sy)
                elif data >= 100 and set(sp.Matrix(expected).free_symbols) - fs and not (fs - set(J3.free_symbols) - set(Y3.free_symbols)):
                    missing = sorted(map(str, set(sp.Matrix(expected).free_symbols) - fs), key=lambda n_: (len(n_), n_))
                    R.violated('L7', '%s::%s:rows-left-out' % (cname, name), 'on the instance with %d current rows the result of %s()%s does not depend on %s: %d entr%s of the CURRENT rows never reach %s, so the solver '
                               'minimises over a subset of the rows (data sizes up to 500 are inside the quantifier)' % (data, name, ' on the path [%s]' % desc if desc else '', ', '.join(missing[:4]), len(missing),
                                                                                                                    'y' if len(missing) == 1 else 'ies', what), fx.rel(f['loc']), 'E-ALG')
                elif not weighted and fs & wsyms:
                    sy = sorted(map(str, fs & wsyms))[0]
                    R.violated('L7', '%s::%s:weights' % (cname, name), 'the result of the unweighted %s() contains the weight %s: it is not the minimiser of |Jx - Y|' % (name, sy), fx.rel(f['loc']), 'E-ALG')
                elif any((not isinstance(c_[1], sp.Basic)) or c_[1].atoms(sp.core.function.AppliedUndef) or isinstance(c_[1], sp.Symbol) for c_ in st.cond if c_[0] not in ('True', 'False')):
                    # the path is taken under a condition the model cannot evaluate (e.g. Ac_.isIdentity()): a witness that differs may not take this path at all
                    R.undecided('L7', pinst, 'on a path whose condition is not evaluable on the instance the result differs in form from %s' % what)
                else:
                    # a different function of the current rows: confirm on a witness point before calling it a violation
                    diff = sp.Matrix(got) - sp.Matrix(expected)
                    v = alg.decide_zero(diff[0, 0] if diff.shape[0] else sp.Integer(0))
                    bad = None
                    pconds = [(c_[1], c_[2]) for c_ in st.cond if c_[0] not in ('True', 'False') and isinstance(c_[1], sp.Basic)]
                    for d_ in diff:
                        if pconds:
                            # the witness must TAKE this path: weights are drawn from (0.5, 4), everything else from (-3, 3)
                            v = alg.decide_zero_on_path(sp.together(d_), pconds, tries=120, domain=lambda y_: (50, 400) if y_ in wsyms else (-300, 300))
                        else:
                            v = alg.decide_zero(sp.together(d_))
                        if v[0] == 'nonzero':
                            bad = v
                            break
                    scaled_note = ''
                    if bad:
                        # the statement is "to rounding": a difference far below the accuracy of the scalar type at this witness is only a violation if it grows to a macroscopic one elsewhere in the
                        # quantifier (every full-rank J of condition number below 1e6, whatever the magnitude of its entries): the same witness with the entries of J scaled down
                        try:
                            env0 = dict(bad[1])
                            for n_, y_ in enumerate(sorted(set().union(*[x_.free_symbols for x_ in list(sp.Matrix(expected)) + list(diff)]) - set(env0), key=str)):
                                env0[y_] = sp.Rational(37 + 13 * n_, 100) * (-1) ** n_        # witness values for the symbols the deciding entry does not contain
                            ref = max([abs(sp.N(x_.subs(env0), 30)) for x_ in sp.Matrix(expected)] + [sp.Float(0)])
                            rel0 = abs(sp.N(bad[2], 30)) / (ref if ref != 0 else 1)
                        except Exception:
                            rel0, env0 = None, None
                        if rel0 is not None and rel0 < sp.Float('1e-6' if 'float' in cq else '1e-10'):
                            jsyms = set(J3.free_symbols)
                            grown = None
                            for scale in (sp.Rational(1, 10 ** 3), sp.Rational(1, 10 ** 5), sp.Rational(1, 10 ** 7)):
                                env1 = {k_: (v_ * scale if k_ in jsyms else v_) for k_, v_ in env0.items()}
                                try:
                                    dv = [abs(sp.N(sp.together(d_).subs(env1), 30)) for d_ in diff]
                                    rv = max([abs(sp.N(x_.subs(env1), 30)) for x_ in sp.Matrix(expected)])
                                    rel1 = max(dv) / (rv if rv != 0 else 1)
                                except Exception:
                                    continue
                                if rel1 > sp.Float('1e-4' if 'float' in cq else '1e-8'):
                                    grown = (scale, rel1)
                                    break
                            if grown:
                                scaled_note = ' - %s relative there, and %s relative with the entries of J scaled by %s (rank and conditioning unchanged, inside the quantifier): the deviation is an ABSOLUTE quantity added to ' \
                                              'the problem, macroscopic for designs with small entries' % (sp.N(rel0, 3), sp.N(grown[1], 3), grown[0])
                            else:
                                R.undecided('L7', pinst, 'result differs from %s by %s relative at a witness, below the rounding of the scalar type, and the difference does not grow when J is scaled' % (what, sp.N(rel0, 3)))
                                continue
                    if bad:
                        R.violated('L7', '%s::%s:%s' % (cname, name, 'stored-inverse' if what.startswith('inverseJtJ_') else 'closed-form'), 'on the instance (%s) %s()%s does not return %s: an entry differs by %s at %s%s' % (
                            tag, name, ' on the path [%s]' % desc if desc else '', what, bad[2], alg.witness_text(bad[1])[:200], scaled_note), fx.rel(f['loc']), 'E-ALG')
                    else:
                        R.undecided('L7', pinst, 'result differs in form from %s and the difference is not decided' % what)
            if all_ok and sts and tag.startswith('3 rows'):
                DECIDED.add(name)
        # the SVD path up to the decomposition: the matrix it decomposes and the right-hand side are those of the current rows
        fs_ = fx.one(cq + '::estimateUsingSVD') if data <= 3 else None        # the block-coverage instance is for the two accumulation helpers only
        if fs_ is not None and fs_.get('body') is not None and fs_['body'].get('k') == 'Compound':
            top_ = fs_['body']['s']
            cut = next((i_ for i_, x_ in enumerate(top_) if x_.get('k') == 'Decl' and any('JacobiSVD' in (v_['t'].get('s') or '') for v_ in x_['vars'])), None)
            iname = '%s::estimateUsingSVD:instance(%s):normal-equations' % (cname, tag)
            if cut is None:
                R.undecided('L7', iname, 'no JacobiSVD declaration at the top level of the SVD path')
            else:
                H_ = lsmodel.Hook(inst)
                rd_ = sym.Reader(fx, call_hook=H_, member_hook=H_.member, max_paths=16, max_depth=8)
                rd_.unroll = 16
                st0 = sym.State()
                for k_, v_ in inst.init.items():
                    st0.fields[('this', k_)] = v_
                ctx_ = {'this': ('this',), 'fn': fs_, 'depth': 0}
                try:
                    states = [st0]
                    for x_ in top_[:cut]:
                        nxt = []
                        for s__ in states:
                            nxt += rd_.ex(x_, s__, ctx_)
                        states = nxt
                    # which matrix is decomposed?
                    arg_ = top_[cut]['vars'][0].get('init')
                    dec_of = pp(arg_)
                    for st_ in states:
                        desc = ' && '.join(('' if c[2] else '!') + '(' + c[0] + ')' for c in st_.cond)
                        for (fld_, exp_, what_) in (('JtJ_', J3.T * J3, 'J^T J'), ('JtY_', J3.T * Y3, 'J^T Y')):
                            got_ = st_.fields.get(('this', fld_))
                            if isinstance(got_, sp.MatrixBase) and lsmodel.same_matrix(got_, exp_):
                                R.holds('L7', iname + ':' + fld_ + ('[%s]' % desc if desc else ''), '%s of the current rows when the decomposition starts' % what_, fx.rel(fs_['loc']), 'E-ALG')
                            elif isinstance(got_, sp.MatrixBase):
                                fsym = set().union(*[x__.free_symbols for x__ in got_])
                                bad_ = None
                                for d_ in (sp.Matrix(got_) - sp.Matrix(exp_)):
                                    v__ = alg.decide_zero(sp.together(d_))
                                    if v__[0] == 'nonzero':
                                        bad_ = v__
                                        break
                                if fsym & (stale_rows | old_state) or bad_:
                                    R.violated('L7', '%s::estimateUsingSVD:normal-equations:%s' % (cname, fld_), 'on the instance (%s), when the SVD path reaches its decomposition %s is not %s of the '
                                               'current problem%s: the SVD path then minimises something else than |Jx - Y| (and disagrees with the Cholesky path)' % (
                                                   tag, fld_, what_, (' (it contains %s)' % sorted(map(str, fsym & (stale_rows | old_state)))[0]) if fsym & (stale_rows | old_state) else
                                                   ' (an entry differs by %s at %s)' % (bad_[2], alg.witness_text(bad_[1])[:160])), fx.rel(fs_['loc']), 'E-ALG')
                                else:
                                    R.undecided('L7', iname + ':' + fld_, 'differs in form from %s of the current rows; not decided' % what_)
                            else:
                                R.undecided('L7', iname + ':' + fld_, 'not readable as a matrix')
                except sym.Unsupported as u:
                    R.undecided('L7', iname, 'prefix of the SVD path not interpretable: %s' % u)
