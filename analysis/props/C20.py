"""C20 - bounding volumes, intervals and point-set extents.

Rules (each on every instantiation: float/double, 2-D/3-D, all eight point types)
  B1  accumulator seeds: a running maximum is seeded with a value <= every input (lowest()/-max()/-inf), a running
      minimum dually - decided on the constant the front end folded for the seed expression
  B2  containment is the closed box on every coordinate: |p - c| <= h reduced with all/prod (AABB), same on R^T(p - c) (OBB)
  B3  Interval::inside is  >= lower  and  <= upper  on every coordinate (generic and 1-D specialisation)
  B4  box <-> interval round trip: centre = (u+l)/2, half = (u-l)/2, toInterval = {c-h, c+h}  =>  {l, u}  (exact algebra)
  B5  Interval::include is the componentwise hull: lower <- min(lower, other.lower), upper <- max(upper, other.upper)
  B6  enclosing box of an oriented box: half extent = sum over ALL DIM columns n of |R.col(n) * h(n)|, same centre
  B7  mean = sum over all points / size ; scale = 1 / maxCoeff(max - min) ; min/max updated with every point
  B8  step semantics of the running extrema (E-STEP): the loop body of compute() is evaluated, as extracted, on witness states of one
      generic coordinate - from the seed state (first point) and from ordered states with the coordinate below / on / between / above
      the bounds - and must yield (min(mn,x), max(mx,x)); decides element-wise rewrites (if / else-if chains) that the vector-form rules
      cannot read
Not decided: tightness of the enclosing box; floating-point rounding."""
import sympy as sp
from ..tree import sx, walk, pp, strip_casts, const_value, short_fn, stmts

LEVEL = 'other'
UNITS = ['src/pointset/algorithms/PointSetPreconditioner.cpp', 'src/containers/boundingbox/AxisAlignedBoundingBox.cpp',
         'src/containers/boundingbox/OrientedBoundingBox.cpp', 'verif:inst_math.cpp']
ENGINES = 'E-ORD + E-INT + E-ALG + E-SIB over romea-facts'
TECHNIQUE = 'toAxisAlignedBoundingBox() read by value on a symbolic box against |R| h on rotations about every axis, work skipped on the identity of the argument object (sweep H16), compute() run (real loops over concrete sequences) on witness sets of either parity, unbounded receivers in the include() step, include() stepped with the class predicates inlined, user-written copy assignment (sweep H3), containment predicate on cells just outside a face and on tiny boxes, homogeneous coordinate of the mean, statements after the point loop stepped on witness extrema (tiny and huge sides), constructor reaches compute() for every set size, returns in front of the box-frame test read on witness boxes, include() with control flow stepped on zero-width intervals, loop coverage of the point set on witness sizes, sweep of every function read (and its in-repo callees) for frozen function-local statics, single precision inside double computations, lossy copy constructors, presence- or argument-keyed member caches, reference members bound to constructor arguments, loop accumulators that are members, members derived in the constructor and not refreshed by setters, results returned by reference to a member buffer, members filled from an argument under a condition that ignores it, hidden non-virtual base members, self-bound reference members, reductions that accumulate in float; tolerance exits (isIdentity), head(n) coverage of the Cartesian axes by the scale; E-STEP: extracted loop bodies / predicates evaluated on witness states of a one-coordinate abstraction (running extrema from the seed state, containment incl. zero extents and IEEE 0/0); structural matching of the normalised (Eigen wrappers erased) expression trees against the closed-box / hull / extent forms; constant-folded accumulator seeds; exact algebra for the interval round trip'
EXPLANATION = ('Containment predicates, interval hull, box<->interval conversion, oriented-box enclosure and point-set extrema are read from the '
               'instantiated ASTs, normalised to s-expressions and compared with the forms the statement quotes (operator, reduction, operand roles); '
               'accumulator seeds are compared with the numeric limits of the instantiated scalar type via the front end\'s constant evaluator.')
ASSUMPTIONS = ['Eigen semantics of array().abs()/min()/max()/all()/prod()/maxCoeff()/col()', 'non-empty point sets (quantifier)']
LEVEL_TEXT = ('For all inputs at once (every octant, faces/edges/corners included): the comparison operators, reductions, operand roles and accumulator seeds '
              'of the containment / hull / extent code are the ones the statement requires, on every instantiated scalar and point type.')
LEVEL_NOTE = 'Not decided: tightness of the enclosing box, rounding. Trusted: clang front end (constant evaluator for the seeds), extractor, Eigen semantics listed.'

LOWEST = {32: -3.4028234663852886e+38, 64: -1.7976931348623157e+308}


def m(pat, s, b):
    """Tiny matcher: '$x' binds (consistently), sets accept any member, tuples match element-wise."""
    if isinstance(pat, str) and pat.startswith('$'):
        if pat in b:
            return b[pat] == s
        b[pat] = s
        return True
    if isinstance(pat, (set, frozenset)):
        return s in pat
    if isinstance(pat, tuple):
        if not isinstance(s, tuple) or len(s) != len(pat):
            return False
        return all(m(p, x, b) for p, x in zip(pat, s))
    return pat == s


def contains_name(s, name):
    if s == name:
        return True
    if isinstance(s, tuple):
        return any(contains_name(x, name) for x in s)
    return False


def unwrap(s):
    """Drop value-preserving wrappers: construction of a matrix from one expression."""
    while isinstance(s, tuple) and len(s) == 2 and isinstance(s[0], str) and (s[0].startswith('new:Eigen::Matrix<') or (s[0].startswith('new:std::') and 'iterator' in s[0])):
        s = s[1]
    return s


def deep_unwrap(s):
    s = unwrap(s)
    if isinstance(s, tuple):
        return tuple(deep_unwrap(x) for x in s)
    return s


def returns(f):
    return [deep_unwrap(sx(x['e'])) for x in walk(f['body']) if x.get('k') == 'Return' and x.get('e') is not None]


def exprs(f):
    return [deep_unwrap(sx(x['e'])) for x in walk(f['body']) if x.get('k') == 'Expr']


def run(fx, R, tier):
    R.floor('B1', 16)
    R.floor('B2', 8)
    R.floor('B3', 4)
    R.floor('B5', 8)
    check_seeds_and_stats(fx, R)
    check_constructor_reaches_compute(fx, R)
    check_containers(fx, R)
    check_aabb(fx, R)
    check_obb(fx, R)
    check_interval(fx, R)



def head_fact(f, cname):
    """(True, message) when the largest side is searched over fewer leading coordinates than the Cartesian dimension of this point type."""
    D = 2 if ('Coordinates2' in cname or ', 2, 1' in cname) else 3
    for x in walk(f['body']):
        if x.get('k') == 'MCall' and x.get('m') == 'maxCoeff':
            o = strip_casts(x['obj'])
            while o.get('k') == 'MCall' and o.get('m') in ('array', 'matrix', 'cwiseAbs', 'abs', 'eval'):
                o = strip_casts(o['obj'])
            if o.get('k') == 'MCall' and o.get('m') in ('head', 'topRows') and len(o.get('args', [])) == 1:
                n = const_value(o['args'][0])
                if isinstance(n, int) and n < D:
                    return (True, 'the largest side is searched over the first %d coordinate(s) only (`%s`), this point type has %d Cartesian axes: when the set is longest along the last axis the '
                                  'reported scale is the reciprocal of a shorter side' % (n, pp(x), D))
    return (False, '')


def extrema_step(fx, f, seeds):
    """Step semantics of the point loop of compute() on one generic coordinate, on witness states (E-STEP).
    Returns ('holds', n) | ('violated', text) | ('undecided', reason)."""
    from .. import mini
    loops = [x for x in walk(f['body']) if x.get('k') in ('For', 'RangeFor')]
    outer = [L for L in loops if not any(L is not M and any(y is L for y in walk(M.get('b'))) for M in loops)]
    outer = [L for L in outer if 'pointSetM' in str(sx(L['b']) if False else [deep_unwrap(sx(x['e'])) for x in walk(L['b']) if x.get('k') == 'Expr'])]
    if len(outer) != 1:
        return ('undecided', 'point loop not found')
    L = outer[0]
    idx, aliases = set(), {}
    if L['k'] == 'For':
        init = L.get('init')
        if not (init and init['k'] == 'Decl' and init['vars']):
            return ('undecided', 'loop header')
        idx.add(init['vars'][0]['name'])
    else:
        if deep_unwrap(sx(L['range'])) != 'points':
            return ('undecided', 'range is not the point set')
        aliases[L['var']['name']] = 'points'
    MN, MX = 'this.pointSetMin_', 'this.pointSetMax_'

    def seedval(field, default):
        nd = seeds.get(field)
        cv = const_value(nd) if nd is not None else None
        if cv == 'inf':
            return float('inf')
        if cv == '-inf':
            return float('-inf')
        return float(cv) if isinstance(cv, (int, float)) else default
    cases = []
    if MN in seeds and MX in seeds:
        smn, smx = seedval(MN, None), seedval(MX, None)
        if smn is not None and smx is not None:
            for x in (-5.0, 0.0, 7.0):
                cases.append(('the first point of a set (accumulators at their seeds)', smn, smx, x))
    for (mn, mx) in ((2.0, 4.0), (3.0, 3.0)):
        for x in (1.0, 2.0, 3.0, 4.0, 5.0):
            cases.append(('a later point', mn, mx, x))
    n = 0
    for (what, mn, mx, x) in cases:
        env = {MN: mn, MX: mx, 'points': x}
        st = mini.Step(deep_unwrap, index_vars=set(idx), aliases=dict(aliases))
        try:
            st.run(L['b'], env, ignore=('this.pointSetMean_',))
        except mini.Unsupported as e:
            return ('undecided', 'loop body not interpretable on scalars: %s' % e)
        want = (min(mn, x), max(mx, x))
        if (env[MN], env[MX]) != want:
            return ('violated', 'for %s with coordinate %g and accumulators (min %g, max %g) the loop body leaves (min %g, max %g); the running extrema must become (min %g, max %g)' % (
                what, x, mn, mx, env[MN], env[MX], want[0], want[1]))
        n += 1
    return ('holds', n)


# ---------------------------------------------------------------------------------------------
def check_seeds_and_stats(fx, R):
    fns = [f for f in fx.functions.values() if f['q'].startswith('romea::core::PointSetPreconditioner<') and f['name'] == 'compute']
    if len(fns) < 8:
        R.undecided('B1', 'PointSetPreconditioner::compute', 'only %d instantiations of compute() found (8 point types expected)' % len(fns))
    for f in sorted(fns, key=lambda f: f['q']):
        R.used(f)
        cname = short_fn(f['cls'])
        ex = exprs(f)
        # accumulators
        accs = {}
        for s in ex:
            b = {}
            if m(('=', '$X', ({'.max', '.min', '.cwiseMax', '.cwiseMin'}, '$X', '$P')), s, b):
                accs[b['$X']] = (s[2][0], b['$P'])
        seeds = {}
        for x in walk(f['body']):
            if x.get('k') == 'MCall' and x.get('m') == 'setConstant' and len(x['args']) == 1:
                seeds[sx(x['obj'])] = x['args'][0]
        bits = None
        step = extrema_step(fx, f, seeds)
        if step[0] == 'holds':
            R.holds('B8', '%s::compute:step' % cname, 'on %d witness states (seed state and ordered states, coordinate below / between / above / equal) one pass of the loop body yields (min(mn,x), max(mx,x))' % step[1],
                    fx.rel(f['loc']), 'E-STEP')
        elif step[0] == 'violated':
            R.violated('B8', 'PointSetPreconditioner::compute:step', step[1] + ' [%s]' % cname, fx.rel(f['loc']), 'E-STEP')
        else:
            R.undecided('B8', '%s::compute:step' % cname, step[1])
        for want, field in (('max', 'this.pointSetMax_'), ('min', 'this.pointSetMin_')):
            inst = 'PointSetPreconditioner::compute:%s' % field[5:]
            tag = ' [%s]' % cname
            if field not in accs and step[0] == 'undecided':
                R.undecided('B1', inst, 'running %s accumulator on %s not found' % (want, field))
                continue
            op, operand = accs.get(field, (want, 'point'))      # element-wise forms are decided by B8
            if want not in op.lower():
                R.violated('B7', inst, '%s is updated with %s(...) - the running %simum must use %s' % (field, op, want, want), fx.rel(f['loc']), 'E-SIB')
                continue
            if field not in seeds:
                assigned = [x for x in ex if isinstance(x, tuple) and x[0] == '=' and x[1] == field and not contains_name(x[2], field)]
                other_mut = [x for x in walk(f['body']) if x.get('k') == 'MCall' and not x.get('mconst') and x.get('m') not in ('array', 'matrix') and sx(x['obj']) == field]
                if assigned:
                    R.undecided('B1', inst, 'seed of %s is %s, not a setConstant(...) the front end folds' % (field, assigned[0][2]))
                elif other_mut:
                    R.undecided('B1', inst, '%s is (re)initialised through %s(), which is not an enumerated seeding form' % (field, other_mut[0].get('m')))
                else:
                    R.violated('B1', inst + ':not-reseeded', 'compute() updates the running %simum %s with every point but never re-seeds it: the accumulator is a member, so a second compute() on the '
                               'same object reports the hull of every set seen so far, not the extrema of its argument%s' % (want, field, tag), fx.rel(f['loc']), 'E-STATE')
                continue
            seed = seeds[field]
            cv = const_value(seed)
            t = strip_casts(seed)['t']
            bits = t.get('bits')
            if cv is None or t.get('c') != 'fp' or bits not in LOWEST:
                R.undecided('B1', inst, 'seed %s is not a floating constant the front end could fold' % pp(seed))
                continue
            lowest = LOWEST[bits]
            if want == 'max':
                ok = cv == '-inf' or (isinstance(cv, (int, float)) and cv <= lowest)
                R.check(ok, 'B1', inst, 'running maximum is seeded with %s = %s, which is not <= every %d-bit input (lowest is %s): for a set whose coordinates are all below the seed the reported maximum is the seed%s' % (
                    pp(seed), cv, bits, lowest, tag), 'seed %s = %s is the lowest value%s' % (pp(seed), cv, tag), fx.rel(seed['loc']), 'E-INT')
            else:
                ok = cv == 'inf' or (isinstance(cv, (int, float)) and cv >= -lowest)
                R.check(ok, 'B1', inst, 'running minimum is seeded with %s = %s, which is not >= every input' % (pp(seed), cv),
                        'seed %s = %s is the largest value%s' % (pp(seed), cv, tag), fx.rel(seed['loc']), 'E-INT')
            if field in accs:
                R.check(operand == 'point', 'B7', inst + ':operand', 'accumulator is updated with %s, not with the current point' % (operand,), 'updated with every point', fx.rel(f['loc']), 'E-SIB')
        # loop covers all points; point = points[n]
        loops = [x for x in walk(f['body']) if x.get('k') == 'For']
        loops = [L for L in loops if not any(L is not M and any(y is L for y in walk(M.get('b'))) for M in loops)]
        okloop = False
        if len(loops) == 1:
            L = loops[0]
            init = L.get('init')
            if init and init['k'] == 'Decl':
                vals = {v['name']: v.get('init') for v in init['vars']}
                cond = sx(L['c'])
                inc = sx(L['inc'])
                n0 = [nm for nm, iv in vals.items() if const_value(iv) == 0]
                nN = [nm for nm, iv in vals.items() if iv is not None and sx(iv) == ('.size', 'points')]
                if n0 and nN and cond == ('<', n0[0], nN[0]) and inc in (('u++', n0[0]),):
                    decl = [v for s_ in walk(L['b']) if s_.get('k') == 'Decl' for v in s_['vars'] if v['name'] == 'point']
                    okloop = bool(decl) and sx(decl[0]['init']) == ('[]', 'points', n0[0])
            if not okloop:
                cond = sx(L['c'])
                if isinstance(cond, tuple) and cond[0] == '<' and cond[2] == ('.size', 'points'):
                    okloop = True
        if okloop:
            R.holds('B7', '%s::compute:loop' % cname, 'visits every point once', fx.rel(f['loc']), 'E-STATE')
        else:
            bv = compute_by_value(fx, f)
            if bv is not None and bv[0] == 'violated':
                R.violated('B7', 'PointSetPreconditioner::compute:value', bv[1] + ' [%s]' % cname, fx.rel(f['loc']), 'E-STEP')
            elif bv is not None and bv[0] == 'holds':
                R.holds('B7', '%s::compute:loop' % cname, bv[1], fx.rel(f['loc']), 'E-STEP')
            else:
                cov = loop_coverage(f, loops[0]) if len(loops) == 1 else None
                if cov and cov[0] == 'violated':
                    R.violated('B7', 'PointSetPreconditioner::compute:loop-coverage', 'for a set of %d points the accumulation loop `for (%s; %s; %s)` visits the indexes %s: %d of the %d points never reach the '
                               'extrema / the mean (sets of 1..1000 points are inside the quantifier) [%s]' % (cov[1], cov[2], cov[3], cov[4], cov[5], cov[6], cov[1], cname), fx.rel(loops[0]['loc']), 'E-STEP')
                elif cov and cov[0] == 'holds':
                    R.holds('B7', '%s::compute:loop' % cname, 'the loop control visits every index once for N = %s' % (cov[1],), fx.rel(f['loc']), 'E-STEP')
                else:
                    R.undecided('B7', '%s::compute:loop' % cname, 'the accumulation loop is not one of the enumerated forms over points[0..size)%s' % (': ' + cov[1] if cov else ''))
        mw = mean_w_value(fx, f, cname)
        if mw[0] == 'violated':
            R.violated('B7', 'PointSetPreconditioner::compute:mean:homogeneous-coordinate', mw[1] + ' [%s]' % cname, fx.rel(f['loc']), 'E-STEP')
        elif mw[0] == 'holds':
            R.holds('B7', '%s::compute:mean:homogeneous-coordinate' % cname, mw[1], fx.rel(f['loc']), 'E-STEP')
        R.form((('+=', 'this.pointSetMean_', 'point') in ex and any(m(('/=', 'this.pointSetMean_', '$D'), s, {}) and 'size' in str(s) and 'points' in str(s) for s in ex)) or (True if mw[0] == 'violated' else None),
                'B7', '%s::compute:mean' % cname, 'mean is not (sum of the points)/points.size(): %s' % [s for s in ex if 'pointSetMean_' in str(s)],
                'mean = sum / size', fx.rel(f['loc']), 'E-ALG')
        sv = scale_value(fx, f, cname)
        R.form(('=', 'this.scale_', ('/', 1, ('.maxCoeff', ('-', 'this.pointSetMax_', 'this.pointSetMin_')))) in ex or (True if sv[0] == 'holds' else None), 'B7', '%s::compute:scale' % cname,
                'scale is not 1/maxCoeff(max-min): %s' % [s for s in ex if 'scale_' in str(s) and s[0] == '='], 'scale = 1/maxCoeff(max - min)', fx.rel(f['loc']), 'E-ALG',
                facts=[head_fact(f, cname)] + [(('=', 'this.scale_', ('/', 1, ('.minCoeff', ('-', 'this.pointSetMax_', 'this.pointSetMin_')))) in ex,
                        'scale is 1/minCoeff(max - min): the reciprocal of the SMALLEST side, not of the largest one (the preconditioned set then exceeds the unit box; a flat set divides by zero)'),
                       (('=', 'this.scale_', ('.maxCoeff', ('-', 'this.pointSetMax_', 'this.pointSetMin_'))) in ex, 'scale is the largest side itself, not its reciprocal'),
                       (sv[0] == 'violated', sv[1])])
        # order: mean/scale computed after the loop, min/max reset before it
        for g, nm in (('getPointSetMin', 'this.pointSetMin_'), ('getPointSetMax', 'this.pointSetMax_'), ('getPointSetMean', 'this.pointSetMean_'), ('getScale', 'this.scale_')):
            gf = fx.one(f['cls'] + '::' + g)
            if gf is None:
                R.undecided('B7', '%s::%s' % (cname, g), 'accessor vanished')
                continue
            R.used(gf)
            R.form(returns(gf) == [nm], 'B7', '%s::%s' % (cname, g), '%s returns %s, not %s' % (g, returns(gf), nm), 'returns ' + nm, fx.rel(gf['loc']), 'E-SIB')


def mean_w_value(fx, f, cname):
    """For the homogeneous point types the mean is a homogeneous point too: every point has w = 1, so the centroid has w = 1.  compute() is stepped (E-STEP) on the scalar abstraction of the LAST coordinate of a
    one-point set (value 1, size 1); a store into the leading CARTESIAN_DIM coordinates of a vector (`X.head(CARTESIAN_DIM) = ...`) does not write that coordinate.  ('holds'|'violated'|'skip', text)."""
    if 'Homogeneous' not in cname:
        return ('skip', '')
    from .. import mini
    from .C09 import _sizes
    norm = lambda t: _sizes(deep_unwrap(t))
    S = mini.Step(norm)

    def set_const(t, env):
        env[S.key(t[1])] = S.ev(t[2], env) if len(t) > 2 else 0.0
        return 0
    S.hooks['.setConstant'] = set_const
    S.hooks['.setZero'] = lambda t, env: env.__setitem__(S.key(t[1]), 0.0) or 0
    S.hooks['.fill'] = set_const
    for h_ in ('.cast', '.head', '.topRows', '.eval'):          # reads of the Cartesian part feed Cartesian-sized locals only: their value does not reach the last coordinate
        S.hooks[h_] = lambda t, env: S.ev(t[1], env)
    env = {'points': 1.0}

    def cartesian_only(x):
        """statement that writes only the leading Cartesian coordinates of its target"""
        if x.get('k') != 'Expr':
            return False
        t = deep_unwrap(sx(x['e']))
        return isinstance(t, tuple) and len(t) == 3 and t[0] in ('=', '+=', '-=', '/=', '*=') and isinstance(t[1], tuple) and t[1][0] in ('.head', '.topRows', '.segment') and 'CARTESIAN_DIM' in str(t[1])

    def run(x):
        if x.get('k') == 'Compound':
            for y in x['s']:
                run(y)
        elif x.get('k') in ('For', 'RangeFor'):
            for v_ in ((x.get('init') or {}).get('vars') or []):
                S.index_vars.add(v_['name'])
            if x.get('k') == 'RangeFor' and x.get('var'):
                env[x['var']['name']] = 1.0
            run(x.get('b'))                       # one point
        elif cartesian_only(x):
            return
        elif x.get('k') == 'Decl' and any((v_.get('t') or {}).get('c') not in ('fp', 'int') and not (v_.get('t') or {}).get('ref') for v_ in x['vars']):
            for v_ in x['vars']:
                env[v_['name']] = 0.0             # a local vector: its generic coordinate starts at 0 unless assigned
                if v_.get('init') is not None:
                    try:
                        env[v_['name']] = S.ev(norm(sx(v_['init'])), env)
                    except mini.Unsupported:
                        pass
        else:
            S.run(x, env, ignore=('this.translation_', 'this.scale_', 'this.pointSetMin_', 'this.pointSetMax_'))
    try:
        run(f['body'])
    except (mini.Unsupported, mini.Returned, TypeError, ZeroDivisionError) as e:
        return ('skip', str(e))
    got = env.get('this.pointSetMean_')
    if isinstance(got, (int, float)) and abs(got - 1.0) < 1e-12:
        return ('holds', 'the homogeneous coordinate of the mean of a set of points with w = 1 is 1')
    if isinstance(got, (int, float)):
        return ('violated', 'for this homogeneous point type the mean keeps the homogeneous coordinate %g: the centroid of points whose last coordinate is 1 has last coordinate 1 (the mean is written through the leading '
                'CARTESIAN_DIM coordinates only, the last one keeps what it was reset to), so getPointSetMean() is not the componentwise centroid of the set' % got)
    return ('skip', 'mean not evaluable')


def scale_value(fx, f, cname):
    """Value rule for the scale: the statements of compute() AFTER the point loop are evaluated (E-STEP, one generic coordinate: a reduction over the coordinates is the identity there) on witness extrema
    whose side is ordinary, tiny (below the machine epsilon of the scalar type) and huge; the quantifier names every non-empty set, whatever its size.  ('holds'|'violated'|'undecided', text)."""
    from .. import mini
    top = f['body'].get('s') or []
    pos = [i for i, x in enumerate(top) if x.get('k') in ('For', 'RangeFor', 'While')]
    if not pos:
        return ('undecided', 'no point loop at the top level of compute()')
    tail = top[pos[-1] + 1:]
    stored = [deep_unwrap(sx(x['e'])) for y in tail for x in walk(y) if x.get('k') == 'Expr']
    mentions = str([s_ for s_ in stored if 'scale_' in str(s_)] + [deep_unwrap(sx(v['init'])) for y in tail for x in walk(y) if x.get('k') == 'Decl' for v in x['vars'] if v.get('init') is not None])
    if mentions.count("'.maxCoeff'") != 1 or "'.minCoeff'" in mentions or 'pointSetMax_' not in mentions or 'pointSetMin_' not in mentions:
        return ('undecided', 'the reduction over the sides is not one maxCoeff over (max - min)')
    flt = 'float' in f['cls']
    wit = [(2.0, 4.0), (-7.0, -3.0), (-0.5, 0.75), (0.0, 1e-3), (1.0, 1.0 + 2.0 ** -20), (-1e6, 1e6)]
    wit += [(-3e-8, 2e-8), (0.0, 1e-12), (-1e-30, 1e-30)] if flt else [(-1e-16, 1e-16), (0.0, 1e-17), (-1e-200, 1e-200)]
    for (mn, mx) in wit:
        env = {'this.pointSetMin_': mn, 'this.pointSetMax_': mx, 'points': 0.5 * (mn + mx), 'this.scale_': float('nan')}
        st = mini.Step(deep_unwrap)
        try:
            for y in tail:
                st.run(y, env, ignore=('this.pointSetMean_', 'this.translation_'))
        except mini.Unsupported as e:
            return ('undecided', 'statements after the point loop not interpretable on scalars: %s' % e)
        except mini.Returned:
            pass
        got, want = env.get('this.scale_'), 1.0 / (mx - mn)
        if not (isinstance(got, (int, float)) and got == got and abs(got - want) <= 1e-9 * abs(want)):
            return ('violated', 'for a set whose largest side is %g (extrema %g and %g) compute() reports the scale %s; the reciprocal of the largest side is %g (every non-empty set is inside the quantifier, '
                    'whatever its size: the preconditioned points of such a set are then not scaled into the unit box)' % (mx - mn, mn, mx, got, want))
    return ('holds', '%d witness extrema' % len(wit))


def check_constructor_reaches_compute(fx, R):
    """B7: the constructor that takes a point set must hand EVERY non-empty set (1..1000 points) to compute(); its control flow is evaluated (E-STEP) for the set sizes of the quantifier."""
    from .. import mini
    ctors = [f for f in fx.functions.values() if f.get('ctor') and (f.get('cls') or '').startswith('romea::core::PointSetPreconditioner<') and len(f['params']) == 1 and not f.get('copyctor')
             and 'std::vector<' in f['sig']]
    if not ctors:
        R.undecided('B7', 'PointSetPreconditioner(points)', 'constructor taking a point set not found')
        return
    for f in sorted(ctors, key=lambda f: f['q']):
        R.used(f)
        cname = short_fn(f['cls'])
        pn = f['params'][0]['name']
        missed, why = [], None
        for n in (1, 2, 3, 1000):
            reached = []
            st = mini.Step(deep_unwrap)
            st.hooks['.compute'] = lambda t, env, reached=reached: reached.append(t) or 0
            env = {('.size', pn): n, ('.empty', pn): False, pn: 0.0}
            try:
                st.call(f['body'], env)
            except mini.Unsupported as e:
                why = str(e)
                break
            if not any(len(t) >= 3 and t[2] == pn for t in reached):
                missed.append(n)
        inst = '%s(points):reaches-compute' % cname
        if why:
            R.undecided('B7', inst, 'constructor body not interpretable: %s' % why, fx.rel(f['loc']), 'E-STEP')
        elif missed:
            R.violated('B7', 'PointSetPreconditioner(points):reaches-compute', 'for a set of %s point(s) the constructor returns without handing the set to compute(): minimum, maximum, mean and scale keep the values of the default '
                       'constructor instead of the extrema and centroid of the set (sets of 1..1000 points are inside the quantifier) [%s]' % (', '.join(map(str, missed)), cname), fx.rel(f['loc']), 'E-STEP')
        else:
            R.holds('B7', inst, 'compute(%s) is reached for sets of 1, 2, 3 and 1000 points' % pn, fx.rel(f['loc']), 'E-STEP')


def seed_node(f, varname):
    """The argument node of X::Constant(<seed>) in the declaration of the accumulator."""
    for x in walk(f['body']):
        if x.get('k') == 'Decl':
            for v in x['vars']:
                if v['name'] == varname and v.get('init') is not None:
                    for y in walk(v['init']):
                        if y.get('k') == 'Call' and (y.get('fn') or '').endswith('::Constant') and len(y.get('args', [])) == 1:
                            return y['args'][0]
    return None


def check_containers(fx, R):
    """EigenContainers min / max / mean (header-only; instantiated in the synthetic unit for Array2d / Array3f / Vector2d / Vector3f)."""
    fns = [f for f in fx.functions.values() if any(f['q'].startswith('romea::core::%s<std::vector<' % n) for n in ('min', 'max', 'mean'))]
    if len(fns) < 6:
        R.undecided('B1', 'EigenContainers', 'only %d instantiations of min/max/mean found (6 expected in the synthetic unit)' % len(fns))
    for f in sorted(fns, key=lambda f: f['q']):
        R.used(f)
        kind = f['q'].split('<')[0].split('::')[-1]
        loc = fx.rel(f['loc'])
        tag = ' [%s]' % short_fn(f['q'])[:60]
        loops = [x for x in walk(f['body']) if x.get('k') == 'RangeFor']
        ex = exprs(f)
        rets = returns(f)
        whole = len(loops) == 1 and deep_unwrap(sx(loops[0]['range'])) == 'points'
        R.form(whole, 'B7', 'EigenContainers::%s:range' % kind, 'the loop does not run over the whole container%s' % tag, 'visits every point' + tag, loc, 'E-STATE')
        if kind in ('min', 'max'):
            acc = rets[0] if len(rets) == 1 and isinstance(rets[0], str) else None
            upd = [s_ for s_ in ex if isinstance(s_, tuple) and s_[0] == '=' and s_[1] == acc]
            okop = len(upd) == 1 and upd[0][2] in (('.' + kind, acc, 'point'), ('.cwise' + kind.capitalize(), acc, 'point'))
            if acc is None or len(upd) != 1:
                # E-STEP: the loop body on one generic coordinate, from the seed and from ordered states
                from .. import mini
                verdict = None
                if acc is not None and len(loops) == 1:
                    seedn = seed_node(f, acc)
                    cvs = const_value(seedn) if seedn is not None else None
                    seedv = float('inf') if cvs == 'inf' else float('-inf') if cvs == '-inf' else float(cvs) if isinstance(cvs, (int, float)) else None
                    cases = ([(seedv, x_) for x_ in (-5.0, 0.0, 7.0)] if seedv is not None else []) + [(3.0, x_) for x_ in (1.0, 3.0, 5.0)]
                    ok_n = 0
                    for (a0, x_) in cases:
                        env = {acc: a0, 'points': x_}
                        try:
                            mini.Step(deep_unwrap, aliases={loops[0]['var']['name']: 'points'}).run(loops[0]['b'], env)
                        except mini.Unsupported as e:
                            verdict = ('undecided', str(e))
                            break
                        want_ = min(a0, x_) if kind == 'min' else max(a0, x_)
                        if env[acc] != want_:
                            verdict = ('violated', 'from the accumulator value %g the point coordinate %g leaves %g; the running %simum is %g' % (a0, x_, env[acc], kind, want_))
                            break
                        ok_n += 1
                    if verdict is None:
                        verdict = ('holds', ok_n)
                if verdict is None or verdict[0] == 'undecided':
                    R.undecided('B7', 'EigenContainers::%s:update' % kind, 'accumulator update not recognised%s' % tag)
                elif verdict[0] == 'violated':
                    R.violated('B8', 'EigenContainers::%s:step' % kind, verdict[1] + tag, loc, 'E-STEP')
                else:
                    R.holds('B8', 'EigenContainers::%s:step%s' % (kind, tag), 'loop body yields the running %simum on %d witness states (seed state included)' % (kind, verdict[1]), loc, 'E-STEP')
                continue
            R.form(okop, 'B7', 'EigenContainers::%s:update' % kind, 'running %simum is updated by %s%s' % (kind, upd[0][2], tag), 'acc <- %s(acc, point)' % kind + tag, loc, 'E-SIB')
            seed = seed_node(f, acc)
            cv = const_value(seed) if seed is not None else None
            t = strip_casts(seed)['t'] if seed is not None else {}
            if cv is None or t.get('bits') not in LOWEST:
                R.undecided('B1', 'EigenContainers::%s:seed' % kind, 'seed not a folded floating constant%s' % tag)
                continue
            lowest = LOWEST[t['bits']]
            ok = (cv == '-inf' or (isinstance(cv, (int, float)) and cv <= lowest)) if kind == 'max' else (cv == 'inf' or (isinstance(cv, (int, float)) and cv >= -lowest))
            R.check(ok, 'B1', 'EigenContainers::%s:seed' % kind, 'running %simum seeded with %s = %s, which is not %s every %d-bit input%s' % (kind, pp(seed), cv, '<=' if kind == 'max' else '>=', t['bits'], tag),
                    'seed %s = %s' % (pp(seed), cv) + tag, loc, 'E-INT')
        else:
            acc = rets[0] if len(rets) == 1 and isinstance(rets[0], str) else None
            ok = acc is not None and ('+=', acc, 'point') in ex and ('/=', acc, ('.size', 'points')) in ex and ex.index(('+=', acc, 'point')) < ex.index(('/=', acc, ('.size', 'points')))
            R.form(ok, 'B7', 'EigenContainers::mean', 'mean is %s, expected (sum of the points) / size%s' % (ex, tag), 'mean = sum / size' + tag, loc, 'E-ALG')


# ---------------------------------------------------------------------------------------------
def check_aabb(fx, R):
    fns = fx.find(r'romea::core::AxisAlignedBoundingBox<[^>]*>::isInside')
    if len(fns) < 4:
        R.undecided('B2', 'AxisAlignedBoundingBox::isInside', 'only %d instantiations found' % len(fns))
    for f in sorted(fns, key=lambda f: f['q']):
        R.used(f)
        cname = short_fn(f['cls'])
        r = returns(f)
        b = {}
        pat = ('$RED', ('$CMP', ({'.abs', '.cwiseAbs'}, ('-', '$A', '$B')), 'this.halfWidthExtents_'))
        if len(r) == 1 and m(pat, r[0], b) and {b['$A'], b['$B']} == {'point', 'this.centerPosition_'}:
            ok = b['$RED'] in ('.all', '.prod') and b['$CMP'] == '<='
            R.check(ok, 'B2', '%s::isInside' % cname, 'containment is `%s` of `|p-c| %s h`; the closed box needs `<=` on every coordinate (all/prod)' % (b['$RED'], b['$CMP']),
                    '|p-c| <= h on all coordinates', fx.rel(f['loc']), 'E-ORD')
        else:
            # E-STEP: the predicate on one generic coordinate (point p, centre c, half extent h) on witness cells
            from .. import mini
            body_txt = str([deep_unwrap(sx(x.get('e'))) for x in walk(f['body']) if x.get('k') == 'Return' and x.get('e') is not None] +
                           [deep_unwrap(sx(v['init'])) for x in walk(f['body']) if x.get('k') == 'Decl' for v in x['vars'] if v.get('init') is not None])
            if not all(nm_ in body_txt for nm_ in ("'point'", "'this.centerPosition_'", "'this.halfWidthExtents_'")):
                R.undecided('B2', '%s::isInside' % cname, 'containment idiom not recognised: %s' % (r,))
            else:
                bad, n_ok, why = None, 0, None
                for h in (0.0, 1.0, 2.5):
                    for c_ in (0.0, -3.0):
                        for u in (-h - 1, -h, -h / 2, 0.0, h / 2, h, h + 1):
                            try:
                                got = mini.Step(deep_unwrap).call(f['body'], {'point': c_ + u, 'this.centerPosition_': c_, 'this.halfWidthExtents_': h})
                            except mini.Unsupported as e:
                                why = str(e)
                                break
                            if bool(got) != (abs(u) <= h):
                                bad = bad or (c_ + u, c_, h, got)
                            else:
                                n_ok += 1
                        if why:
                            break
                    if why:
                        break
                if why:
                    R.undecided('B2', '%s::isInside' % cname, 'containment predicate not interpretable on scalars: %s' % why)
                elif bad:
                    R.violated('B2', 'AxisAlignedBoundingBox::isInside:predicate', 'for a coordinate %g of the point, centre %g and half extent %g the predicate evaluates to %s, `|p - c| <= h` is %s [%s]' % (
                        bad[0], bad[1], bad[2], bool(bad[3]), abs(bad[0] - bad[1]) <= bad[2], cname), fx.rel(f['loc']), 'E-STEP')
                else:
                    R.holds('B2', '%s::isInside' % cname, 'predicate agrees with |p - c| <= h on %d witness cells (zero, unit and generic extents; inside, on the face, outside)' % n_ok, fx.rel(f['loc']), 'E-STEP')
    # B4 round trip
    for cq in sorted({f['cls'] for f in fns}):
        cname = short_fn(cq)
        ctor = [g for g in fx.functions.values() if g.get('ctor') and g.get('cls') == cq and 'Interval<' in g['sig']]
        ti = fx.one(cq + '::toInterval')
        dim = cq.rstrip('>').split(',')[-1].strip()
        sc = cq.split('<')[1].split(',')[0]
        iq = 'romea::core::Interval<%s, %s>' % (sc, dim)
        fc, fw = fx.one(iq + '::center'), fx.one(iq + '::width')
        if len(ctor) != 1 or ti is None:
            R.undecided('B4', cname, 'interval constructor or toInterval vanished')
            continue
        R.used(ctor[0], ti, fc, fw)
        u, l = sp.symbols('u l', real=True)
        inits = {i.get('field'): deep_unwrap(sx(i['e'])) for i in ctor[0]['inits']}
        cexp = hexp = None
        # Interval::center / width bodies (generic template instantiation present in the synthetic unit)
        cdef = returns(fc)[0] if fc is not None else None
        wdef = returns(fw)[0] if fw is not None else None
        env = {'this.upper_': u, 'this.lower_': l}
        cval = to_sym(cdef, env) if cdef is not None else None
        wval = to_sym(wdef, env) if wdef is not None else None
        if cval is None or wval is None:
            R.undecided('B4', cname, 'Interval::center/width of %s not found or not interpretable (%s, %s)' % (iq, cdef, wdef))
            continue
        env2 = {('.center', 'extremities'): cval, ('.width', 'extremities'): wval}
        c = to_sym(inits.get('centerPosition_'), env2)
        h = to_sym(inits.get('halfWidthExtents_'), env2)
        r = returns(ti)
        if c is None or h is None or len(r) != 1 or not (isinstance(r[0], tuple) and len(r[0]) == 3):
            R.undecided('B4', cname, 'box-from-interval constructor or toInterval not interpretable: %s %s' % (inits, r))
            continue
        env3 = {'this.centerPosition_': c, 'this.halfWidthExtents_': h}
        lo, hi = to_sym(r[0][1], env3), to_sym(r[0][2], env3)
        ok = lo is not None and hi is not None and sp.simplify(lo - l) == 0 and sp.simplify(hi - u) == 0
        R.check(ok, 'B4', '%s:interval-round-trip' % cname, 'AABB(interval).toInterval() = {%s, %s}, expected {l, u}' % (lo, hi),
                '(u+l)/2 -+ (u-l)/2 = l, u', fx.rel(ti['loc']), 'E-ALG')


def to_sym(s, env):
    if s is None:
        return None
    if isinstance(s, (int, float)):
        return sp.nsimplify(s)
    if s in env:
        return env[s]
    if isinstance(s, tuple):
        if s in env:
            return env[s]
        if s[0] in ('+', '-', '*', '/') and len(s) == 3:
            a, b = to_sym(s[1], env), to_sym(s[2], env)
            if a is None or b is None:
                return None
            return {'+': a + b, '-': a - b, '*': a * b, '/': a / b}[s[0]]
        if s[0] == 'u-' and len(s) == 2:
            a = to_sym(s[1], env)
            return None if a is None else -a
    return None


def compute_by_value(fx, f):
    """compute() run (E-STEP: real loops over concrete sequences, one coordinate of every point) on witness sets of 1..9 points whose extreme values sit at the first, the last and an interior position,
    in every octant: afterwards the stored minimum, maximum and mean must be the true ones.  None when not runnable."""
    from .. import mini
    from .C09 import _sizes
    sets_ = []
    for n_ in (1, 2, 3, 4, 5, 6, 7, 9):
        base = [float((k_ * 7) % 5) - 2.0 for k_ in range(n_)]
        for pos in sorted({0, n_ - 1, n_ // 2}):
            for ext in (50.0, -50.0):
                pts = list(base)
                pts[pos] = ext
                sets_.append(pts)
        sets_.append([-3.0 - k_ for k_ in range(n_)])          # all negative
    pn = f['params'][0]['name']
    n_ok = 0
    for pts in sets_:
        S = mini.list_hooks(mini.Step(deep_unwrap), loops=2000)

        def set_const(t, env, S=S):
            env[S.key(t[1])] = S.ev(t[2], env) if len(t) > 2 else 0.0
            return 0
        S.hooks['.setConstant'] = set_const
        S.hooks['.fill'] = set_const
        S.hooks['.setZero'] = lambda t, env, S=S: env.__setitem__(S.key(t[1]), 0.0) or 0
        S.hooks['.head'] = lambda t, env, S=S: S.ev(t[1], env)
        S.hooks['.maxCoeff'] = lambda t, env, S=S: S.ev(t[1], env)
        env = {pn: list(pts), 'this.pointSetMin_': 0.0, 'this.pointSetMax_': 0.0, 'this.pointSetMean_': 0.0, 'this.scale_': 1.0, 'this.translation_': 0.0, 'CARTESIAN_DIM': 1}
        try:
            S.call(f['body'], env)
        except (mini.Unsupported, TypeError, KeyError, ZeroDivisionError, IndexError):
            return None
        got = (env.get('this.pointSetMin_'), env.get('this.pointSetMax_'), env.get('this.pointSetMean_'))
        if not all(isinstance(g_, (int, float)) for g_ in got):
            return None
        want = (min(pts), max(pts), sum(pts) / len(pts))
        if abs(got[0] - want[0]) > 1e-9 or abs(got[1] - want[1]) > 1e-9 or abs(got[2] - want[2]) > 1e-9:
            which = 'minimum' if abs(got[0] - want[0]) > 1e-9 else 'maximum' if abs(got[1] - want[1]) > 1e-9 else 'mean'
            return ('violated', 'running compute() on the %d-point set with coordinate values %s leaves minimum %g, maximum %g, mean %g; the true ones are %g, %g, %g: the %s is wrong (sets of 1..1000 points '
                    'of any parity, with their extreme at any position, are inside the quantifier)' % (len(pts), pts, got[0], got[1], got[2], want[0], want[1], want[2], which))
        n_ok += 1
    return ('holds', 'compute() run on %d witness sets (1..9 points, extreme value first / last / interior, both signs): minimum, maximum and mean are the true ones' % n_ok)


def loop_coverage(f, L, cont='points', sizes=(1, 2, 3, 7, 100, 511, 512, 513, 777, 1000)):
    """E-STEP: the loop control (and the integer declarations in front of it) evaluated on witness set sizes; the subscripts of `cont` must be 0..N-1"""
    from .. import mini
    from .C09 import _incr, _sizes
    top = f['body']['s'] if f.get('body') and f['body'].get('k') == 'Compound' else []
    if not any(x is L for x in top):
        return ('undecided', 'loop is not a top-level statement')
    subs_ = []
    for x in walk(L['b']):
        if isinstance(x, dict) and x.get('k') in ('Op', 'Index'):
            t_ = deep_unwrap(sx(x))
            if isinstance(t_, tuple) and len(t_) == 3 and t_[0] == '[]' and t_[1] == cont and t_[2] not in subs_:
                subs_.append(t_[2])
    if not subs_:
        return ('undecided', 'no subscript of `%s` in the loop' % cont)
    norm = lambda t: _sizes(deep_unwrap(t))
    consts = {}
    for y in walk(f['body']):
        if isinstance(y, dict) and y.get('k') == 'Ref' and isinstance(y.get('cv'), (int, float)) and not isinstance(y.get('cv'), bool) and y.get('rk') != 'local':
            consts.setdefault(y['name'], y['cv'])          # namespace-scope constants the front end folded
    for N in sizes:
        env = dict(consts)
        env[cont] = N
        stp = mini.Step(norm)
        try:
            for x in top[:top.index(L)]:
                if x.get('k') == 'Decl' and all((v['t'].get('c') == 'int') for v in x['vars']):
                    stp.run(x, env)
            if L.get('init') is not None:
                stp.run(L['init'], env)
            seen, it = [], 0
            while stp.ev(norm(sx(L['c'])), env):
                seen += [stp.ev(norm(e_), env) for e_ in subs_]
                inc = deep_unwrap(sx(L['inc']))
                incs = list(inc[1:]) if isinstance(inc, tuple) and inc and inc[0] == ',' else [inc]
                for i_ in incs:
                    stp.ev(_incr(i_) if isinstance(i_, tuple) and i_[0] in ('u++', '++u', 'u--', '--u') else i_, env)
                it += 1
                if it > 5000:
                    return ('undecided', 'loop does not end')
        except (mini.Unsupported, mini.Returned) as e:
            return ('undecided', 'loop control not interpretable: %s' % e)
        if sorted(seen) != list(range(N)):
            missing = sorted(set(range(N)) - set(seen))
            return ('violated', N, pp(L.get('init'))[:60] if L.get('init') is not None else '', pp(L['c'])[:60], pp(L['inc'])[:60], (str(seen[:6])[:-1] + ', ...]') if len(seen) > 6 else str(seen), len(missing))
    return ('holds', ', '.join(str(n_) for n_ in sizes))


def early_reject(fx, R, f, cname):
    """A return that precedes the box-frame test of isInside, read on witness boxes (identity rotation, half extents equal / unequal / with a zero
    one) and witness points that ARE in the box (centre, face centres, corners, half-way points): a path that returns false for one of them
    rejects a point of the box.  True when a verdict was reported."""
    import itertools
    from .. import sym, mat
    top = f['body']['s'] if f.get('body') and f['body'].get('k') == 'Compound' else []
    if not top or top[-1].get('k') != 'Return' or not any(x.get('k') == 'If' and any(y.get('k') == 'Return' for y in walk(x)) for x in top[:-1]):
        return False
    dim = int(f['cls'].rstrip('>').split(',')[-1])
    hs = [(1, 1), (1, 3), (0, 2)] if dim == 2 else [(1, 1, 1), (1, 2, 3), (2, 2, 1), (0, 1, 1)]
    c = [sp.Rational(1, 2), -sp.Integer(2), sp.Integer(3)][:dim]
    inst = '%s::isInside:early-return' % cname
    n_ = 0
    for h in hs:
        for signs in itertools.product((-1, 0, 1, sp.Rational(1, 2)), repeat=dim):
            u = [s_ * h_ for s_, h_ in zip(signs, h)]
            st = sym.State()
            st.fields[('this', 'aabb_', 'centerPosition_')] = sp.ImmutableMatrix(c)
            st.fields[('this', 'aabb_', 'halfWidthExtents_')] = sp.ImmutableMatrix([sp.Integer(x) for x in h])
            st.fields[('this', 'rotation_')] = sp.ImmutableMatrix(sp.eye(dim))
            st.locals[f['params'][0]['id']] = sp.ImmutableMatrix([a + b for a, b in zip(c, u)])
            rd = sym.Reader(fx, call_hook=mat.hook, member_hook=mat.member_hook)
            ctx = {'this': ('this',), 'fn': f, 'depth': 0}
            try:
                states = [st]
                for x in top[:-1]:
                    nxt = []
                    for s2 in states:
                        nxt += [s2] if s2.returned else rd.ex(x, s2, ctx)
                    states = nxt
            except sym.Unsupported as e:
                R.undecided('B2', inst, 'statements before the box-frame test not interpretable: %s' % e)
                return True
            if len(states) != 1:
                R.undecided('B2', inst, 'the guard before the box-frame test is not decided for the witness box %s and point offset %s' % (h, u))
                return True
            n_ += 1
            s2 = states[0]
            if s2.returned and s2.ret in (0, sp.false, False, sp.Integer(0)):
                cond = ' && '.join(('' if c_[2] else '!') + c_[0] for c_ in s2.cond)
                R.violated('B2', 'OrientedBoundingBox::isInside:early-reject', 'for the box of half extents %s (identity rotation) the point at box-frame coordinates %s - inside the box, |u_i| <= h_i on every axis - '
                           'is rejected by the return that precedes the box-frame test (`%s`): the oriented box does not contain a point that, expressed in its frame, it contains [%s]' % (
                               list(h), [str(x) for x in u], cond, cname), fx.rel(f['loc']), 'E-STEP')
                return True
    R.holds('B2', inst, 'no return before the box-frame test rejects any of %d witness points of the witness boxes' % n_, fx.rel(f['loc']), 'E-STEP')
    return False


def check_obb(fx, R):
    fns = fx.find(r'romea::core::OrientedBoundingBox<[^>]*>::isInside')
    if len(fns) < 4:
        R.undecided('B2', 'OrientedBoundingBox::isInside', 'only %d instantiations found' % len(fns))
    for f in sorted(fns, key=lambda f: f['q']):
        R.used(f)
        cname = short_fn(f['cls'])
        r = returns(f)
        b = {}
        C, H = ('.getCenterPosition', 'this.aabb_'), ('.getHalfWidthExtents', 'this.aabb_')
        pat = ('$RED', ('$CMP', ({'.abs', '.cwiseAbs'}, ('*', ('$TR', 'this.rotation_'), ('-', 'point', C))), H))
        if len(r) == 1 and m(pat, r[0], b):
            ok = b['$RED'] in ('.all', '.prod') and b['$CMP'] == '<=' and b['$TR'] in ('.transpose', '.inverse')
            R.check(ok, 'B2', '%s::isInside' % cname, 'containment is `%s` of `|%s(R)(p-c)| %s h`; needs the box-frame coordinates R^T(p-c), `<=`, all coordinates' % (b['$RED'], b['$TR'], b['$CMP']),
                    '|R^T(p-c)| <= h on all coordinates', fx.rel(f['loc']), 'E-ORD')
        elif len(r) == 1 and m(('$RED', ('$CMP', ({'.abs', '.cwiseAbs'}, ('*', 'this.rotation_', ('-', 'point', C))), H)), r[0], {}):
            R.violated('B2', '%s::isInside' % cname, 'the point is expressed with R instead of R^T: containment is tested in the wrong frame (equal only for symmetric rotations)', fx.rel(f['loc']), 'E-ORD')
        else:
            # E-STEP: the predicate on one generic box-frame coordinate u = (R^T (p - c))_i with half extent h, on witness cells
            from .. import mini
            frame = [('*', (tr, 'this.rotation_'), ('-', 'point', C)) for tr in ('.transpose', '.inverse')]
            wrong = ('*', 'this.rotation_', ('-', 'point', C))

            def to_u(t):
                t = deep_unwrap(t)
                def rep(x):
                    if x in frame:
                        return 'u'
                    if x == H:
                        return 'h'
                    if isinstance(x, tuple):
                        return tuple(rep(y) for y in x)
                    return x
                return rep(t)
            body_sx = str([to_u(sx(x.get('e'))) for x in walk(f['body']) if x.get('k') in ('Return',) and x.get('e') is not None] +
                          [to_u(sx(v['init'])) for x in walk(f['body']) if x.get('k') == 'Decl' for v in x['vars'] if v.get('init') is not None])
            if str(wrong) in str([deep_unwrap(sx(x['e'])) for x in walk(f['body']) if x.get('k') == 'Return' and x.get('e') is not None] +
                                 [deep_unwrap(sx(v['init'])) for x in walk(f['body']) if x.get('k') == 'Decl' for v in x['vars'] if v.get('init') is not None]) and "'u'" not in body_sx:
                R.violated('B2', '%s::isInside' % cname, 'the point is expressed with R instead of R^T: containment is tested in the wrong frame (equal only for symmetric rotations)', fx.rel(f['loc']), 'E-ORD')
            elif early_reject(fx, R, f, cname):
                pass
            elif "'u'" not in body_sx or "'h'" not in body_sx:
                R.undecided('B2', '%s::isInside' % cname, 'containment idiom not recognised: %s' % (r,))
            else:
                bad, n_ok, why = None, 0, None
                for h in (0.0, 1.0, 2.5, 2.0 ** -30):
                    # inside, on the face, outside - and just outside the face by an amount that is small in absolute terms but far above the rounding of the operands (2^-30, and 2^-40 of a unit box):
                    # "contains exactly when" leaves no absolute slack, whatever the size of the box
                    for u in (-h - 1, -h, -h / 2, 0.0, h / 2, h, h + 1, h + 2.0 ** -30, -(h + 2.0 ** -30), h * (1 + 2.0 ** -20) if h else 2.0 ** -40, 26 * h if 0 < h < 1e-6 else h + 1):
                        try:
                            got = mini.Step(to_u).call(f['body'], {'u': u, 'h': h})
                        except mini.Unsupported as e:
                            why = str(e)
                            break
                        if bool(got) != (abs(u) <= h):
                            bad = bad or (u, h, got)
                        else:
                            n_ok += 1
                    if why:
                        break
                if why:
                    R.undecided('B2', '%s::isInside' % cname, 'containment predicate not interpretable on scalars: %s' % why)
                elif bad:
                    R.violated('B2', 'OrientedBoundingBox::isInside:predicate', 'for a box-frame coordinate %g and half extent %g the predicate evaluates to %s, `|u| <= h` is %s%s [%s]' % (
                        bad[0], bad[1], bool(bad[2]), abs(bad[0]) <= bad[1],
                        ' (0/0 is NaN and compares false: a box with a zero extent rejects the points of its own plate, its centre included)' if bad[1] == 0 and not bad[2] else
                        ' (the comparison carries an ABSOLUTE slack: points outside a face by less than it are reported inside, and a box smaller than the slack contains points many half-extents away)'
                        if bad[2] and abs(bad[0]) > bad[1] else '', cname), fx.rel(f['loc']), 'E-STEP')
                else:
                    R.holds('B2', '%s::isInside' % cname, 'predicate agrees with |u| <= h on %d witness cells (zero, unit and generic extents; inside, on the face, outside)' % n_ok, fx.rel(f['loc']), 'E-STEP')
        for g, want in (('getCenterPosition', C), ('getHalfWidthExtents', H)):
            gf = fx.one(f['cls'] + '::' + g)
            af = fx.one(f['cls'].replace('OrientedBoundingBox', 'AxisAlignedBoundingBox') + '::' + g)
            R.used(gf, af)
            okg = gf is not None and returns(gf) == [want] and af is not None and returns(af) == ['this.' + ('centerPosition_' if 'Center' in g else 'halfWidthExtents_')]
            R.form(okg, 'B2', '%s::%s' % (cname, g), 'accessor does not return the stored centre/half extent', 'accessor returns the stored field', fx.rel(gf['loc']) if gf else None, 'E-SIB')
        # B6
        t = fx.one(f['cls'] + '::toAxisAlignedBoundingBox')
        if t is None:
            R.undecided('B6', cname, 'toAxisAlignedBoundingBox vanished')
            continue
        R.used(t)
        dim = int(f['cls'].rstrip('>').split(',')[-1])
        loops = [x for x in walk(t['body']) if x.get('k') == 'For']
        inst = '%s::toAxisAlignedBoundingBox' % cname
        if not loops:
            # vectorised idiom:  |R| * h   (row i = sum_n |R(i,n)| h(n))
            ret = returns(t)
            decls = {v['name']: deep_unwrap(sx(v['init'])) for s_ in walk(t['body']) if s_.get('k') == 'Decl' for v in s_['vars'] if v.get('init') is not None}
            ext = ret[0][2] if len(ret) == 1 and isinstance(ret[0], tuple) and len(ret[0]) == 3 else None
            if isinstance(ext, str) and ext in decls:
                ext = decls[ext]
            good = [('*', (a, 'this.rotation_'), H) for a in ('.cwiseAbs', '.abs')]
            bad = [('*', (a, ('.transpose', 'this.rotation_')), H) for a in ('.cwiseAbs', '.abs')] + [('*', ('.transpose', (a, 'this.rotation_')), H) for a in ('.cwiseAbs', '.abs')]
            if ext in good and ret[0][1] == C:
                R.holds('B6', inst, 'half extent = |R| * h, same centre', fx.rel(t['loc']), 'E-SIB')
            elif ext in bad:
                R.violated('B6', inst, 'enclosing half extent is |R|^T * h (%s): component i must be sum_n |R(i,n)| h(n), i.e. |R| * h; the transposed form does not contain the box for rotations '
                           'about more than one axis' % (ext,), fx.rel(t['loc']), 'E-SIB')
            else:
                vb = enclosing_by_value(fx, t, f['cls'], dim)
                if vb[0] == 'holds':
                    R.holds('B6', inst, vb[1], fx.rel(t['loc']), 'E-ALG')
                elif vb[0] == 'violated':
                    R.violated('B6', 'OrientedBoundingBox::toAxisAlignedBoundingBox:value', vb[1] + ' [%s]' % cname, fx.rel(t['loc']), 'E-ALG')
                else:
                    R.undecided('B6', inst, 'enclosing-extent idiom not recognised: %s; %s' % (ret, vb[1]))
            continue
        if len(loops) != 1:
            R.undecided('B6', inst, '%d loops in toAxisAlignedBoundingBox' % len(loops))
            continue
        L = loops[0]
        init = L.get('init')
        v = init['vars'][0] if init and init['k'] == 'Decl' and len(init['vars']) == 1 else None
        bound = const_value(strip_casts(L['c'])['r']) if strip_casts(L['c']).get('k') == 'Bin' else None
        cond = sx(L['c'])
        canon = v is not None and const_value(v.get('init')) == 0 and isinstance(cond, tuple) and cond[0] == '<' and cond[1] == v['name'] and sx(L['inc']) in (('u++', v['name']),) and bound is not None
        body = [deep_unwrap(sx(x['e'])) for x in walk(L['b']) if x.get('k') == 'Expr']
        n = v['name'] if v else '?'
        term = ('.abs', ('*', ('.col', 'this.rotation_', n), ('()', H, n)))
        term2 = ('.abs', ('*', ('()', H, n), ('.col', 'this.rotation_', n)))
        rowterm = ('.abs', ('*', ('.row', 'this.rotation_', n), ('()', H, n)))
        if not canon or len(body) != 1 or not (isinstance(body[0], tuple) and body[0][0] == '+='):
            vb = enclosing_by_value(fx, t, f['cls'], dim)
            if vb[0] == 'holds':
                R.holds('B6', inst, vb[1], fx.rel(t['loc']), 'E-ALG')
            elif vb[0] == 'violated':
                R.violated('B6', 'OrientedBoundingBox::toAxisAlignedBoundingBox:value', vb[1] + ' [%s]' % cname, fx.rel(t['loc']), 'E-ALG')
            else:
                R.undecided('B6', inst, 'column loop idiom not recognised: cond %s body %s; %s' % (cond, body, vb[1]))
            continue
        accname = body[0][1]
        decl = [vv for s_ in walk(t['body']) if s_.get('k') == 'Decl' for vv in s_['vars'] if vv['name'] == accname]
        zero = bool(decl) and 'Zero' in str(sx(decl[0].get('init')))
        ret = returns(t)
        # paths that leave before the accumulation loop
        from .. import earlyexit
        ttop = t['body']['s'] if t['body'] and t['body'].get('k') == 'Compound' else []
        li = next((i for i, x_ in enumerate(ttop) if x_ is L or any(y_ is L for y_ in walk(x_))), None)
        early = earlyexit.exits_before(ttop, li)
        for (node_, ctext_, tol_) in early:
            if tol_ and 'rotation' in ctext_:
                R.violated('B6', 'OrientedBoundingBox::toAxisAlignedBoundingBox:tolerance-exit', 'under `%s` the un-rotated box is returned; the test is %s, so a proper rotation by a tiny but non-zero angle (inside '
                           '"every proper rotation") takes the shortcut: the derived box has the extents h instead of |R| h, and for an elongated box (h_other * angle above rounding) corners of the oriented '
                           'box lie outside it [%s]' % (ctext_, tol_, cname), fx.rel(node_['loc']), 'E-STATE')
            else:
                R.undecided('B6', inst + ':early-exit', 'a path returns before the column loop under `%s`' % ctext_)
        main_ret = [r_ for r_ in ret if isinstance(r_, tuple) and r_[1:] == (C, accname)]
        ret_ok = len(main_ret) == 1 and len(ret) == 1 + len(early)
        if body[0][2] in (term, term2):
            ok = bound == dim and zero and ret_ok
            R.form(ok, 'B6', inst, 'half extent sums |R.col(n)*h(n)| over n < %s of %d columns; accumulator starts at zero: %s; result (centre, extents): %s' % (bound, dim, zero, ret_ok),
                   'half extent = sum_n |R.col(n) h(n)| over all %d columns, same centre' % dim, fx.rel(t['loc']), 'E-SIB',
                   facts=[(isinstance(bound, int) and bound < dim, 'the column loop stops at n < %s: the contribution of the last %d column(s) of the rotation is missing from the enclosing extents' % (bound, dim - (bound if isinstance(bound, int) else 0))),
                          (bool(decl) and not zero and 'Zero' not in str(sx(decl[0].get('init'))) and decl[0].get('init') is not None and 'halfWidth' in str(sx(decl[0].get('init'))),
                           'the accumulator starts at the un-rotated half extents instead of zero: every extent is too large by h (the box is not tight)')])
        elif isinstance(body[0][2], tuple) and contains_name(body[0][2], '.row'):
            R.violated('B6', inst, 'enclosing half extent accumulates rows of the rotation (%s): it must accumulate |R.col(n)| * h(n)' % (body[0][2],), fx.rel(t['loc']), 'E-SIB')
        else:
            R.undecided('B6', inst, 'accumulated term not recognised: %s' % (body[0][2],))


def check_interval(fx, R):
    classes = sorted(q for q in fx.records if q.startswith('romea::core::Interval<'))
    if len(classes) < 4:
        R.undecided('B3', 'Interval', 'only %d instantiations of Interval found' % len(classes))
    for cq in classes:
        cname = short_fn(cq)
        one_d = cq.endswith(', 1>')
        fi, fc = fx.one(cq + '::inside'), fx.one(cq + '::include')
        if fi is not None:
            R.used(fi)
            r = returns(fi)
            b = {}
            if one_d:
                pat = ('&&', ('$C1', 'val', '$B1'), ('$C2', 'val', '$B2'))
            else:
                pat = ('&&', ('$R1', ('$C1', 'val', '$B1')), ('$R2', ('$C2', 'val', '$B2')))
            if len(r) == 1 and m(pat, r[0], b):
                pairs = {b['$B1']: b['$C1'], b['$B2']: b['$C2']}
                ok = pairs.get('this.lower_') == '>=' and pairs.get('this.upper_') == '<=' and (one_d or (b['$R1'] in ('.all', '.prod') and b['$R2'] in ('.all', '.prod')))
                R.check(ok, 'B3', '%s::inside' % cname, 'inside() is %s; the closed interval needs val >= lower and val <= upper on every coordinate' % (r[0],),
                        'lower <= val <= upper on every coordinate', fx.rel(fi['loc']), 'E-ORD')
            else:
                from .. import mini
                bad, n_ok, why = None, 0, None
                for (l_, u_) in ((1.0, 3.0), (2.0, 2.0), (-4.0, -1.0)):
                    for v_ in (l_ - 1, l_, (l_ + u_) / 2, u_, u_ + 1):
                        try:
                            got_ = mini.Step(deep_unwrap).call(fi['body'], {'val': v_, 'this.lower_': l_, 'this.upper_': u_})
                        except mini.Unsupported as e:
                            why = str(e)
                            break
                        if bool(got_) != (l_ <= v_ <= u_):
                            bad = bad or (v_, l_, u_, got_)
                        else:
                            n_ok += 1
                    if why:
                        break
                if why:
                    R.undecided('B3', '%s::inside' % cname, 'idiom not recognised and not interpretable on scalars (%s): %s' % (why, r))
                elif bad:
                    R.violated('B3', 'Interval::inside:predicate', 'for the value %g and the interval [%g, %g] inside() evaluates to %s; the closed interval needs %s [%s]' % (
                        bad[0], bad[1], bad[2], bool(bad[3]), bad[1] <= bad[0] <= bad[2], cname), fx.rel(fi['loc']), 'E-STEP')
                else:
                    R.holds('B3', '%s::inside' % cname, 'predicate agrees with lower <= val <= upper on %d witness cells (degenerate interval and both closed ends included)' % n_ok, fx.rel(fi['loc']), 'E-STEP')
        else:
            R.undecided('B3', '%s::inside' % cname, 'inside() not instantiated')
        if fc is not None:
            R.used(fc)
            ex = exprs(fc)
            got = {}
            for s in ex:
                b = {}
                if m(('=', '$X', ('$F', '$X', ('$G', 'interval'))), s, b):
                    got[b['$X']] = (b['$F'], b['$G'])
            step_verdict = None
            has_control = any(x.get('k') in ('If', 'Return', 'For', 'While', 'Do', 'Switch', 'Cond') for x in walk(fc['body']))
            if 'this.lower_' not in got or 'this.upper_' not in got or has_control:
                # E-STEP: include() on one generic coordinate, on witness pairs of intervals
                from .. import mini

                def acc_names(t):
                    t = deep_unwrap(t)
                    def rep(x):
                        if x == ('.lower', 'interval'):
                            return 'ilo'
                        if x == ('.upper', 'interval'):
                            return 'ihi'
                        if x == ('.width', 'interval'):
                            return ('-', 'ihi', 'ilo')
                        if x == ('.center', 'interval'):
                            return ('/', ('+', 'ihi', 'ilo'), 2)
                        if isinstance(x, tuple):
                            return tuple(rep(y) for y in x)
                        return x
                    return rep(t)
                step_verdict = ('holds', 0)
                sname_ = 'float' if '<float' in (fc.get('cls') or '') else 'double'
                BIG = mini.MACHINE[sname_]['max']
                # receivers: a bounded interval, and intervals that are unbounded along the axis (both extremities at the largest number: a default-constructed interval, a region of interest without a
                # limit along one axis) or half-bounded - every pair of intervals is inside the quantifier
                pairs_ = [((1.0, 3.0), (il, iu)) for (il, iu) in ((0.0, 2.0), (2.0, 5.0), (0.0, 5.0), (1.5, 2.5), (4.0, 6.0), (-3.0, -2.0), (4.0, 4.0), (0.0, 0.0), (2.0, 2.0), (1.0, 1.0), (3.0, 3.0))]
                pairs_ += [((-BIG, BIG), (20.0, 30.0)), ((-BIG, 3.0), (0.0, 5.0)), ((1.0, BIG), (-2.0, 2.0)), ((-BIG, BIG), (-BIG, BIG))]
                for ((rl, ru), (il, iu)) in pairs_:
                    env = {'this.lower_': rl, 'this.upper_': ru, 'ilo': il, 'ihi': iu}
                    try:
                        stp_ = mini.Step(acc_names)
                        stp_.fallback = mini.inliner(fx, stp_, cls=fc.get('cls'))          # include() written with the class's own predicates (inside(), width()...)
                        stp_.hooks['.select'] = lambda t, env_, stp_=stp_: (stp_.ev(t[2], env_) if stp_.ev(t[1], env_) else stp_.ev(t[3], env_)) if len(t) == 4 else (_ for _ in ()).throw(mini.Unsupported('select'))
                        stp_.call(fc['body'], env)
                    except mini.Unsupported as e:
                        step_verdict = ('undecided', str(e))
                        break
                    want_ = (min(rl, il), max(ru, iu))
                    if (env['this.lower_'], env['this.upper_']) != want_:
                        fmt_ = lambda v_: 'max' if v_ == BIG else '-max' if v_ == -BIG else '%g' % v_
                        step_verdict = ('violated', 'including [%s, %s]%s into [%s, %s] leaves [%s, %s]; the hull is [%s, %s]%s' % (
                            fmt_(il), fmt_(iu), ' (zero width: a point, which the quantifier names)' if il == iu else '', fmt_(rl), fmt_(ru), fmt_(env['this.lower_']), fmt_(env['this.upper_']), fmt_(want_[0]), fmt_(want_[1]),
                            ' - a receiver that is unbounded along the axis (the default-constructed interval, a region without a limit along one axis) SHRINKS to the included interval: the result no longer '
                            'contains the receiver' if (rl, ru) == (-BIG, BIG) else ''))
                        break
                    step_verdict = ('holds', step_verdict[1] + 1)
                if step_verdict[0] == 'holds':
                    R.holds('B5', '%s::include:step' % cname, 'include() yields the hull on %d witness pairs (overlapping, nested, disjoint on either side, zero-width intervals inside, outside and on the ends)' % step_verdict[1], fx.rel(fc['loc']), 'E-STEP')
                    continue
                if step_verdict[0] == 'violated':
                    R.violated('B5', 'Interval::include:step', step_verdict[1] + ' [%s]' % cname, fx.rel(fc['loc']), 'E-STEP')
                    continue
            for fld, fmin, acc in (('this.lower_', 'min', '.lower'), ('this.upper_', 'max', '.upper')):
                g = got.get(fld)
                inst = '%s::include:%s' % (cname, fld[5:])
                if g is None:
                    mentions = [s_ for s_ in ex if contains_name(s_, fld)] + [x for x in walk(fc['body']) if x.get('k') == 'If']
                    if mentions:
                        R.undecided('B5', inst, 'include() treats %s in a form that is not enumerated: %s' % (fld, ex))
                    else:
                        R.violated('B5', inst, 'no statement of include() mentions %s: the bound is never extended by the other interval' % fld, fx.rel(fc['loc']), 'E-SIB')
                    continue
                fname = g[0].lower()
                okf = (fmin in fname) and not (('max' if fmin == 'min' else 'min') in fname)
                R.check(okf and g[1] == acc, 'B5', inst, '%s <- %s(%s, interval%s()): the hull needs %s(%s, interval%s())' % (fld, g[0], fld, g[1], fmin, fld, acc),
                        '%s <- %s(%s, other%s)' % (fld, fmin, fld, acc), fx.rel(fc['loc']), 'E-SIB')
        else:
            R.undecided('B5', '%s::include' % cname, 'include() not instantiated')
        for g, fld in (('lower', 'this.lower_'), ('upper', 'this.upper_')):
            gf = fx.one(cq + '::' + g)
            if gf is not None:
                R.used(gf)
                R.form(returns(gf) == [fld], 'B5', '%s::%s' % (cname, g), '%s() returns %s' % (g, returns(gf)), 'accessor returns its bound', fx.rel(gf['loc']), 'E-SIB')


def enclosing_by_value(fx, t, cls, dim):
    """B6 by value: toAxisAlignedBoundingBox() is read (every path) on a box with a symbolic rotation matrix, symbolic positive half extents and a symbolic centre; the box it constructs must have the same
    centre and the half extents |R| h - component i = sum_n |R(i,n)| h(n), the extent of the rotated corners, which is both enclosing and tight.  Decided on witness rotations about each axis (a roll, a
    pitch and a yaw of 30 degrees and a compound one), so a formula that is right for rotations about the vertical axis only is told apart."""
    from .. import sym, mat
    Rm = sp.ImmutableMatrix(dim, dim, lambda i, j: sp.Symbol('r%d%d' % (i, j), real=True))
    h = sp.ImmutableMatrix([sp.Symbol('h%d' % i, positive=True) for i in range(dim)])
    c = sp.ImmutableMatrix([sp.Symbol('c%d' % i, real=True) for i in range(dim)])

    def hook(rd, e, st, ctx):
        if e.get('k') == 'Construct' and 'AxisAlignedBoundingBox<' in e['t']['s'] and len(e.get('args', [])) == 2:
            return [(('aabb',) + tuple(vals), s2) for (vals, s2) in rd.evs(e['args'], st, ctx)]
        return mat.hook(rd, e, st, ctx)
    arec = next((r_ for q_, r_ in fx.records.items() if q_.startswith('romea::core::AxisAlignedBoundingBox<') and q_.endswith(', %d>' % dim)), None)
    names = [x_['name'] for x_ in (arec or {}).get('fields', [])]
    if 'centerPosition_' not in names or 'halfWidthExtents_' not in names:
        return ('undecided', 'fields of the axis-aligned box not found')
    st0 = sym.State()
    st0.fields[('this', 'rotation_')] = Rm
    st0.fields[('this', 'aabb_', 'centerPosition_')] = c
    st0.fields[('this', 'aabb_', 'halfWidthExtents_')] = h
    rd = sym.Reader(fx, call_hook=hook, member_hook=mat.member_hook)
    rd.unroll = 4
    try:
        sts = rd.run(t, state=st0)
    except sym.Unsupported as u:
        return ('undecided', 'not readable by value: %s' % str(u)[:120])
    if not sts or any(not (isinstance(s_.ret, tuple) and len(s_.ret) == 3 and s_.ret[0] == 'aabb' and all(isinstance(v_, sp.MatrixBase) for v_ in s_.ret[1:])) for s_ in sts):
        return ('undecided', 'result not readable as (centre, half extents)')
    a = sp.pi / 6
    if dim == 2:
        wit = [('a rotation of 30 degrees', sp.Matrix([[sp.cos(a), -sp.sin(a)], [sp.sin(a), sp.cos(a)]]))]
    else:
        Rx = sp.Matrix([[1, 0, 0], [0, sp.cos(a), -sp.sin(a)], [0, sp.sin(a), sp.cos(a)]])
        Ry = sp.Matrix([[sp.cos(a), 0, sp.sin(a)], [0, 1, 0], [-sp.sin(a), 0, sp.cos(a)]])
        Rz = sp.Matrix([[sp.cos(a), -sp.sin(a), 0], [sp.sin(a), sp.cos(a), 0], [0, 0, 1]])
        wit = [('a yaw of 30 degrees', Rz), ('a roll of 30 degrees', Rx), ('a pitch of 30 degrees', Ry), ('yaw, pitch and roll of 30 degrees', Rz * Ry * Rx)]
    hv = [sp.Integer(2), sp.Rational(1, 2), sp.Rational(5, 4)][:dim]
    for s_ in sts:
        if any(c_[0] not in ('True', 'False') for c_ in s_.cond):
            return ('undecided', 'the result depends on a run-time condition (%s)' % s_.cond[0][0][:60])
        cen, ext = s_.ret[1], s_.ret[2]
        if sp.Matrix(cen) != sp.Matrix(c):
            return ('violated', 'the enclosing box is built around %s, not around the centre of the oriented box' % (list(cen),))
        for (wname, Rw) in wit:
            sub = {Rm[i, j]: Rw[i, j] for i in range(dim) for j in range(dim)}
            sub.update({h[i]: hv[i] for i in range(dim)})
            try:
                got = [sp.N(e_.subs(sub), 20) for e_ in ext]
            except Exception:
                return ('undecided', 'half extents not evaluable on the witness box')
            want = [sp.N(sum(abs(Rw[i, n]) * hv[n] for n in range(dim)), 20) for i in range(dim)]
            if any((not g_.is_number) for g_ in got):
                return ('undecided', 'half extents not evaluable on the witness box (%s)' % (got,))
            if any(abs(g_ - w_) > sp.Float('1e-12') for g_, w_ in zip(got, want)):
                short = [i for i in range(dim) if got[i] < want[i] - sp.Float('1e-12')]
                return ('violated', 'for a box with half extents %s turned by %s the enclosing box gets the half extents %s; the rotated corners reach %s (component i = sum_n |R(i,n)| h(n)): %s' % (
                    [str(v_) for v_ in hv], wname, [str(sp.N(g_, 5)) for g_ in got], [str(sp.N(w_, 5)) for w_ in want],
                    'along axis %s the box does not contain the oriented box' % ', '.join('xyz'[i] for i in short) if short else 'the box is not tight'))
    return ('holds', 'read by value: same centre, half extents |R| h on rotations about every axis')
