"""C19 - shared variables, statistics and check-ups under concurrent use: lock discipline (E-LOCK) + non-copyability (E-WIT).

Rules
  L1  race freedom by lockset: for every pair of accesses to overlapping paths of one shared object, made from two
      entry points that may run concurrently, with at least one write, a common mutex is held (atomics exempt by type)
  L2  no concurrent entry point returns a reference/pointer into storage that a concurrent entry point writes
  L3  single critical section: one entry does not touch the same guarded storage under two separate acquisitions of
      its mutex when another thread can observe that storage in between
  L5  publication order (lock-free members): when a reader tests an atomic flag F and only then reads another individually-synchronised
      member D (`F.load() && g(D.load())`), every writer that stores both must store D BEFORE it raises F - otherwise a reader scheduled
      between the two stores sees the flag with the previous D (no data race, but a state no sequential ordering of the calls produces)
  L4  no self-deadlock: a std::mutex is not re-acquired while held along one call chain
  W1  SharedVariable / SharedOptionalVariable cannot be copied around their lock (compile-time witness)
Decides the lock discipline (a necessary condition of the statement); linearizability of histories is NOT decided."""
import re
from ..elock import LockAnalysis, erase_scalars, overlap, common, disp, names
from ..tree import short_fn
from .. import ewit

LEVEL = 'other'
UNITS = ['src/monitoring/OnlineAverage.cpp', 'src/monitoring/OnlineVariance.cpp', 'src/monitoring/RateMonitoring.cpp',
         'src/diagnostics/CheckupRate.cpp', 'src/diagnostics/CheckupReliability.cpp', 'verif:inst_concurrency.cpp']
EXPLANATION = ('Lockset analysis (E-LOCK) over the resolved, instantiated program: every public method of each shared class is an '
               'entry point; callees are inlined with access paths re-rooted at the entry object; RAII guards define the lockset. '
               'Rules L1 race freedom, L2 no escaping reference, L3 single critical section, L4 no self-deadlock, W1 non-copyable '
               '(static_assert witnesses compiled with clang -fsyntax-only). Not decided: linearizability / exactly-once ordering of histories.')
ASSUMPTIONS = ['threads enter only through public methods; objects are not shared during construction or configuration '
               '(setWindowSize / initialize), as in the property quantifier (1 writer, 1..8 readers; optional: n producers, n consumers)',
               'std::lock_guard/unique_lock/scoped_lock constructed from a mutex hold it to the end of the enclosing block',
               'std::atomic members are race-free by type']

# Shared classes (regular expressions over instantiated qualified names).
CLASSES = [r'romea::core::SharedVariable<.*>', r'romea::core::SharedOptionalVariable<.*>',
           r'romea::core::OnlineAverage', r'romea::core::OnlineVariance', r'romea::core::RateMonitoring',
           r'romea::core::CheckupEqualTo<.*>', r'romea::core::CheckupGreaterThan<.*>', r'romea::core::CheckupLowerThan<.*>',
           r'romea::core::CheckupRate<.*>', r'romea::core::CheckupReliability']
FLOOR_CLASSES = 14

# Role table.  Default: const method = reader (any number of threads), non-const = the single writer thread.
# Exceptions, each with the sentence of the property statement that justifies it:
ROLE_OVERRIDE = {
    ('RateMonitoring', 'timeout'): 'reader',            # "other threads read it (... heartbeat)": the heartbeat thread calls timeout()
    ('Checkup', 'timeout'): 'reader',                   # called from the heartbeat thread through CheckupRate::heartBeatCallback
    ('CheckupRate', 'heartBeatCallback'): 'reader',     # idem
    ('SharedOptionalVariable', 'consume'): 'reader',    # "1..4 consumers"
    ('SharedOptionalVariable', 'store'): 'multiwriter',  # "1..4 producers"
}
# Configuration calls are outside the quantifier ("one thread updates ... while other threads read"):
CONFIG = {'setWindowSize': 'window configuration happens before sharing', 'initialize': 'rate configuration happens before sharing'}
EXEMPT_TYPES = ('std::atomic<', 'std::mutex', 'romea::core::SharedVariable<', 'romea::core::SharedOptionalVariable<')


def class_base_name(q):
    return re.sub(r'<.*', '', short_fn(q))


def entries_of(fx, cq):
    """Public, non-special methods of class cq incl. inherited ones; name -> function body."""
    out = {}
    seen = set()

    def visit(q, derived_names):
        rec = fx.records.get(q)
        if rec is None or q in seen:
            return
        seen.add(q)
        names_here = set()
        for m in rec['methods']:
            if m.get('ctor') or m['name'].startswith('~') or m.get('deleted') or m.get('implicit') or m['access'] != 0:
                continue
            if m.get('pure'):
                continue
            names_here.add(m['name'])
            if m['name'] in derived_names:
                continue
            for f in fx.fn(m['q']):
                if f['sig'] == m['sig'] and f.get('body') is not None:
                    out.setdefault((m['name'], m['sig']), (f, q))
        for b in rec.get('bases', []):
            visit(b, derived_names | names_here)
    visit(cq, set())
    return out


def role_of(cls_q, owner_q, name, fn):
    for c in (class_base_name(cls_q), class_base_name(owner_q)):
        r = ROLE_OVERRIDE.get((c, name))
        if r:
            return r
    return 'reader' if fn.get('const') else 'writer'


def concurrent(ra, rb, same):
    if same:
        return ra in ('reader', 'multiwriter')
    if ra == 'writer' and rb == 'writer':
        return False        # the single writer thread
    return True


def exempt(a):
    t = a.tstr
    while t.startswith(('const ', 'volatile ')):
        t = t.split(' ', 1)[1]
    return t.startswith(EXEMPT_TYPES)


def field_key(fx, cq, path):
    """Path (without 'this') truncated after the first component that is not an encapsulated repo object
    (a class of this repository with non-public fields): races are reported per guarded field, not per sub-field."""
    rec = fx.records.get(cq)
    out = []
    for comp in names(path)[1:]:
        out.append(comp)
        f = None
        r = rec
        seen = set()
        while r is not None and f is None:       # look the field up in the class or its bases
            f = next((x for x in r['fields'] if x['name'] == comp), None)
            if f is None:
                nb = [b for b in r.get('bases', []) if b not in seen]
                if not nb:
                    break
                seen.add(nb[0])
                r = fx.records.get(nb[0])
        if f is None:
            break
        t = f['t']['s']
        for pre in ('const ', 'volatile '):
            if t.startswith(pre):
                t = t[len(pre):]
        t = t.rstrip('&* ')
        nrec = fx.records.get(t)
        if nrec is None or not _encapsulated(fx, nrec):
            break
        rec = nrec
    return '.'.join(out)


def _encapsulated(fx, rec, seen=None):
    seen = seen or set()
    if any(x['access'] != 0 for x in rec['fields']):
        return True
    for b in rec.get('bases', []):
        if b not in seen and b in fx.records:
            seen.add(b)
            if _encapsulated(fx, fx.records[b], seen):
                return True
    return False


def check_publication_order(fx, R, classes):
    from ..tree import walk, pp, strip_casts
    n = 0
    for cq in classes:
        rec = fx.records[cq]
        sync = {f_['name'] for f_ in rec['fields'] if f_['t']['s'].replace('const ', '').startswith(('std::atomic<', 'romea::core::SharedVariable<', 'SharedVariable<'))}
        flags = {f_['name'] for f_ in rec['fields'] if f_['t']['s'].replace('const ', '').startswith('std::atomic<bool')}
        if not flags or len(sync) < 2:
            continue
        methods = [g for m_ in rec['methods'] for g in fx.fn(m_['q']) if g.get('body') is not None and not g.get('ctor')]
        # readers: F.load() && ... D.load() ...
        guards = set()
        for g in methods:
            for x in walk(g['body']):
                if x.get('k') == 'Bin' and x.get('op') == '&&':
                    lf = [y for y in walk(x['l']) if y.get('k') == 'Member' and y.get('name') in flags]
                    rd_ = [y for y in walk(x['r']) if y.get('k') == 'Member' and y.get('name') in sync and y.get('name') not in flags]
                    for a in lf:
                        for b in rd_:
                            guards.add((a['name'], b['name'], g['name']))
        for (F, D, reader) in sorted(guards):
            for g in methods:
                if g['name'] == reader:
                    continue
                stores = [(y.get('m'), strip_casts(y['obj']).get('name'), y.get('loc')) for y in walk(g['body'])
                          if y.get('k') in ('MCall', 'Op') and (y.get('m') in ('store', 'operator=', 'exchange') or y.get('op') == '=') and
                          strip_casts(y.get('obj') or (y.get('args') or [{}])[0]).get('k') == 'Member' and strip_casts(y.get('obj') or y['args'][0]).get('name') in (F, D)]
                names_ = [s_[1] for s_ in stores]
                if F in names_ and D in names_:
                    n += 1
                    inst = '%s::%s:%s-before-%s' % (erase_scalars(cq), g['name'], D, F)
                    if names_.index(F) < len(names_) - 1 - names_[::-1].index(D):
                        R.violated('L5', '%s::%s:publishes-%s-before-%s' % (erase_scalars(cq), g['name'], F, D), '%s() raises the flag %s before it stores %s, while %s() tests the flag and only then reads %s: '
                                   'a call of %s() scheduled between the two stores sees the flag set together with the PREVIOUS %s (each access is synchronised on its own, so there is no data race, '
                                   'but no sequential ordering of the calls produces that state)' % (g['name'], F, D, reader, D, reader, D), fx.rel(stores[names_.index(F)][2]), 'E-LOCK')
                    else:
                        R.holds('L5', inst, '%s is stored before the flag %s that guards it in %s()' % (D, F, reader), fx.rel(g['loc']), 'E-LOCK')
    return n


def run(fx, R, tier):
    classes = sorted(q for q in fx.records if any(re.fullmatch(p, q) for p in CLASSES))
    check_publication_order(fx, R, classes)
    R.floor('L1', 1)
    if len(classes) < FLOOR_CLASSES:
        R.undecided('L1', 'class-floor', 'only %d shared classes found (floor %d): %s' % (len(classes), FLOOR_CLASSES, classes))
    la = LockAnalysis(fx)
    n_entries = 0
    n_guards = 0
    for cq in classes:
        ents = entries_of(fx, cq)
        sums = []
        for (name, sig), (fn, owner) in sorted(ents.items()):
            if name in CONFIG:
                continue
            S = la.analyse(fn)
            role = role_of(cq, owner, name, fn)
            if role == 'writer' and (fn.get('ret') or {}).get('s', 'void') != 'void' and not any(a.kind == 'W' for a in S.accesses) and name.startswith('operator ') :
                # a conversion operator that writes nothing: `T v = shared;` on a non-const object selects it whatever its constness - any thread reads through it
                role = 'reader'
            sums.append((name, role, S, fn))
            R.used(fn)
            R.used(*S.inlined)
            n_entries += 1
            n_guards += len(S.acquisitions)
            for u in S.undecided:
                R.undecided('L1', '%s::%s' % (erase_scalars(cq), name), u)
            for (tl_loc, tl_fn) in getattr(S, 'trylocks', []):
                R.violated('L6', '%s::%s:try-lock' % (erase_scalars(cq), name), '%s takes its mutex with std::try_to_lock: when another entry holds the mutex the operation is skipped and the caller gets the '
                           'result of the failure path (an empty optional, a stale value, a dropped store) although every sequential ordering of the overlapping calls performs it - e.g. a value stored by a '
                           'COMPLETED store() and not yet consumed is reported as absent by a consume() that overlaps the next store()' % short_fn(tl_fn), tl_loc, 'E-LOCK')
            for (m, loc, fnq, chain) in S.deadlocks:
                R.violated('L4', '%s::%s:%s' % (erase_scalars(cq), name, disp(m[1:])),
                           'std::mutex %s re-acquired while already held (call chain %s): self-deadlock on every call' % (disp(m), ' -> '.join(short_fn(c) for c in chain)),
                           loc, 'E-LOCK')
        if not sums:
            R.undecided('L1', erase_scalars(cq), 'no entry point with a body found for this class')
            continue
        cname = erase_scalars(cq)
        # ---- L1 ------------------------------------------------------
        written = {}     # path -> list of (entry name) for paths written from concurrent entries (for L2)
        field_state = {}  # fieldkey -> {'pairs': n, 'mutexes': set, 'bad': [...]}
        for i, (na, ra, SA, fa) in enumerate(sums):
            for (nb, rb, SB, fb) in sums[i:]:
                same = SA is SB
                if not concurrent(ra, rb, same):
                    continue
                for a in _dedupe(SA.accesses):
                    for b in _dedupe(SB.accesses):
                        if a.kind != 'W' and b.kind != 'W':
                            continue
                        if not overlap(a.path, b.path):
                            continue
                        shorter = a if len(a.path) <= len(b.path) else b
                        if exempt(shorter):
                            continue
                        key = field_key(fx, cq, common(a.path, b.path))
                        st = field_state.setdefault(key, {'pairs': 0, 'mutexes': None, 'bad': {}})
                        st['pairs'] += 1
                        shared = a.mutexes() & b.mutexes()
                        both_readers = {m_ for m_ in shared if m_ in a.shared_mutexes() and m_ in b.shared_mutexes()}
                        if shared - both_readers:
                            st['mutexes'] = shared if st['mutexes'] is None else (st['mutexes'] | shared)
                            continue
                        if both_readers:
                            # the only common mutex is held in shared mode on both sides: shared holders are not excluded from each other
                            st['bad'].setdefault(na, []).append((a, nb, b))
                            st.setdefault('shared_mode', set()).update(both_readers)
                            continue
                        for (x, nx, y, ny) in ((a, na, b, nb), (b, nb, a, na)):
                            if not x.mutexes() or not (x.mutexes() & y.mutexes()):
                                if x.mutexes() and not y.mutexes():
                                    continue        # the other side is the culprit
                                st['bad'].setdefault(nx, []).append((x, ny, y))
        for key, st in sorted(field_state.items()):
            if not st['bad']:
                R.holds('L1', '%s:%s' % (cname, key), '%d conflicting access pair(s), all under %s' % (
                    st['pairs'], sorted(disp(m) for m in (st['mutexes'] or []))), engine='E-LOCK')
            for entry, lst in sorted(st['bad'].items()):
                x, ny, y = lst[0]
                if st.get('shared_mode') and (x.shared_mutexes() & y.shared_mutexes()):
                    R.violated('L1', '%s::%s:%s' % (cname, entry, key),
                               'data race: %s of %s in %s and %s of %s in concurrent entry %s both hold %s only in SHARED mode (std::shared_lock): shared holders of a std::shared_mutex run at the same time, '
                               'so the write is not excluded from the other access and a torn or mixed value can be observed' % (
                                   'write' if x.kind == 'W' else 'read', disp(x.path), entry, 'write' if y.kind == 'W' else 'read', disp(y.path), ny,
                                   sorted(disp(m_) for m_ in (x.shared_mutexes() & y.shared_mutexes()))), x.loc, 'E-LOCK')
                    continue
                R.violated('L1', '%s::%s:%s' % (cname, entry, key),
                           'data race: %s of %s in %s (via %s) holds %s, while concurrent entry %s does a %s of %s holding %s' % (
                               'write' if x.kind == 'W' else 'read', disp(x.path), entry, short_fn(x.fn),
                               _ml(x), ny, 'write' if y.kind == 'W' else 'read', disp(y.path), _ml(y)),
                           x.loc, 'E-LOCK')
        # ---- L2 ------------------------------------------------------
        wpaths = []
        for (nb, rb, SB, fb) in sums:
            for b in SB.accesses:
                if b.kind == 'W' and not exempt(b):
                    wpaths.append((b.path, nb, rb))
        for (na, ra, SA, fa) in sums:
            if not SA.ret_paths:
                continue
            esc = []
            for (paths, locks, loc) in SA.ret_paths:
                for p in paths:
                    if len(p) < 2 or p[0] != 'this':
                        continue
                    for (wp, nb, rb) in wpaths:
                        if overlap(p, wp) and concurrent(ra, rb, nb == na):
                            esc.append((p, nb, loc))
                            break
            if esc:
                p, nb, loc = esc[0]
                R.violated('L2', '%s::%s:%s' % (cname, na, field_key(fx, cq, p)),
                           'entry %s returns a %s into %s, which entry %s writes: the caller reads it after the lock is released' % (
                               na, 'reference' if fa['ret'].get('ref') else 'pointer', disp(p), nb), loc, 'E-LOCK')
            else:
                R.holds('L2', '%s::%s' % (cname, na), 'returned reference does not denote storage written by a concurrent entry', engine='E-LOCK')
        for (na, ra, SA, fa) in sums:
            if not (fa['ret'].get('ref') or fa['ret'].get('c') == 'ptr') and fa['ret']['s'] != 'void':
                R.holds('L2', '%s::%s' % (cname, na), 'returns by value (%s)' % fa['ret']['s'], engine='E-LOCK')
        # ---- L3 ------------------------------------------------------
        for (na, ra, SA, fa) in sums:
            by_acq = {}
            for a in SA.accesses:
                for (m, aid) in a.locks:
                    by_acq.setdefault(m, {}).setdefault(aid, []).append(a)
            bad = None
            for m, d in by_acq.items():
                ids = sorted(d)
                for i1 in range(len(ids)):
                    for i2 in range(i1 + 1, len(ids)):
                        for a1 in d[ids[i1]]:
                            for a2 in d[ids[i2]]:
                                if a1.locks & a2.locks:
                                    continue        # nested: both held
                                if overlap(a1.path, a2.path) and 'W' in (a1.kind, a2.kind) and not exempt(a1):
                                    c = common(a1.path, a2.path)
                                    if a1.kind == 'W' and a2.kind == 'W':
                                        # two writes in two sections: any concurrent entry touching the storage sees a mix
                                        observers = [nb for (nb, rb, SB, fb) in sums
                                                     if concurrent(ra, rb, SB is SA) and any(overlap(b.path, c) for b in SB.accesses)]
                                    else:
                                        # read ... write (check-then-act): harmful only if another thread may write in between
                                        observers = [nb for (nb, rb, SB, fb) in sums
                                                     if concurrent(ra, rb, SB is SA) and any(overlap(b.path, c) and b.kind == 'W' for b in SB.accesses)]
                                    if observers and bad is None:
                                        bad = (m, a1, a2, observers[0])
            # split update: the entry WRITES guarded storage in two separate acquisitions of one mutex (possibly different fields, possibly one of them inside a callee).  The call is then not atomic for
            # the readers: a thread that reads what the first section wrote and then what the second section writes can get the new value followed by the old one, which no sequential ordering of the calls gives
            split = None
            for m, d in by_acq.items():
                ids = sorted(d)
                for i1 in range(len(ids)):
                    for i2 in range(i1 + 1, len(ids)):
                        w1 = [a for a in d[ids[i1]] if a.kind == 'W' and not exempt(a) and not any(a.locks & b.locks for b in d[ids[i2]])]
                        w2 = [a for a in d[ids[i2]] if a.kind == 'W' and not exempt(a) and not any(a.locks & b.locks for b in d[ids[i1]])]
                        for a1 in w1:
                            for a2 in w2:
                                if overlap(a1.path, a2.path):
                                    continue            # the same storage twice: the rule above
                                ob1 = [nb for (nb, rb, SB, fb) in sums if concurrent(ra, rb, SB is SA) and SB is not SA and any(overlap(b.path, a1.path) and b.kind == 'R' for b in SB.accesses)]
                                ob2 = [nb for (nb, rb, SB, fb) in sums if concurrent(ra, rb, SB is SA) and SB is not SA and any(overlap(b.path, a2.path) and b.kind == 'R' for b in SB.accesses)]
                                if ob1 and ob2 and split is None:
                                    split = (m, a1, a2, ob1[0], ob2[0])
            if split and not bad:
                m, a1, a2, o1, o2 = split
                R.violated('L3', '%s::%s:split-update:%s+%s' % (cname, na, field_key(fx, cq, a1.path), field_key(fx, cq, a2.path)),
                           'entry %s writes %s under one acquisition of %s (%s) and %s under a LATER, separate acquisition (%s): between the two the object shows the first part of the update without the second.  '
                           'A reader that calls %s and then %s in that gap gets the value of update k followed by the value of update k-1; no sequential ordering of the calls produces that pair (every access is locked, so '
                           'a race detector sees nothing)' % (na, disp(a1.path), disp(m), a1.loc, disp(a2.path), a2.loc, o1, o2), a2.loc, 'E-LOCK')
            if bad:
                m, a1, a2, ob = bad
                R.violated('L3', '%s::%s:%s' % (cname, na, field_key(fx, cq, common(a1.path, a2.path))),
                           'entry %s touches %s under two separate acquisitions of %s (%s and %s); concurrent entry %s can observe the intermediate state' % (
                               na, disp(common(a1.path, a2.path)), disp(m), a1.loc, a2.loc, ob), a2.loc, 'E-LOCK')
            elif by_acq and not split:
                R.holds('L3', '%s::%s' % (cname, na), 'guarded accesses of each mutex lie in one critical section', engine='E-LOCK')
        # ---- L6 one snapshot -----------------------------------------------------
        # a reader entry that returns an object by value and fills it from shared storage read in two SEPARATE synchronisation domains (two critical sections, or a critical section and an atomic), when one
        # call of a concurrent writer entry updates both: the copy handed out can pair the new value of one with the old value of the other - every access is synchronised (no race), yet the copy is one no
        # sequential ordering of the calls produces
        for (na, ra, SA, fa) in sums:
            rt = (fa.get('ret') or {})
            if ra != 'reader' or rt.get('ref') or rt.get('c') in ('ptr', 'int', 'fp', 'bool') or rt.get('s') in ('void', 'bool'):
                continue
            reads = [a for a in _dedupe(SA.accesses) if a.kind == 'R']
            mixed = None
            for i1, a1 in enumerate(reads):
                for a2 in reads[i1 + 1:]:
                    if overlap(a1.path, a2.path) or (a1.locks & a2.locks):
                        continue
                    if not (a1.locks or exempt(a1)) or not (a2.locks or exempt(a2)):
                        continue                       # an unsynchronised read is rule L1's business
                    if not a1.locks and not a2.locks:
                        continue                       # two atomics: rule L5
                    for (nb, rb, SB, fb) in sums:
                        if SB is SA or not concurrent(ra, rb, False):
                            continue
                        w1 = [b for b in SB.accesses if b.kind == 'W' and overlap(b.path, a1.path)]
                        w2 = [b for b in SB.accesses if b.kind == 'W' and overlap(b.path, a2.path)]
                        if w1 and w2 and mixed is None:
                            mixed = (a1, a2, nb, w1[0], w2[0])
            if mixed:
                a1, a2, nb, w1, w2 = mixed
                R.violated('L6', '%s::%s:mixed-snapshot:%s+%s' % (cname, na, field_key(fx, cq, a1.path), field_key(fx, cq, a2.path)),
                           'entry %s returns a copy by value and fills it from %s (%s, %s) and from %s (%s, %s): two separately synchronised reads.  One call of %s writes both (%s and %s), so a copy taken '
                           'between the two stores pairs the new value of one with the old value of the other: status/message and value of the returned report then contradict each other, although no access '
                           'races' % (na, disp(a1.path), a1.loc, 'under ' + ', '.join(disp(m_) for m_ in a1.mutexes()) if a1.locks else 'atomic', disp(a2.path), a2.loc,
                                      'under ' + ', '.join(disp(m_) for m_ in a2.mutexes()) if a2.locks else 'atomic', nb, w1.loc, w2.loc), a2.loc, 'E-LOCK')
            elif reads:
                R.holds('L6', '%s::%s' % (cname, na), 'the returned copy is filled from one synchronisation domain', engine='E-LOCK')
    R.note('entry_points', n_entries)
    R.note('guard_acquisitions', n_guards)
    R.floor('L2', 10)
    R.floor('L3', 10)
    if n_guards < 16:
        R.undecided('L1', 'guard-floor', 'only %d RAII guard acquisitions seen over all entries (floor 16)' % n_guards)
    # ---- W1 ----------------------------------------------------------
    ewit.run(fx.root, R, 'W1', WITNESSES)


def _ml(a):
    ms = sorted(disp(m) for m in a.mutexes())
    return 'no lock' if not ms else 'lock(s) ' + ','.join(ms)


def _dedupe(accs):
    seen = set()
    out = []
    for a in accs:
        k = (a.path, a.kind, frozenset(a.mutexes()), a.fn)
        if k not in seen:
            seen.add(k)
            out.append(a)
    return out


WITNESSES = {
    'headers': ['romea_core_common/concurrency/SharedVariable.hpp', 'romea_core_common/concurrency/SharedOptionalVariable.hpp',
                '<type_traits>'],
    'asserts': [
        ('SharedVariable<int> not copy-constructible', '!std::is_copy_constructible<romea::core::SharedVariable<int>>::value'),
        ('SharedVariable<int> not copy-assignable', '!std::is_copy_assignable<romea::core::SharedVariable<int>>::value'),
        ('SharedVariable<int> not move-constructible', '!std::is_move_constructible<romea::core::SharedVariable<int>>::value'),
        ('SharedOptionalVariable<int> not copy-constructible', '!std::is_copy_constructible<romea::core::SharedOptionalVariable<int>>::value'),
        ('SharedOptionalVariable<int> not copy-assignable', '!std::is_copy_assignable<romea::core::SharedOptionalVariable<int>>::value'),
        ('SharedOptionalVariable<int> not move-constructible', '!std::is_move_constructible<romea::core::SharedOptionalVariable<int>>::value'),
    ],
}

ENGINES = 'E-LOCK + E-WIT over romea-facts'
TECHNIQUE = 'by-value copies filled from two separately synchronised reads that one writer call updates both (L6), conversion operators that write nothing are reader entries, updates split over two separate acquisitions of one mutex (race free, not atomic for the readers), shared-mode and try-lock guards in the lockset engine, sweep of every function read (and its in-repo callees) for frozen function-local statics, single precision inside double computations, lossy copy constructors, presence- or argument-keyed member caches, reference members bound to constructor arguments, loop accumulators that are members, members derived in the constructor and not refreshed by setters, results returned by reference to a member buffer, members filled from an argument under a condition that ignores it, hidden non-virtual base members, self-bound reference members, reductions that accumulate in float; publication order of a guard flag and the datum it guards across individually synchronised members; static lockset/escape/critical-section analysis over the type-resolved AST with inter-procedural inlining; static_assert compile-time witnesses'
LEVEL_TEXT = ('Lock discipline decided for every public entry point of the 14 shared class instantiations: race freedom by lockset (L1), '
              'no reference into guarded storage escapes (L2), one critical section per entry (L3), no self-deadlock (L4), '
              'non-copyable shared variables (W1). Holds for all schedules because it is a fact about the program text, not about sampled runs; '
              'it is a necessary condition of the statement, not the whole of it.')
LEVEL_NOTE = ('Not decided: linearizability / exactly-once hand-off ordering of histories. Trusted: clang front end, extractor, role table '
              '(const = reader, non-const = single writer, listed exceptions), RAII guard semantics, atomics race-free by type.')
