"""Shared symbolic model of SmartRotation3D (used by C10 and C12): constructor tables, init() per path, from a fresh object
and from an arbitrary earlier state (entries that init() may write are unknowns there)."""
import sympy as sp
from .. import sym, mat

Q = 'romea::core::SmartRotation3D::'
MATS = ('Rx_', 'Ry_', 'Rz_', 'R_', 'dRxdAngleX_', 'dRydAngleY_', 'dRzdAngleZ_', 'dRdAngleX_', 'dRdAngleY_', 'dRdAngleZ_')


def reader(fx):
    return sym.Reader(fx, call_hook=mat.hook, member_hook=mat.member_hook)


def model(fx):
    ctors = [f for f in fx.functions.values() if f.get('ctor') and f.get('cls') == 'romea::core::SmartRotation3D' and not f['params']]
    inits = [f for f in fx.fn(Q + 'init') if len(f['params']) == 3]
    if len(ctors) != 1 or len(inits) != 1:
        return None
    ctor, init = ctors[0], inits[0]
    rd = reader(fx)
    cs = rd.run(ctor)
    if len(cs) != 1:
        return None
    c = cs[0]
    if any(not isinstance(c.fields.get(('this', m)), sp.MatrixBase) for m in MATS):
        return None
    fresh = rd.run(init, state=c)
    # entries init() may write (on some path)
    touched = {m: set() for m in MATS}
    for st in fresh:
        for m in MATS:
            A, B = c.fields[('this', m)], st.fields.get(('this', m))
            if not isinstance(B, sp.MatrixBase):
                return None
            for i in range(3):
                for j in range(3):
                    if A[i, j] != B[i, j]:
                        touched[m].add((i, j))
    g = c.copy()
    for m in MATS:
        A = sp.Matrix(c.fields[('this', m)])
        for (i, j) in touched[m]:
            A[i, j] = sp.Symbol('old:%s[%d,%d]' % (m, i, j), real=True)
        g.fields[('this', m)] = sp.ImmutableMatrix(A)
    again = rd.run(init, state=g)
    names = [p['name'] for p in init['params']]
    ang = [sp.Symbol('arg:' + n, real=True) for n in names]
    return {'ctor': ctor, 'init': init, 'ctor_state': c, 'fresh': fresh, 'again': again, 'angles': ang, 'touched': touched}


def canon(x, y, z):
    cx, sx, cy, sy, cz, sz = sp.cos(x), sp.sin(x), sp.cos(y), sp.sin(y), sp.cos(z), sp.sin(z)
    Rx = sp.Matrix([[1, 0, 0], [0, cx, -sx], [0, sx, cx]])
    Ry = sp.Matrix([[cy, 0, sy], [0, 1, 0], [-sy, 0, cy]])
    Rz = sp.Matrix([[cz, -sz, 0], [sz, cz, 0], [0, 0, 1]])
    return Rx, Ry, Rz


def cond_subs(st):
    """Substitutions implied by equality conditions of a path (e.g. angle == 0)."""
    sub = {}
    for c in st.cond:
        r = c[1]
        if isinstance(r, sp.Eq) and c[2]:
            a, b = r.lhs, r.rhs
            if a.is_Symbol and b.is_Number:
                sub[a] = b
            elif b.is_Symbol and a.is_Number:
                sub[b] = a
        if isinstance(r, sp.Ne) and not c[2]:
            a, b = r.lhs, r.rhs
            if a.is_Symbol and b.is_Number:
                sub[a] = b
            elif b.is_Symbol and a.is_Number:
                sub[b] = a
    return sub


def observe(fx, st, name, args=None, nparams=None):
    """What a caller SEES: run the const accessor `name` on (a copy of) the object state `st` - the first access after the call that produced st.
    Returns [(returned value, state after)]; raises sym.Unsupported when the accessor is not readable; None when it vanished."""
    fs = [f for f in fx.fn(Q + name) if nparams is None or len(f['params']) == nparams]
    if len(fs) != 1:
        return None
    out = reader(fx).run(fs[0], args=args, state=st.copy())
    return [(s.ret, s) for s in out], fs[0]


def check_forwarding(fx, R, rule):
    """Every way into a SmartRotation3D besides init(x, y, z) - the constructors with arguments and the vector overload of init() - must hand (x, y, z) on IN ORDER: the three scalar parameters, or
    components 0, 1, 2 of the one vector parameter.  (E-SIB: the model of init(x, y, z) is what the other rules judge; an entry that permutes or repeats an argument builds another rotation.)"""
    from ..tree import sx
    from .C20 import deep_unwrap
    from .C14 import stmts_sx
    n = 0
    for g in sorted((g for g in fx.functions.values() if g.get('cls') == 'romea::core::SmartRotation3D' and (g.get('ctor') or g['name'] == 'init') and g.get('body') is not None
                     and g.get('params') and not g.get('copyctor') and not g.get('implicit')), key=lambda g: g['q'] + g['sig']):
        pn = [p_['name'] for p_ in g['params']]
        if g['name'] == 'init' and len(pn) == 3:
            continue
        if len(pn) == 1 and 'SmartRotation3D' in (g['params'][0].get('t') or {}).get('s', ''):
            continue                      # copy / move
        inst = 'SmartRotation3D::%s(%s)' % ('SmartRotation3D' if g.get('ctor') else 'init', ', '.join(pn))
        loc = fx.rel(g['loc'])
        R.used(g)
        calls = [deep_unwrap(sx(i_['e'])) for i_ in g.get('inits', []) if i_.get('delegating')]
        calls = [c_[1:] for c_ in calls if isinstance(c_, tuple) and len(c_) == 4]
        for s_ in stmts_sx(g):
            if s_[0] == 'expr' and isinstance(s_[1], tuple) and s_[1][0] == '.init' and s_[1][1] == 'this' and len(s_[1]) == 5:
                calls.append(s_[1][2:])
        if len(calls) != 1:
            R.undecided(rule, inst + ':forwarding', 'not a single forwarding call of three angles (%d found)' % len(calls))
            continue
        args = calls[0]
        if len(pn) == 3:
            want = tuple(pn)
            show = lambda a: str(a)
        elif len(pn) == 1:
            want = tuple(('[]', pn[0], k) for k in range(3))
            alt = tuple(('()', pn[0], k) for k in range(3))
            if all(isinstance(a, tuple) and a[0] == '()' for a in args):
                want = alt
            xyz = {'.x': 0, '.y': 1, '.z': 2}
            args = tuple(('[]', pn[0], xyz[a[0]]) if isinstance(a, tuple) and len(a) == 2 and a[0] in xyz and a[1] == pn[0] else a for a in args)
            show = lambda a: '%s[%s]' % (a[1], a[2]) if isinstance(a, tuple) and len(a) == 3 else str(a)
        else:
            R.undecided(rule, inst + ':forwarding', 'parameter list not enumerated')
            continue
        n += 1
        if tuple(args) == want:
            R.holds(rule, inst + ':forwarding', 'hands its angles on in order (x, y, z)', loc, 'E-SIB')
        elif all(a in want or (isinstance(a, tuple) and len(a) == 3 and a[0] in ('[]', '()') and a[1] == pn[0] and isinstance(a[2], int)) for a in args):
            R.violated(rule, 'SmartRotation3D:%s:forwarding' % ('constructor' if g.get('ctor') else 'init') + ('(vector)' if len(pn) == 1 else ''), '%s forwards (%s) as the angles around (x, y, z); in order they are (%s): '
                       'the rotation built is that of other angles%s' % (inst, ', '.join(show(a) for a in args), ', '.join(show(a) for a in want),
                                                                          ' (a three-component vector has no component %s)' % [a[2] for a in args if isinstance(a, tuple) and len(a) == 3 and isinstance(a[2], int) and a[2] > 2][0]
                                                                          if any(isinstance(a, tuple) and len(a) == 3 and isinstance(a[2], int) and a[2] > 2 for a in args) else ''), loc, 'E-SIB')
        else:
            R.undecided(rule, inst + ':forwarding', 'forwarded arguments %s are not plain parameters / components' % (args,))
    return n
