"""Shared symbolic model of SmartRotation3D (used by C10 and C12): constructor tables, init() per path, from a fresh object
and from an arbitrary earlier state (entries that init() may write are unknowns there)."""
import sympy as sp
from .. import sym, mat

Q = 'romea::core::SmartRotation3D::'
MATS = ('Rx_', 'Ry_', 'Rz_', 'R_', 'dRxdAngleX_', 'dRydAngleY_', 'dRzdAngleZ_', 'dRdAngleX_', 'dRdAngleY_', 'dRdAngleZ_')


def reader(fx):
    return sym.Reader(fx, call_hook=mat.hook, member_hook=mat.member_hook)


def model(fx):
    ctors = [f for f in fx.functions.values() if f.get('ctor') and f.get('cls') == 'romea::core::SmartRotation3D' and not f['params']]
    inits = [f for f in fx.fn(Q + 'init') if len(f['params']) == 3]
    if len(ctors) != 1 or len(inits) != 1:
        return None
    ctor, init = ctors[0], inits[0]
    rd = reader(fx)
    cs = rd.run(ctor)
    if len(cs) != 1:
        return None
    c = cs[0]
    if any(not isinstance(c.fields.get(('this', m)), sp.MatrixBase) for m in MATS):
        return None
    fresh = rd.run(init, state=c)
    # entries init() may write (on some path)
    touched = {m: set() for m in MATS}
    for st in fresh:
        for m in MATS:
            A, B = c.fields[('this', m)], st.fields.get(('this', m))
            if not isinstance(B, sp.MatrixBase):
                return None
            for i in range(3):
                for j in range(3):
                    if A[i, j] != B[i, j]:
                        touched[m].add((i, j))
    g = c.copy()
    for m in MATS:
        A = sp.Matrix(c.fields[('this', m)])
        for (i, j) in touched[m]:
            A[i, j] = sp.Symbol('old:%s[%d,%d]' % (m, i, j), real=True)
        g.fields[('this', m)] = sp.ImmutableMatrix(A)
    again = rd.run(init, state=g)
    names = [p['name'] for p in init['params']]
    ang = [sp.Symbol('arg:' + n, real=True) for n in names]
    return {'ctor': ctor, 'init': init, 'ctor_state': c, 'fresh': fresh, 'again': again, 'angles': ang, 'touched': touched}


def canon(x, y, z):
    cx, sx, cy, sy, cz, sz = sp.cos(x), sp.sin(x), sp.cos(y), sp.sin(y), sp.cos(z), sp.sin(z)
    Rx = sp.Matrix([[1, 0, 0], [0, cx, -sx], [0, sx, cx]])
    Ry = sp.Matrix([[cy, 0, sy], [0, 1, 0], [-sy, 0, cy]])
    Rz = sp.Matrix([[cz, -sz, 0], [sz, cz, 0], [0, 0, 1]])
    return Rx, Ry, Rz


def cond_subs(st):
    """Substitutions implied by equality conditions of a path (e.g. angle == 0)."""
    sub = {}
    for c in st.cond:
        r = c[1]
        if isinstance(r, sp.Eq) and c[2]:
            a, b = r.lhs, r.rhs
            if a.is_Symbol and b.is_Number:
                sub[a] = b
            elif b.is_Symbol and a.is_Number:
                sub[b] = a
        if isinstance(r, sp.Ne) and not c[2]:
            a, b = r.lhs, r.rhs
            if a.is_Symbol and b.is_Number:
                sub[a] = b
            elif b.is_Symbol and a.is_Number:
                sub[b] = a
    return sub


def observe(fx, st, name, args=None, nparams=None):
    """What a caller SEES: run the const accessor `name` on (a copy of) the object state `st` - the first access after the call that produced st.
    Returns [(returned value, state after)]; raises sym.Unsupported when the accessor is not readable; None when it vanished."""
    fs = [f for f in fx.fn(Q + name) if nparams is None or len(f['params']) == nparams]
    if len(fs) != 1:
        return None
    out = reader(fx).run(fs[0], args=args, state=st.copy())
    return [(s.ret, s) for s in out], fs[0]
