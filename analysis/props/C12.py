"""C12 - analytic derivatives and propagated covariances match the maps they describe.

Rules (exact algebra on extracted formula tables; formal differentiation by sympy)
  G1  derivative tables: dRxdAngleX_ = d Rx / dx (entry-wise, an entry never assigned keeps its constructor value), same for y, z;
      dRdAngle{X,Y,Z} = d (Rz Ry Rx) / d angle
  G2  derivative of a rotated vector: dRTdAngles(T).col(k) = dRdAngle<k> * T for k <-> (X, Y, Z)
  G3  pose covariance: result.covariance = J C J^T with one and the same J (C symmetric); J equals the Jacobian of the library's own pose
      map (position' = A p + t, orientation' = euler(A R(o))) expressed in A, R(o) and the derivative accessors: position block,
      zero cross blocks, and the nine orientation entries (atan2 / asin derivative coefficients, rows of A, accessor of axis k in column k)
  G4  least-squares covariance = A (J^T J)^-1 A^T * variance for a diagonal preconditioner A (checked on a representative 3x3 symbolic
      instance of the dynamic-size matrices), using the inverse stored by the last estimate
  G5  that stored inverse is (J^T J)^-1 of the rows of the current problem: the solver rules of C07 (row slicing L1, normal equations L2,
      solver paths and every store of inverseJtJ_ L3, weights/preconditioner L4-L6) are evaluated here under this rule name - a stale row
      or a (J J^T)^-1 in the store makes the reported covariance wrong while every formula of G4 still matches
Known findings (genuine defects recorded, not repaired: the suite pins the wrong numbers, see known_findings.json): the identity-seeded
derivative tables (G1) and the position block / pitch coefficient / yaw row of the Pose3D Jacobian (G3).
Not decided: numerical agreement with finite differences."""
import sympy as sp
from .. import alg
from .. import sym, mat
from ..tree import sx, walk, pp, strip_casts
from .C20 import deep_unwrap
from .C14 import stmts_sx
from . import rot

LEVEL = 'other'
UNITS = ['src/transform/SmartRotation3D.cpp', 'src/geometry/Pose3D.cpp', 'src/regression/leastsquares/LeastSquares.cpp', 'verif:inst_math.cpp']
ENGINES = 'E-ALG + E-SIB over romea-facts'
TECHNIQUE = 'pointer tables into own members under compiler-generated copies (sweep H12), refresh-on-demand flags (sweep H15), every path of a forked init() compared with the reference path on angles that select it, raw factors of the pivoted LDLT, known findings matched by a numeric fingerprint of the observed deviation, forwarding of the angles by every constructor and init overload, every denominator met while the Jacobian is assembled evaluated on exact quarter-turn and permutation rotations, derivative accessors and dRTdAngles observed on first access after init(), covariance query read a second time on the state it left, tolerance-skip path of the covariance propagation, sweep of every function read (and its in-repo callees) for frozen function-local statics, single precision inside double computations, lossy copy constructors, presence- or argument-keyed member caches, reference members bound to constructor arguments, loop accumulators that are members, members derived in the constructor and not refreshed by setters, results returned by reference to a member buffer, members filled from an argument under a condition that ignores it, hidden non-virtual base members, self-bound reference members, reductions that accumulate in float; re-initialisation paths (stale derivative tables), Cholesky of a covariance the quantifier allows to be singular; solver rules of C07 evaluated under this property (G5: the stored inverse is (J^T J)^-1 of the current rows); matrix-valued formula extraction from the AST and exact computer algebra: formal differentiation of the rotation tables, symbolic Jacobian of the library\'s own pose map, congruence form of the propagated covariances'
EXPLANATION = ('The rotation and derivative tables of SmartRotation3D, the 6x6 Jacobian assembled in operator*(Affine3d, Pose3D) and the covariance formulas are extracted as exact symbolic matrices '
               'and compared with formal derivatives / the congruence J C J^T. Genuine deviations already present in the library are listed as known findings and printed as KNOWN-FINDING.')
ASSUMPTIONS = ['exact real arithmetic; |pitch| < pi/2 before and after the transformation; C symmetric',
               'dynamic-size least-squares matrices are represented by a generic 3x3 symbolic instance (identities in the entries are size-generic)']
LEVEL_TEXT = ('For all angles, vectors, transforms and covariances at once: derivative tables and Jacobian entries are compared with formal derivatives of the very formulas the library uses; '
              'a wrong coefficient, row, accessor or seed leaves a non-zero residual entry. Existing deviations are reported as known findings, any new one as a violation.')
LEVEL_NOTE = 'Not decided: numerical agreement with finite differences. Trusted: clang front end, extractor, sympy. Open known findings: see known_findings.json (C12).'

NS = 'romea::core::'


def run(fx, R, tier):
    R.floor('G1', 6)
    R.floor('G3', 10)
    check_tables(fx, R)
    check_pose(fx, R)
    check_ls_covariance(fx, R)
    from . import C07
    C07.run(fx, _Remap(R), tier)


class _Remap:
    """Forwards C07's verdicts under rule G5."""

    def __init__(self, R):
        self.R = R

    def holds(self, rule, inst, *a, **k):
        self.R.holds('G5', '%s[%s]' % (inst, rule), *a, **k)

    def violated(self, rule, inst, *a, **k):
        self.R.violated('G5', '%s[%s]' % (inst, rule), *a, **k)

    def undecided(self, rule, inst, *a, **k):
        self.R.undecided('G5', '%s[%s]' % (inst, rule), *a, **k)

    def check(self, cond, rule, inst, *a, **k):
        return self.R.check(cond, 'G5', '%s[%s]' % (inst, rule), *a, **k)

    def form(self, cond, rule, inst, *a, **k):
        return self.R.form(cond, 'G5', '%s[%s]' % (inst, rule), *a, **k)

    def used(self, *f):
        self.R.used(*f)

    def floor(self, rule, n):
        pass


# ---------------------------------------------------------------------------------------------
def check_tables(fx, R):
    md = rot.model(fx)
    if md is None:
        R.undecided('G1', 'SmartRotation3D', 'tables not readable')
        return
    R.used(md['ctor'], md['init'])
    rot.check_forwarding(fx, R, 'G1')
    loc = fx.rel(md['ctor']['loc'])
    x, y, z = md['angles']
    # re-initialisation: what the accessors hand out after init() on an object with an arbitrary earlier state must not contain entries an earlier init() wrote
    # (the accessors are RUN on the state init() leaves - first access - so tables composed on demand are judged by what they return)
    T = mat.fresh('T', 3, 1)
    ACC = (('X', 'dRdAngleAroundXAxis', ('Rz_', 'Ry_', 'dRxdAngleX_')), ('Y', 'dRdAngleAroundYAxis', ('Rz_', 'dRydAngleY_', 'Rx_')), ('Z', 'dRdAngleAroundZAxis', ('dRzdAngleZ_', 'Ry_', 'Rx_')))

    def seen(st_, name, args=None, nparams=0):
        try:
            ob = rot.observe(fx, st_, name, args=args, nparams=nparams)
        except sym.Unsupported as u:
            return str(u), None
        if ob is None:
            return 'vanished', None
        R.used(ob[1])
        vals = [v for (v, _s) in ob[0]]
        if len(vals) != 1 or not isinstance(vals[0], sp.MatrixBase):
            return 'does not return one readable matrix', ob[1]
        return sp.Matrix(vals[0]), ob[1]

    for st_ in md['again']:
        desc = ' && '.join(('' if c[2] else '!') + '(' + c[0] + ')' for c in st_.cond)
        stale = []
        for (ax, acc, prod) in ACC:
            v, f_ = seen(st_, acc)
            if isinstance(v, sp.MatrixBase):
                stale += ['%s() <- %s' % (acc, s_.name) for s_ in v.free_symbols if s_.name.startswith('old:')]
        v, f_ = seen(st_, 'dRTdAngles', args=[T], nparams=1)
        if isinstance(v, sp.MatrixBase):
            stale += ['dRTdAngles() <- %s' % s_.name for s_ in v.free_symbols if s_.name.startswith('old:')]
        if stale:
            R.violated('G1', 'SmartRotation3D::init:stale-derivative-tables', 'on the path [%s] of a re-initialisation the first access afterwards still returns entries an EARLIER init() wrote (%s): the reported derivative '
                       'matrices are those of the PREVIOUS angles, not derivatives of the reported rotation' % (desc, sorted(set(stale))[:4]), fx.rel(md['init']['loc']), 'E-STATE')
            break
    generic = [s_ for s_ in md['fresh'] if not any(c[2] and isinstance(c[1], (sp.Eq, sp.And)) for c in s_.cond)]
    if len(md['fresh']) != 1 and len(generic) != 1:
        # several general paths (a range reduction of the angles, a branch on their size): the path ordinary angles take is the reference; every other path is evaluated on angles that select it and must
        # hand out the SAME rotation and derivative matrices as the reference formulas give for those angles (the rotation and its derivatives are functions of the angles, not of the path)
        def takes(st_, w_):
            for c_ in st_.cond:
                if not isinstance(c_[1], sp.Basic):
                    return None
                v_ = c_[1].subs(w_)
                if v_ not in (sp.true, sp.false):
                    try:
                        v_ = v_.func(sp.N(v_.lhs, 30), sp.N(v_.rhs, 30))
                    except Exception:
                        return None
                if v_ not in (sp.true, sp.false):
                    return None
                if bool(v_) != c_[2]:
                    return False
            return True
        w0 = {x: sp.Rational(1, 10), y: sp.Rational(1, 5), z: sp.Rational(3, 10)}
        ref = [s_ for s_ in md['fresh'] if takes(s_, w0) is True]
        if len(ref) != 1:
            R.undecided('G1', 'SmartRotation3D::init', 'init() forks into %d paths and the angles (0.1, 0.2, 0.3) do not select exactly one' % len(md['fresh']))
            return
        cands = [{x: sp.Rational(1, 10), y: 2 * sp.pi - sp.Rational(3, 10), z: sp.Rational(3, 10)}, {x: sp.Rational(1, 10), y: sp.Rational(5, 2), z: sp.Rational(3, 10)},
                 {x: sp.Rational(1, 10), y: -sp.Rational(2), z: sp.Rational(3, 10)}, {x: sp.Rational(7, 2), y: sp.Rational(1, 5), z: sp.Rational(3, 10)}, {x: sp.Rational(1, 10), y: sp.Rational(1, 5), z: sp.Rational(5)},
                 {x: -sp.Rational(1, 10), y: -sp.Rational(1, 5), z: -sp.Rational(3, 10)}, {x: sp.Integer(0), y: sp.Integer(0), z: sp.Integer(0)}]
        for s_ in md['fresh']:
            if s_ is ref[0]:
                continue
            desc = ' && '.join(('' if c[2] else '!') + '(' + c[0] + ')' for c in s_.cond)
            wsel = next((w_ for w_ in cands if takes(s_, w_) is True), None)
            if wsel is None:
                R.undecided('G1', 'SmartRotation3D::init:path[%s]' % desc[:80], 'no witness angles select this path of init()')
                continue
            worst = None
            for (nm_, acc_) in (('R', 'R'),) + tuple((a_[1], a_[1]) for a_ in ACC):
                va, _f = seen(s_, acc_)
                vb, _f = seen(ref[0], acc_)
                if not (isinstance(va, sp.MatrixBase) and isinstance(vb, sp.MatrixBase)):
                    worst = worst or ('?', acc_)
                    continue
                try:
                    da = (va.subs(wsel) - vb.subs(wsel)).applyfunc(lambda t_: abs(sp.N(t_, 30)))
                    mx = max(da)
                except Exception:
                    worst = worst or ('?', acc_)
                    continue
                if mx > sp.Float('1e-9') and (worst is None or worst[0] == '?'):
                    worst = (mx, acc_, sp.N(va.subs(wsel), 5).tolist(), sp.N(vb.subs(wsel), 5).tolist())
            if worst and worst[0] != '?':
                R.violated('G1', 'SmartRotation3D::init:path-consistency', 'on the path [%s] of init(), taken for the angles (%s), %s() hands out %s; the formulas of the path ordinary angles take give %s for the same angles '
                           '(largest difference %s).  The rotation and its derivatives are functions of the angles: a path that re-expresses the angles (another representation of the same rotation) must apply the chain '
                           'rule to the derivative tables - here the reported derivative is not the derivative of the reported rotation with respect to the angle the CALLER varies, and J C J^T of a transformed '
                           'pose whose stored pitch falls in that range has wrong cross terms' % (desc[:160], ', '.join(str(sp.N(wsel[a_], 5)) for a_ in (x, y, z)), worst[1], str(worst[2])[:160], str(worst[3])[:160],
                                                                                                  sp.N(worst[0], 4)), fx.rel(md['init']['loc']), 'E-ALG')
            elif worst:
                R.undecided('G1', 'SmartRotation3D::init:path[%s]' % desc[:80], '%s() not readable on this path' % worst[1])
            else:
                R.holds('G1', 'SmartRotation3D::init:path[%s]' % desc[:80], 'hands out the same rotation and derivative matrices as the reference path on angles that select it', fx.rel(md['init']['loc']), 'E-ALG')
        generic = ref
    st = generic[0] if len(md['fresh']) != 1 else md['fresh'][0]
    F = lambda n: sp.Matrix(st.fields[('this', n)])
    for (tab, dtab, ang, ax) in (('Rx_', 'dRxdAngleX_', x, 'X'), ('Ry_', 'dRydAngleY_', y, 'Y'), ('Rz_', 'dRzdAngleZ_', z, 'Z')):
        want = F(tab).diff(ang)
        got = F(dtab)
        bad = [(i, j) for i in range(3) for j in range(3) if sp.simplify(got[i, j] - want[i, j]) != 0]
        if not bad:
            R.holds('G1', 'SmartRotation3D:%s' % dtab, 'equals d %s / d angle entry-wise' % tab, loc, 'E-ALG')
        else:
            i, j = bad[0]
            seeded = all(md['ctor_state'].fields[('this', dtab)][a, b] == got[a, b] for (a, b) in bad)
            R.fingerprint('G1', 'SmartRotation3D:%s:%s' % (dtab, 'constructor-seed' if seeded else 'entries'), alg.numeric_fingerprint(got))
            R.violated('G1', 'SmartRotation3D:%s:%s' % (dtab, 'constructor-seed' if seeded else 'entries'),
                       'entries %s of %s differ from d%s/d%s: e.g. (%d,%d) is %s, the derivative is %s%s' % (
                           bad, dtab, tab, ax.lower(), i, j, got[i, j], want[i, j],
                           ' - these entries are never written by init() and keep the Identity the constructor seeds the table with (the derivative of a constant entry is 0)' if seeded else ''),
                       loc, 'E-ALG')
    Rv, fR = seen(st, 'R')
    if not isinstance(Rv, sp.MatrixBase):
        R.undecided('G1', 'SmartRotation3D::R', 'R() on the state init() leaves: %s' % Rv)
        return
    Rfull = Rv
    outs = {}
    for (ax, acc, prod), ang in zip(ACC, (x, y, z)):
        v, f_ = seen(st, acc)
        if not isinstance(v, sp.MatrixBase):
            R.undecided('G1', 'SmartRotation3D::dRdAngleAround%sAxis' % ax, 'accessor on the state init() leaves: %s' % v)
            continue
        outs[ax] = v
        want = Rfull.diff(ang)
        res = sp.simplify(v - want)
        if res != sp.zeros(3, 3):
            R.fingerprint('G1', 'SmartRotation3D::dRdAngleAround%sAxis:value' % ax, alg.numeric_fingerprint(v) + ' vs ' + alg.numeric_fingerprint(want))       # what is reported AND what it is compared with
        R.check(res == sp.zeros(3, 3), 'G1', 'SmartRotation3D::dRdAngleAround%sAxis:value' % ax,
                'dR/d%s as reported differs from the derivative of the reported R by %s' % (ax.lower(), res.tolist()), 'equals d R / d angle', loc, 'E-ALG')
        # product structure over the library's own elementary tables, judged on what the accessor RETURNS on first access after init()
        dtab = 'dRdAngle%s_' % ax
        wantp = F(prod[0]) * F(prod[1]) * F(prod[2])
        resp = sp.simplify(v - wantp)
        R.check(resp == sp.zeros(3, 3), 'G1', 'SmartRotation3D:%s:product' % dtab, '%s() returns something else than %s*%s*%s of the tables init() just wrote (residual %s) on the first access after init()' % (
            (acc,) + prod + (resp.tolist(),)), '%s() = %s %s %s' % ((acc,) + prod), fx.rel(f_['loc']), 'E-ALG')
        R.holds('G1', 'SmartRotation3D::dRdAngleAround%sAxis:accessor' % ax, 'run on the state init() leaves', fx.rel(f_['loc']), 'E-SIB')
    rd = rot.reader(fx)
    # G2 on the real object: dRTdAngles(T) right after init() has columns (what dRdAngleAround?Axis() returns) * T
    v, f_ = seen(st, 'dRTdAngles', args=[T], nparams=1)
    if isinstance(v, sp.MatrixBase) and v.shape == (3, 3) and len(outs) == 3:
        for k, ax in enumerate('XYZ'):
            res = sp.simplify(sp.Matrix(v[:, k]) - outs[ax] * T)
            R.check(res == sp.zeros(3, 1), 'G2', 'SmartRotation3D::dRTdAngles:first-access:col%d' % k, 'right after init() column %d of dRTdAngles(T) is not dRdAngleAround%sAxis() * T (residual %s): it reads a composed table '
                    'without the refresh the accessor performs' % (k, ax, res.T.tolist()), 'col(%d) = dRdAngleAround%sAxis() * T on first access' % (k, ax), fx.rel(f_['loc']), 'E-STATE')
    elif len(outs) == 3:
        R.undecided('G2', 'SmartRotation3D::dRTdAngles:first-access', 'dRTdAngles(T) on the state init() leaves: %s' % (v if not isinstance(v, sp.MatrixBase) else 'shape %s' % (v.shape,)))
    # ---- G2 -------------------------------------------------------------------------------
    f = fx.one(rot.Q + 'dRTdAngles')
    if f is None:
        R.undecided('G2', 'SmartRotation3D::dRTdAngles', 'vanished')
        return
    R.used(f)
    T = mat.fresh('T', 3, 1)
    g2 = md['ctor_state'].copy()
    DX, DY, DZ = mat.fresh('dRdAngleX_', 3, 3), mat.fresh('dRdAngleY_', 3, 3), mat.fresh('dRdAngleZ_', 3, 3)
    g2.fields[('this', 'dRdAngleX_')], g2.fields[('this', 'dRdAngleY_')], g2.fields[('this', 'dRdAngleZ_')] = DX, DY, DZ
    try:
        sts = rd.run(f, args=[T], state=g2)
    except sym.Unsupported as u:
        R.undecided('G2', 'SmartRotation3D::dRTdAngles', str(u))
        return
    out = sts[0].ret if len(sts) == 1 else None
    if not isinstance(out, sp.MatrixBase):
        R.undecided('G2', 'SmartRotation3D::dRTdAngles', 'result not a matrix')
        return
    for k, (D, ax) in enumerate(((DX, 'X'), (DY, 'Y'), (DZ, 'Z'))):
        res = sp.simplify(sp.Matrix(out[:, k]) - D * T)
        R.check(res == sp.zeros(3, 1), 'G2', 'SmartRotation3D::dRTdAngles:col%d' % k, 'column %d is not dR/d%s * T (residual %s)' % (k, ax.lower(), res.T.tolist()), 'col(%d) = dR/d%s * T' % (k, ax.lower()),
                fx.rel(f['loc']), 'E-ALG')


# ---------------------------------------------------------------------------------------------
class PoseHook:
    def __init__(self):
        self.A = mat.fresh('A', 3, 3)
        self.t = mat.fresh('t', 3, 1)
        self.P = mat.fresh('P', 3, 3)
        self.D = {'X': mat.fresh('DX', 3, 3), 'Y': mat.fresh('DY', 3, 3), 'Z': mat.fresh('DZ', 3, 3)}

    def __call__(self, rd, e, st, ctx):
        k = e.get('k')
        if k == 'Construct' and e.get('cls') == NS + 'SmartRotation3D':
            out = []
            for (vals, s2) in rd.evs(e.get('args', []), st, ctx):
                out.append(({'__smart__': vals[0] if vals else None}, s2))
            return out
        if k == 'MCall':
            obj = strip_casts(e['obj'])
            name = e.get('m')
            if obj.get('k') == 'Ref' and obj.get('name') == 'affine' and name in ('rotation', 'linear'):
                return [(self.A, st)]
            if obj.get('k') == 'Ref' and obj.get('name') == 'affine' and name == 'translation':
                return [(self.t, st)]
            if (e.get('cls') or '') == NS + 'SmartRotation3D':
                if name == 'R':
                    return [(self.P, st)]
                for ax in 'XYZ':
                    if name == 'dRdAngleAround%sAxis' % ax:
                        return [(self.D[ax], st)]
        if k == 'Call' and 'between0And2Pi' in (e.get('fn') or ''):
            return [(sp.Function('mod2pi')(*vals), s2) for (vals, s2) in rd.evs(e['args'], st, ctx)]
        return mat.hook(rd, e, st, ctx)


def check_pose(fx, R):
    fs = [f for f in fx.fn(NS + 'operator*') if 'Pose3D' in f['sig'] and 'Transform' in f['sig']]
    if len(fs) != 1:
        R.undecided('G3', 'operator*(Affine3d,Pose3D)', 'anchor vanished')
        return
    f = fs[0]
    R.used(f)
    loc = fx.rel(f['loc'])
    H = PoseHook()
    rd = sym.Reader(fx, call_hook=H, member_hook=mat.member_hook, max_depth=8)
    rd.atoms = set()
    p, o = mat.fresh('p', 3, 1), mat.fresh('o', 3, 1)
    C = sp.ImmutableMatrix(6, 6, lambda i, j: sp.Symbol('c%d%d' % (min(i, j), max(i, j)), real=True))
    args = [None, {'position': p, 'orientation': o, 'covariance': C}]
    # split the body after the last store into J: the Jacobian is read first, then the remaining statements are read with J
    # replaced by named entries (keeps the covariance algebra small)
    top = f['body']['s']
    ids = {}
    for s in walk(f['body']):
        if s.get('k') == 'Decl':
            for v in s['vars']:
                ids.setdefault(v['name'], v['id'])
    jid = ids.get('J')

    def stores_into_J(s):
        if s['k'] != 'Expr':
            return False
        e0 = strip_casts(s['e'])
        lhs = e0['l'] if e0.get('k') == 'Bin' else (e0['args'][0] if e0.get('k') == 'Op' and e0.get('args') else None)
        while lhs is not None and lhs.get('k') in ('Op', 'MCall', 'Cast'):
            lhs = strip_casts(lhs['args'][0]) if lhs.get('k') == 'Op' and lhs.get('args') else strip_casts(lhs.get('obj') or lhs.get('e'))
        return lhs is not None and lhs.get('k') == 'Ref' and lhs.get('id') == jid
    last = max([n for n, s in enumerate(top) if stores_into_J(s)] or [-1])
    if jid is None or last < 0:
        R.undecided('G3', 'operator*(Affine3d,Pose3D):J', 'no 6x6 Jacobian local named J assembled by element/block stores')
        return
    ctx = {'this': ('this',), 'fn': f, 'depth': 0}
    st0 = sym.State()
    st0.locals[f['params'][1]['id']] = args[1]
    # G6 (definedness): every denominator met while the Jacobian is assembled is recorded, and evaluated below on exact quarter-turn configurations
    denominators = []
    _arith = rd.arith

    def recording_arith(op, a, b, e):
        if op == '/' and isinstance(b, sp.Basic) and not isinstance(b, sp.MatrixBase) and b.free_symbols:
            denominators.append((b, e.get('loc'), pp(e)))
        return _arith(op, a, b, e)
    rd.arith = recording_arith
    try:
        states = [st0]
        for s in top[:last + 1]:
            nxt = []
            for x in states:
                nxt += rd.ex(s, x, ctx)
            states = nxt
        if len(states) != 1:
            R.undecided('G3', 'operator*(Affine3d,Pose3D)', 'Jacobian assembly forks into %d paths' % len(states))
            return
        J = states[0].locals.get(jid)
        if not isinstance(J, sp.MatrixBase) or J.shape != (6, 6):
            R.undecided('G3', 'operator*(Affine3d,Pose3D):J', 'Jacobian local J not found as a 6x6 matrix')
            return
        Js = sp.ImmutableMatrix(6, 6, lambda i, j: sp.Symbol('j%d%d' % (i, j), real=True) if J[i, j] != 0 else 0)
        st1 = states[0].copy()
        st1.locals[jid] = Js
        states = [st1]
        for s in top[last + 1:]:
            nxt = []
            for x in states:
                nxt += rd.ex(s, x, ctx)
            states = nxt
    except sym.Unsupported as u:
        R.undecided('G3', 'operator*(Affine3d,Pose3D)', 'symbolic reader: %s' % u)
        return
    if len(states) > 1 and all(isinstance(x.ret, dict) for x in states):
        # the propagation sits behind a guard: the path that propagates is judged below; a path that skips it under a TOLERANCE test on the
        # covariance returns the default covariance for non-null inputs of small magnitude
        from .. import earlyexit
        main = [x for x in states if isinstance(x.ret.get('covariance'), sp.MatrixBase) and any(e_.has(*[j_ for j_ in Js if j_ != 0][:1]) for e_ in x.ret['covariance'])]
        rest = [x for x in states if x not in main]
        for x in rest:
            tol = None
            for c in x.cond:
                node = c[3] if len(c) > 3 else None
                t_ = earlyexit.is_tolerance_test(node) if node is not None else None
                if t_ and 'covariance' in c[0]:
                    tol = (c[0], t_, c[2])
            desc = ' && '.join(('' if c[2] else '!') + '(' + c[0] + ')' for c in x.cond)
            if tol:
                R.violated('G3', 'operator*:covariance:tolerance-skip', 'on the path [%s] the covariance of the result is not J C J^T but what the default constructor left; the guard is %s, an absolute test: a non-null '
                           'covariance whose entries are all below Eigen\'s default precision (1e-12: millimetre-level standard deviations in metres squared are 1e-6, micro-radians squared 1e-12) - inside the '
                           'quantifier, every symmetric positive semi-definite covariance - is replaced by zero' % (desc, tol[1]), loc, 'E-STATE')
            else:
                R.undecided('G3', 'operator*(Affine3d,Pose3D):path[%s]' % desc, 'a path does not propagate the covariance; whether its condition is exact is not decided')
        if len(main) == 1:
            states = main
    if len(states) != 1 or not isinstance(states[0].ret, dict):
        R.undecided('G3', 'operator*(Affine3d,Pose3D)', 'result not readable as a pose (%d paths)' % len(states))
        return
    res = states[0].ret
    A, t, P, D = H.A, H.t, H.P, H.D
    M = A * P
    check_definedness(fx, R, f, A, P, denominators)
    # ---- the library's own pose map ---------------------------------------------------------------
    pos = res.get('position')
    okp = isinstance(pos, sp.MatrixBase) and (sp.Matrix(pos) - (A * p + t)).expand() == sp.zeros(3, 1)
    R.check(bool(okp), 'G3', 'operator*:position-map', 'position\' is %s, expected R*p + T with the transform\'s own parts' % (pos,), "p' = A p + t", loc, 'E-ALG')
    ori = res.get('orientation')
    ok_o = isinstance(ori, sp.MatrixBase) and all(str(ori[k, 0].func) == 'mod2pi' for k in range(3))
    want_o = [sp.atan2(M[2, 1], M[2, 2]), -sp.asin(M[2, 0]), sp.atan2(M[1, 0], M[0, 0])]
    if ok_o:
        ok_o = all(sp.expand(ori[k, 0].args[0] - sp.expand(want_o[k])) == 0 or ori[k, 0].args[0] == want_o[k] or same_fn(ori[k, 0].args[0], want_o[k]) for k in range(3))
    R.check(bool(ok_o), 'G3', 'operator*:orientation-map', 'orientation\' is not the Euler extraction of A * R(pose)', "o' = euler(A R(o))", loc, 'E-ALG')
    # ---- covariance congruence ------------------------------------------------------------------------
    cov = res.get('covariance')
    if not isinstance(cov, sp.MatrixBase):
        R.undecided('G3', 'operator*:congruence', 'covariance not readable')
    else:
        want = sp.Matrix(Js) * sp.Matrix(C) * sp.Matrix(Js).T
        llts = [x for x in walk(f['body']) if x.get('k') == 'MCall' and x.get('m') == 'llt' and 'covariance' in pp(x.get('obj'))]
        if llts:
            R.violated('G3', 'operator*:covariance:cholesky-of-psd', 'the covariance is propagated through `%s` (plain Cholesky, LLT): it exists only for positive DEFINITE matrices, Eigen stops at the first '
                       'zero pivot and the code never looks at info(); the quantifier has every symmetric positive SEMI-definite covariance (planar estimates lifted to 3-D, exactly known coordinates), for '
                       'which the factor - and J L L^T J^T - is not J C J^T' % pp(llts[0]), fx.rel(llts[0]['loc']), 'E-INT')
        if any(x.atoms(sp.core.function.AppliedUndef) for x in cov):
            if not llts:
                R.undecided('G3', 'operator*:congruence', "covariance' contains a factorisation this rule does not interpret")
            cov = None
    if isinstance(cov, sp.MatrixBase):
        diff = sp.Matrix(cov) - want
        bad = [(i, j) for i in range(6) for j in range(6) if sp.expand(diff[i, j]) != 0]
        asym = [(i, j) for (i, j) in bad if sp.expand(cov[i, j] - cov[j, i]) != 0]
        R.check(not bad, 'G3', 'operator*:congruence', "covariance' differs from J C J^T (C symmetric) in entries %s%s" % (bad[:6], ': the result is not even symmetric' if asym else ''),
                "C' = J C J^T with one J", loc, 'E-ALG')
    # ---- Jacobian blocks -------------------------------------------------------------------------------
    Jpp = sp.Matrix(J[0:3, 0:3])
    resid = (Jpp - A).expand()
    if resid != sp.zeros(3, 3):
        R.fingerprint('G3', 'operator*:J:position-block', alg.numeric_fingerprint(Jpp))
    R.check(resid == sp.zeros(3, 3), 'G3', 'operator*:J:position-block', 'd position\'/d position is written as %s; the map above is p\' = A p + t, whose derivative is A (the block uses A*R(pose) instead)' % (
        'A*P' if (Jpp - M).expand() == sp.zeros(3, 3) else Jpp.tolist()), 'position block = A', loc, 'E-ALG')
    z1 = sp.Matrix(J[0:3, 3:6]) == sp.zeros(3, 3) and sp.Matrix(J[3:6, 0:3]) == sp.zeros(3, 3)
    R.check(z1, 'G3', 'operator*:J:cross-blocks', 'cross blocks are not zero', 'position/orientation cross blocks are zero', loc, 'E-ALG')
    # true orientation Jacobian in terms of A, P and the derivative accessors D_k = dR(o)/do_k
    names = ('roll', 'pitch', 'yaw')
    for k, ax in enumerate('XYZ'):
        dM = A * D[ax]
        true = [
            (M[2, 2] * dM[2, 1] - M[2, 1] * dM[2, 2]) / (M[2, 1] ** 2 + M[2, 2] ** 2),
            -dM[2, 0] / sp.sqrt(1 - M[2, 0] ** 2),
            (M[0, 0] * dM[1, 0] - M[1, 0] * dM[0, 0]) / (M[0, 0] ** 2 + M[1, 0] ** 2),
        ]
        for i in range(3):
            got = J[3 + i, 3 + k]
            r_ = 0 if same(got, true[i]) else 1
            inst = 'operator*:J:%s-row:col%s' % (names[i], ax)
            if r_ == 0:
                R.holds('G3', inst, 'equals d %s\'/d angle%s' % (names[i], ax), loc, 'E-ALG')
            else:
                why = diagnose(got, true[i], A, P, D, ax, i)
                R.fingerprint('G3', 'operator*:J:%s-row' % names[i], 'col%s:%s' % (ax, alg.numeric_fingerprint(got)))
                R.violated('G3', 'operator*:J:%s-row' % names[i], 'J(%d,%d) is not d %s\'/d angle around %s of the library\'s own map: %s' % (3 + i, 3 + k, names[i], ax, why), loc, 'E-ALG')


def check_definedness(fx, R, f, A, P, denominators):
    """G6: the Jacobian must be DEFINED wherever the pose map is differentiable.  Rotations written as literal / permutation matrices (sensor mounting, change of frame convention) have exact zeros; attitudes a
    quarter turn in roll or yaw are as far from gimbal lock (pitch +-90 deg) as can be.  Every recorded denominator is evaluated, exactly, on such configurations (transform rotation A, pose rotation P)."""
    I3 = sp.eye(3)
    Rz90 = sp.Matrix([[0, -1, 0], [1, 0, 0], [0, 0, 1]])
    Rx90 = sp.Matrix([[1, 0, 0], [0, 0, -1], [0, 1, 0]])
    OPT = sp.Matrix([[0, 0, 1], [-1, 0, 0], [0, -1, 0]])          # optical frame -> body frame (a proper rotation, pitch 0)
    configs = [('a transform that is an exact quarter turn about Z applied to a level pose', Rz90, I3), ('the identity transform applied to a pose whose yaw is an exact quarter turn', I3, Rz90),
               ('a transform that is an exact quarter turn about X applied to a level pose (transformed roll 90 deg, pitch 0)', Rx90, I3), ('the optical-frame to body-frame permutation applied to a level pose', OPT, I3),
               ('a half turn about Z', Rz90 * Rz90, I3)]
    loc = fx.rel(f['loc'])
    if not denominators:
        R.holds('G6', 'operator*:jacobian-defined', 'no division by a quantity of the inputs while the Jacobian is assembled', loc, 'E-ALG')
        return
    bad, unknown = None, 0
    for (den, dloc, text) in denominators:
        for (what, Av, Pv) in configs:
            sub = {A[i, j]: Av[i, j] for i in range(3) for j in range(3)}
            sub.update({P[i, j]: Pv[i, j] for i in range(3) for j in range(3)})
            try:
                v = den.subs(sub)
            except Exception:
                unknown += 1
                continue
            if v.free_symbols:
                unknown += 1
                continue
            if v == 0 or v is sp.nan or v is sp.zoo or v.has(sp.nan, sp.zoo):
                bad = bad or (text, dloc, what, v)
    if bad:
        R.violated('G6', 'operator*:jacobian-defined', 'for %s (a proper rotation with exact zero entries, far from gimbal lock) the denominator of `%s` is %s: the quotient is a division by zero / 0*inf, rows of the '
                   'Jacobian become NaN and the reported covariance J C J^T is NaN - neither symmetric nor positive semi-definite - while the transformed pose itself is fine and the derivative of the pose map exists '
                   'there (a form such as y/(x^2+y^2) is defined wherever (x, y) != (0, 0))' % (bad[2], bad[0][:140], bad[3]), fx.rel(bad[1]) if bad[1] else loc, 'E-ALG')
    elif unknown == len(denominators) * len(configs):
        R.undecided('G6', 'operator*:jacobian-defined', 'no denominator could be evaluated on the quarter-turn configurations')
    else:
        R.holds('G6', 'operator*:jacobian-defined', '%d denominators, none vanishes on %d exact quarter-turn / permutation configurations' % (len(denominators), len(configs)), loc, 'E-ALG')


def same_fn(a, b):
    if a.func != b.func and (-a).func != (-b).func:
        return False
    if a.func == sp.atan2:
        return all(sp.expand(x - y) == 0 for x, y in zip(a.args, b.args))
    return sp.expand(sp.sin(a) - sp.sin(b)) == 0 or sp.expand(a - b) == 0


def same(a, b):
    """Exact equality of two rational expressions (square roots treated as atoms with their defining relation)."""
    d = sp.together(a - b)
    roots = sorted(d.atoms(sp.Pow), key=str)
    rel = {}
    for r_ in roots:
        if r_.exp in (sp.Rational(1, 2), -sp.Rational(1, 2)):
            rel.setdefault(r_.base, sp.Symbol('sqrt%d' % len(rel), positive=True))
    for base, sy in rel.items():
        d = d.subs(sp.sqrt(base), sy).subs(1 / sp.sqrt(base), 1 / sy)
    num, den = sp.fraction(sp.together(d))
    num = sp.expand(num)
    for base, sy in rel.items():
        num = sp.expand(num.subs(sy ** 2, base))
        num = sp.rem(num, sy ** 2 - sp.expand(base), sy) if num.has(sy) else num
    return sp.expand(num) == 0


def diagnose(got, true, A, P, D, ax, row):
    used = sorted({s.name[:2] for s in got.free_symbols if s.name.startswith('D')})
    msg = []
    if used and used != ['D' + ax]:
        msg.append('uses the derivative accessor of axis %s where axis %s belongs' % (','.join(u[1] for u in used), ax))
    if row == 1:
        msg.append('coefficient of d r20 is %s; d(-asin r20) = -d r20 / sqrt(1 - r20^2)' % ('1/(1 - r20^2)' if 'sqrt' not in str(got) else 'different'))
    if row == 2 and any(s.name.startswith('A[') for s in got.free_symbols) and not any(s.name.startswith('P[') for s in sp.fraction(sp.together(got))[1].free_symbols):
        msg.append('the atan2 coefficients are taken from the transform A alone instead of the composed rotation A*R(pose)')
    return '; '.join(msg) or 'non-zero residual'


# ---------------------------------------------------------------------------------------------
DYN = 'Eigen::Matrix<%s, -1, -1, 0>'


class LSHook:
    """Dynamic-size least-squares matrices as a generic 3x3 symbolic instance."""

    def __init__(self):
        self.vals = {}

    def member(self, rd, e, path, st):
        ts = e['t']['s'].replace('const ', '')
        if ts.startswith('Eigen::Matrix<') and ', -1, -1' in ts:
            if path in st.fields and isinstance(st.fields[path], sp.MatrixBase):
                return st.fields[path]
            n = path[-1]
            if n == 'Ac_':
                M = sp.ImmutableMatrix(sp.diag(*[sp.Symbol('a%d' % i, real=True) for i in range(3)]))
            elif n == 'inverseJtJ_':
                M = sp.ImmutableMatrix(3, 3, lambda i, j: sp.Symbol('m%d%d' % (min(i, j), max(i, j)), real=True))
            else:
                M = mat.fresh(n, 3, 3)
            st.fields[path] = M
            return M
        return NotImplemented

    def __call__(self, rd, e, st, ctx):
        k = e.get('k')
        if k == 'MCall' and not e.get('inrepo'):
            name = e.get('m')
            if name in ('diagonal', 'square', 'array', 'matrix', 'transpose', 'asDiagonal'):
                out = []
                for (ov, s2) in rd.ev(e['obj'], st, ctx):
                    if not isinstance(ov, sp.MatrixBase):
                        return NotImplemented
                    if name == 'diagonal':
                        out.append((sp.ImmutableMatrix([ov[i, i] for i in range(ov.shape[0])]), s2))
                    elif name == 'square':
                        out.append((sp.ImmutableMatrix(ov.applyfunc(lambda x: x ** 2)), s2))
                    elif name == 'transpose':
                        out.append((sp.ImmutableMatrix(ov.T), s2))
                    elif name == 'asDiagonal':
                        out.append((sp.ImmutableMatrix(sp.diag(*list(ov))), s2))
                    else:
                        out.append((ov, s2))
                return out
        if k == 'Store':
            l = strip_casts(e['lhs'])
            # X.array().colwise() *= v   /   X.array().rowwise() *= v^T
            if l.get('k') == 'MCall' and l.get('m') in ('colwise', 'rowwise') and e['op'] in ('*=', '/='):
                base = strip_casts(l['obj'])
                while base.get('k') == 'MCall' and base.get('m') in ('array', 'matrix'):
                    base = strip_casts(base['obj'])
                lv = rd.lvalue(base, st, ctx)
                v = e['value']
                if lv and lv[0] in ('local', 'field') and isinstance(v, sp.MatrixBase):
                    M = st.locals.get(lv[1]) if lv[0] == 'local' else st.fields.get(lv[1])
                    if isinstance(M, sp.MatrixBase):
                        vv = list(v)
                        f = (lambda x, y: x * y) if e['op'] == '*=' else (lambda x, y: x / y)
                        if l['m'] == 'colwise':
                            M2 = sp.ImmutableMatrix(M.shape[0], M.shape[1], lambda i, j: f(M[i, j], vv[i]))
                        else:
                            M2 = sp.ImmutableMatrix(M.shape[0], M.shape[1], lambda i, j: f(M[i, j], vv[j]))
                        if lv[0] == 'local':
                            st.locals[lv[1]] = M2
                        else:
                            st.fields[lv[1]] = M2
                        return [(M2, st)]
        if k == 'Construct' and ', -1, -1' in e['t']['s'] and len(e.get('args', [])) == 1:
            return rd.ev(e['args'][0], st, ctx)
        return mat.hook(rd, e, st, ctx)


def check_ls_covariance(fx, R):
    for S in ('double', 'float'):
        f = fx.one(NS + 'LeastSquares<%s>::computeEstimateCovariance' % S)
        if f is None:
            R.undecided('G4', 'LeastSquares<%s>::computeEstimateCovariance' % S, 'anchor vanished')
            continue
        R.used(f)
        H = LSHook()
        rd = sym.Reader(fx, call_hook=H, member_hook=H.member)
        try:
            sts = rd.run(f)
        except sym.Unsupported as u:
            R.undecided('G4', 'LeastSquares<%s>::computeEstimateCovariance' % S, str(u))
            continue
        out = sts[0].ret if len(sts) == 1 else None
        if not isinstance(out, sp.MatrixBase):
            R.undecided('G4', 'LeastSquares<%s>::computeEstimateCovariance' % S, 'result not readable as a matrix: %s' % (out,))
            continue
        # the covariance is a query: asked twice (a-priori variance, then the a-posteriori one) without solving again, the second answer is
        # that of its own argument - the function is read a second time on the state the first call left, with a second variance
        try:
            v2 = sp.Symbol('secondVariance', positive=True)
            sts2 = rd.run(f, args=[v2], state=sts[0])
            out2 = sts2[0].ret if len(sts2) == 1 else None
            if isinstance(out2, sp.MatrixBase):
                first = sp.Symbol('arg:dataVariance', real=True)
                diff2 = sp.Matrix(out2) - sp.Matrix(out).subs(first, v2)
                vq = alg.decide_zero(diff2)
                if vq[0] == 'nonzero':
                    R.violated('G4', 'LeastSquares::computeEstimateCovariance:second-query', 'computeEstimateCovariance(v1) followed by computeEstimateCovariance(v2) on the same solved object returns, the second time, '
                               'a matrix that differs from the covariance for v2 alone (by %s at %s): the first call left its variance in the object (%s), so every further query compounds the factors' % (
                                   vq[2], alg.witness_text(vq[1])[:140], ', '.join(sorted('.'.join(k_[1:]) for k_ in sts[0].fields if k_[0] == 'this' and isinstance(sts[0].fields[k_], sp.MatrixBase)
                                                                                      and any(x_.has(first) for x_ in sts[0].fields[k_]))) or 'a member'), fx.rel(f['loc']), 'E-ALG')
                    continue
                if vq[0] == 'zero':
                    R.holds('G4', 'LeastSquares<%s>::computeEstimateCovariance:second-query' % S, 'a second query returns the covariance of its own variance', fx.rel(f['loc']), 'E-ALG')
                else:
                    R.undecided('G4', 'LeastSquares<%s>::computeEstimateCovariance:second-query' % S, 'second query not decided: %s' % vq[1])
            else:
                R.undecided('G4', 'LeastSquares<%s>::computeEstimateCovariance:second-query' % S, 'second call not readable')
        except sym.Unsupported as u:
            R.undecided('G4', 'LeastSquares<%s>::computeEstimateCovariance:second-query' % S, str(u))
        a = sp.diag(*[sp.Symbol('a%d' % i, real=True) for i in range(3)])
        Mi = sp.Matrix(3, 3, lambda i, j: sp.Symbol('m%d%d' % (min(i, j), max(i, j)), real=True))
        v = [s for s in out.free_symbols if s.name == 'arg:dataVariance']
        if not v:
            R.violated('G4', 'LeastSquares::computeEstimateCovariance:variance', 'the result does not scale with the data variance', fx.rel(f['loc']), 'E-ALG')
            continue
        want = a * Mi * a.T * v[0]
        res = sp.simplify(sp.Matrix(out) - want)
        bad = [(i, j) for i in range(3) for j in range(3) if res[i, j] != 0]
        R.check(not bad, 'G4', 'LeastSquares<%s>::computeEstimateCovariance' % S, 'for a diagonal preconditioner A = diag(a0,a1,a2) the result differs from A (J^T J)^-1 A^T * variance in entries %s, e.g. %s '
                'instead of %s' % (bad[:4], out[bad[0][0], bad[0][1]] if bad else '', want[bad[0][0], bad[0][1]] if bad else ''), 'A (JtJ)^-1 A^T * variance', fx.rel(f['loc']), 'E-ALG')
