"""C18 - check-ups classify by their thresholds; statuses aggregate as a severity order.

Rules
  T1  threshold tables (E-ORD, exhaustive): each evaluate() is a decision tree over comparisons of the bare argument with
      T-E / T+E (or the two reliability thresholds).  It is evaluated on every cell of the order partition induced by its own
      operands (below / on / between / on / above, plus the degenerate E = 0 and low = high partitions) and the status per cell
      is compared with the statement's table.  Only the operand form `value <op> T+-E` is accepted.
  T2  on every path: exactly one (status, message) pair and the printed argument are stored, the returned status is the stored
      one, the message is `<name>` + the verdict text matching the cell, the info entry is toStringInfoValue(argument); timeout()
      stores STALE, `<name> timeout.` and the empty value
  T3  severity order OK < WARN < ERROR < STALE (enum values) and worse() = maximum on all 16 pairs (hence commutative,
      associative on all 64 triples, idempotent)
  T4  worseStatus() is a fold of worse() over the whole list seeded with its first element; an early exit is accepted only at the
      top element; allOK() compares that with OK
  T5  report concatenation appends all diagnostics of the right operand at the end, in order, and merges all info entries
Not decided: nothing beyond floating-point evaluation of T+-E itself (the comparison is performed on T+-E as computed)."""
import itertools
import sympy as sp
from .. import sym
from ..tree import sx, walk, pp, short_fn, strip_casts
from .C20 import m, deep_unwrap

LEVEL = 'proof'
EXHAUSTIVE = True
UNITS = ['src/diagnostics/CheckupReliability.cpp', 'src/diagnostics/DiagnosticStatus.cpp', 'src/diagnostics/Diagnostic.cpp',
         'src/diagnostics/DiagnosticReport.cpp', 'verif:inst_concurrency.cpp']
ENGINES = 'E-ORD + E-STATE + E-WIT over romea-facts'
TECHNIQUE = 'check-up constructors read by value (stored tolerance and reference value are the arguments), the value is received and printed with the own type of the check-up, a skip keyed on the stored status vs constructors that store a caller-supplied diagnostic, a skipped value store must compare the value, switch statements executed by the reader, both status folds run (E-STEP, concrete sequences and iterators) on every status list of 1..4 entries, filtered merges and concatenations (element-wise loops with a guard), threshold comparisons of the double instantiations evaluated in IEEE arithmetic on cells with representable thresholds (expected class in exact rationals), printf buffer bound of non-template printers, status combination evaluated on all 16 pairs by the step evaluator, sweep of every function read (and its in-repo callees) for frozen function-local statics, single precision inside double computations, lossy copy constructors, presence- or argument-keyed member caches, reference members bound to constructor arguments, loop accumulators that are members, members derived in the constructor and not refreshed by setters, results returned by reference to a member buffer, members filled from an argument under a condition that ignores it, hidden non-virtual base members, self-bound reference members, reductions that accumulate in float; exhaustive evaluation of the extracted decision trees over the finite order partition of their own comparison operands; symbolic per-path final-state reading; exhaustive 4-value status algebra'
EXPLANATION = ('Each evaluate() is read symbolically with all helpers inlined (per path: conditions, stored status/message/value, returned value) and evaluated on every cell '
               'of the order partition of its comparison operands, including boundaries and the degenerate epsilon=0 partition; worse() is evaluated on all 16 pairs / 64 triples; '
               'worseStatus is checked as a fold by finite-domain induction; report concatenation by structure. Finite domains are enumerated completely.')
ASSUMPTIONS = ['values are touched only through the comparisons extracted (checked: operands are the bare argument and T-E / T+E / thresholds)',
               'std::list::insert(end, first, last) / std::map::insert(first, last) semantics', 'non-negative epsilon (reliability thresholds in either order: the low threshold has priority)']
LEVEL_TEXT = ('Exhaustive over the finite order-type partition of each decision tree (all boundary cases included, float or int alike, because the code only compares), '
              'and over the 4-value status domain; plus per-path agreement of stored and returned status, message and value. This settles the classification clauses for every input.')
LEVEL_NOTE = 'Trusted: clang front end, extractor, symbolic reader, library container semantics named in the assumptions. One ulp around a threshold is covered because the comparison itself is what is evaluated.'

Q = 'romea::core::'


def hook(rd, e, st, ctx):
    if e.get('k') == 'Call' and 'toStringInfoValue' in (e.get('fn') or ''):
        return [(sp.Function('toStringInfoValue')(*vals), s2) for (vals, s2) in rd.evs(e['args'], st, ctx)]
    return NotImplemented


STATUS = ('this', 'report_', 'diagnostics', '<front>', 'status')
MESSAGE = ('this', 'report_', 'diagnostics', '<front>', 'message')
VALUE = ('this', 'report_', 'info', '<begin>', 'second')
NAME = sp.Symbol('this.report_.info.<begin>.first', real=True)

# verdict texts per kind and cell class (frozen from the statement: "message names the checked quantity with the matching verdict")
TEXT = {
    'equal': {'low': ' is too low.', 'ok': ' is OK.', 'high': ' is too high.'},
    'greater': {'low': ' is too low.', 'ok': ' is OK.'},
    'lower': {'ok': ' is OK.', 'high': ' is too high.'},
    'reliability': {'low': ' is too low.', 'mid': ' is uncertain.', 'ok': ' is high.'},
}


def cells(kind):
    """[(description, assignment, expected class, expected status)] - one witness per cell of the order partition."""
    out = []
    if kind == 'equal':
        for (T, E, vs) in ((0, 1, (-2, -1, 0, 1, 2)), (0, 0, (-1, 0, 1)), (5, 2, (2, 3, 4, 7, 8))):
            for v in vs:
                cls = 'low' if v < T - E else 'high' if v > T + E else 'ok'
                out.append(('T=%s E=%s v=%s' % (T, E, v), {'v': v, 'T': T, 'E': E}, cls, 'OK' if cls == 'ok' else 'ERROR'))
    elif kind == 'greater':
        for (T, E, vs) in ((0, 1, (-2, -1, 0)), (0, 0, (-1, 0, 1))):
            for v in vs:
                cls = 'ok' if v > T - E else 'low'
                out.append(('min=%s E=%s v=%s' % (T, E, v), {'v': v, 'T': T, 'E': E}, cls, 'OK' if cls == 'ok' else 'ERROR'))
    elif kind == 'lower':
        for (T, E, vs) in ((0, 1, (0, 1, 2)), (0, 0, (-1, 0, 1))):
            for v in vs:
                cls = 'ok' if v < T + E else 'high'
                out.append(('max=%s E=%s v=%s' % (T, E, v), {'v': v, 'T': T, 'E': E}, cls, 'OK' if cls == 'ok' else 'ERROR'))
    elif kind == 'reliability':
        for (lo, hi, vs) in ((0, 2, (-1, 0, 1, 2, 3)), (1, 1, (0, 1, 2)), (2, 0, (-1, 0, 1, 2, 3))):
            for v in vs:
                cls = 'low' if v < lo else 'mid' if v < hi else 'ok'
                out.append(('low=%s high=%s v=%s' % (lo, hi, v), {'v': v, 'lo': lo, 'hi': hi}, cls, {'low': 'ERROR', 'mid': 'WARN', 'ok': 'OK'}[cls]))
    return out


def float_cells(kind):
    """Witness cells for the floating instantiations, evaluated in IEEE double arithmetic: thresholds T-E / T+E that are EXACTLY representable and a value next to them whose distance to the target is not
    (so that a classification computed from a rounded difference `value - target` shows).  The expected class is computed with exact rationals."""
    from fractions import Fraction as Fr
    tiny, sub = 1e-20, 5e-324
    out = []
    if kind == 'equal':
        raw = [(1.0, 1.0, -tiny), (1.0, 1.0, -sub), (1.0, 1.0, tiny), (1.0, 1.0, 0.0), (-1.0, 1.0, tiny), (-1.0, 1.0, sub), (-1.0, 1.0, -tiny), (0.5, 0.25, 0.25 - 2.0 ** -60), (0.5, 0.25, 0.75 + 2.0 ** -52),
               (0.5, 0.25, 0.25), (0.5, 0.25, 0.75), (1.0, 1.0, 2.0 + 2.0 ** -51), (1.0, 1.0, 2.0)]
        for (T, E, v) in raw:
            d = Fr(v) - Fr(T)
            cls = 'ok' if abs(d) <= Fr(E) else 'low' if d < 0 else 'high'
            out.append(('T=%r E=%r v=%r' % (T, E, v), {'v': v, 'T': T, 'E': E}, cls, 'OK' if cls == 'ok' else 'ERROR'))
    elif kind == 'greater':
        for (T, E, v) in [(1.0, 1.0, tiny), (1.0, 1.0, sub), (1.0, 1.0, 0.0), (1.0, 1.0, -tiny), (1.0, 1.0, -sub)]:
            cls = 'ok' if Fr(v) > Fr(T) - Fr(E) else 'low'
            out.append(('min=%r E=%r v=%r' % (T, E, v), {'v': v, 'T': T, 'E': E}, cls, 'OK' if cls == 'ok' else 'ERROR'))
    elif kind == 'lower':
        for (T, E, v) in [(-1.0, 1.0, -tiny), (-1.0, 1.0, -sub), (-1.0, 1.0, 0.0), (-1.0, 1.0, tiny), (-1.0, 1.0, sub)]:
            cls = 'ok' if Fr(v) < Fr(T) + Fr(E) else 'high'
            out.append(('max=%r E=%r v=%r' % (T, E, v), {'v': v, 'T': T, 'E': E}, cls, 'OK' if cls == 'ok' else 'ERROR'))
    return out


def feval(e, env):
    """IEEE double evaluation of a path condition (binary operations only, in the order of the expression); None when the order of the operations is not determined by the tree."""
    if e in (sp.true, sp.false):
        return bool(e)
    if isinstance(e, sp.Symbol):
        return env.get(e.name)
    if isinstance(e, sp.Number):
        return float(e)
    if isinstance(e, (sp.Add, sp.Mul)):
        if len(e.args) != 2:
            return None
        a, b = feval(e.args[0], env), feval(e.args[1], env)
        if a is None or b is None:
            return None
        return a + b if isinstance(e, sp.Add) else a * b
    if isinstance(e, sp.Abs):
        a = feval(e.args[0], env)
        return None if a is None else abs(a)
    if isinstance(e, (sp.Lt, sp.Le, sp.Gt, sp.Ge, sp.Eq, sp.Ne)):
        a, b = feval(e.lhs, env), feval(e.rhs, env)
        if a is None or b is None:
            return None
        return {sp.Lt: a < b, sp.Le: a <= b, sp.Gt: a > b, sp.Ge: a >= b, sp.Eq: a == b, sp.Ne: a != b}[type(e)]
    if isinstance(e, sp.Not):
        a = feval(e.args[0], env)
        return None if a is None else (not a)
    if isinstance(e, (sp.And, sp.Or)):
        vs = [feval(a_, env) for a_ in e.args]
        if any(v is None for v in vs):
            return None
        return all(vs) if isinstance(e, sp.And) else any(vs)
    return None


def run(fx, R, tier):
    R.floor('T1', 30)
    R.floor('T2', 20)
    R.floor('T3', 16)
    check_enum(fx, R)
    kinds = []
    for q in sorted(fx.records):
        for (pref, kind) in ((Q + 'CheckupEqualTo<', 'equal'), (Q + 'CheckupGreaterThan<', 'greater'), (Q + 'CheckupLowerThan<', 'lower')):
            if q.startswith(pref):
                kinds.append((q, kind))
    kinds.append((Q + 'CheckupReliability', 'reliability'))
    if len(kinds) < 7:
        R.undecided('T1', 'checkups', 'only %d check-up classes found' % len(kinds))
    for (cq, kind) in kinds:
        check_checkup(fx, R, cq, kind)
    check_configuration(fx, R)
    check_timeout(fx, R)
    check_printer(fx, R)
    check_worse(fx, R)
    check_fold(fx, R)
    check_concat(fx, R)


def check_enum(fx, R):
    e = fx.enums.get(Q + 'DiagnosticStatus')
    vals = {c['name']: c['v'] for c in e['consts']} if e else {}
    ok = vals.get('OK') is not None and vals.get('OK') < vals.get('WARN', -1) < vals.get('ERROR', -1) < vals.get('STALE', -1) and len(vals) == 4
    R.check(ok, 'T3', 'DiagnosticStatus:order', 'enumerator values %s do not realise OK < WARN < ERROR < STALE' % vals, 'OK < WARN < ERROR < STALE', None, 'E-WIT')
    return vals


def operand_form(c, kind):
    """The comparison must be between the bare argument and T-E / T+E (or a bare threshold)."""
    if not isinstance(c, (sp.Lt, sp.Gt, sp.Le, sp.Ge)):
        return False
    byname = {s_.name: s_ for s_ in c.free_symbols}
    if kind == 'reliability':
        v = byname.get('arg:reliability')
        allowed = {byname.get('this.low_reliability_theshold_'), byname.get('this.high_reliability_theshold_')} - {None}
    else:
        v = byname.get('arg:value')
        T, E = byname.get('this.value_to_compare_with_'), byname.get('this.epsilon_')
        allowed = {T - E, T + E} if T is not None and E is not None else set()
    sides = {c.lhs, c.rhs}
    return v is not None and v in sides and len(sides - {v}) == 1 and (sides - {v}).pop() in allowed


def subst(expr, asg, kind, scalar_int):
    if kind == 'reliability':
        d = {'arg:reliability': asg['v'], 'this.low_reliability_theshold_': asg['lo'], 'this.high_reliability_theshold_': asg['hi']}
    else:
        d = {'arg:value': asg['v'], 'this.value_to_compare_with_': asg['T'], 'this.epsilon_': asg['E']}
    m_ = {}
    for s_ in expr.free_symbols:
        if s_.name in d:
            m_[s_] = sp.Integer(d[s_.name])
    return expr.subs(m_)


def state_symbols(c):
    if isinstance(c, sp.Basic):
        return {x.name for x in c.free_symbols if x.name.startswith('this.')} - {'this.value_to_compare_with_', 'this.epsilon_',
                                                                                'this.low_reliability_theshold_', 'this.high_reliability_theshold_'}
    return None


def is_threshold_cond(c, kind):
    """A comparison whose free symbols are only the argument and the thresholds (evaluable on a witness cell)."""
    if isinstance(c, (sp.And, sp.Or, sp.Not)):
        return all(is_threshold_cond(a_, kind) for a_ in c.args)
    if not isinstance(c, (sp.Lt, sp.Gt, sp.Le, sp.Ge, sp.Eq, sp.Ne)):
        return False
    names = {x.name for x in c.free_symbols}
    allowed = {'arg:reliability', 'this.low_reliability_theshold_', 'this.high_reliability_theshold_'} if kind == 'reliability' else \
        {'arg:value', 'this.value_to_compare_with_', 'this.epsilon_'}
    return names <= allowed and any(n.startswith('arg:') for n in names)


def check_checkup(fx, R, cq, kind):
    cname = short_fn(cq)
    f = fx.one(cq + '::evaluate')
    if f is None:
        R.undecided('T1', cname, 'evaluate() has no body')
        return
    R.used(f)
    try:
        rd = sym.Reader(fx, call_hook=hook)
        paths = rd.run(f)
    except sym.Unsupported as u:
        R.undecided('T1', cname, 'symbolic reader: %s' % u)
        return
    argname = 'arg:reliability' if kind == 'reliability' else 'arg:value'
    exhaustive_form = True
    skip_state = set()
    # ---- T2 per path --------------------------------------------------------
    for n, st in enumerate(paths):
        inst = '%s::evaluate:path%d' % (cname, n)
        stored, msg, val = st.fields.get(STATUS), st.fields.get(MESSAGE), st.fields.get(VALUE)
        desc = ' && '.join(('' if c[2] else '!') + '(' + c[0] + ')' for c in st.cond)
        st.tconds = [c for c in st.cond if is_threshold_cond(c[1], kind)]
        st.sconds = [c for c in st.cond if not is_threshold_cond(c[1], kind)]
        for c in st.tconds:
            if not operand_form(c[1], kind):
                exhaustive_form = False
        unwritten = []
        if stored is None or msg is None or not isinstance(stored, sp.Symbol) or stored.name.startswith('this.'):
            unwritten.append('(status, message)')
        if val is None or (isinstance(val, sp.Symbol) and val.name.startswith('this.')):
            unwritten.append('printed value')
        if unwritten:
            # a path that skips a store is only sound if it is a coherent cache: decided by rule T2c below
            ss = set()
            for c in st.sconds:
                x = state_symbols(c[1])
                if x is None:
                    ss = None
                    break
                ss |= x
            arg_in_skip = any(isinstance(c[1], sp.Basic) and any(y_.name == argname for y_ in c[1].free_symbols) for c in st.sconds)
            if 'printed value' in unwritten and st.sconds and ss and not arg_in_skip:
                R.violated('T2', '%s::evaluate:value-skipped' % cname.split('<')[0], 'on the path [%s] evaluate() leaves the info entry as it is; the condition for that looks at the stored %s only, not at the value being '
                           'evaluated: two consecutive evaluations with the same verdict and DIFFERENT values (0.95 then 0.97) leave the first value in the report - the info entry is not the printed value of the '
                           'evaluation the status and message belong to' % (desc[:200], ', '.join(sorted(ss))), fx.rel(f['loc']), 'E-STATE')
            elif not st.sconds or not ss:
                R.violated('T2', '%s::evaluate:skips-%s' % (cname, unwritten[0].replace(' ', '-')), 'path [%s] does not store the %s in the report' % (desc, ' and '.join(unwritten)), fx.rel(f['loc']), 'E-STATE')
            elif ss is None:
                R.undecided('T2', inst, 'path [%s] skips the store of %s under a condition that is not interpretable' % (desc, unwritten))
            else:
                skip_state |= {(x, tuple(unwritten)) for x in ss}
                R.holds('T2', inst + ':conditional-skip', 'path skips the store of %s under a condition on %s: coherence checked by T2c' % (unwritten, sorted(ss)), fx.rel(f['loc']), 'E-STATE')
        if 'printed value' not in unwritten:
            argsym = [s_ for s_ in val.free_symbols if s_.name == argname] if isinstance(val, sp.Basic) else []
            okv = isinstance(val, sp.Basic) and val.func == sp.Function('toStringInfoValue') and len(val.args) == 1 and argsym and val.args[0] == argsym[0]
            R.check(bool(okv), 'T2', inst + ':value', 'info entry is %s, not the printed argument' % val, 'info entry = toStringInfoValue(argument)', fx.rel(f['loc']), 'E-STATE')
        if '(status, message)' not in unwritten:
            R.check(st.ret == stored, 'T2', inst + ':return', 'returns %s but stores %s' % (st.ret, stored), 'returned status = stored status', fx.rel(f['loc']), 'E-STATE')
    # ---- T2c cache coherence ------------------------------------------------------
    if skip_state:
        check_cache_coherence(fx, R, cq, cname, skip_state)
    # ---- T1 over cells --------------------------------------------------------------
    n_ok = 0
    for (desc, asg, cls, want) in cells(kind):
        inst = '%s::evaluate:%s' % (cname, desc.replace(' ', ','))
        taken = []
        for st in paths:
            truth = True
            for c in st.tconds:
                val = subst(c[1], asg, kind, False)
                tv = bool(val) if val in (sp.true, sp.false) else None
                if tv is None:
                    truth = None
                    break
                if tv != c[2]:
                    truth = False
                    break
            if truth is None:
                taken = None
                break
            if truth:
                taken.append(st)
        if not taken:
            R.undecided('T1', inst, 'cell selects no path / is not evaluable')
            continue
        bad = False
        for st in taken:
            got = st.fields.get(STATUS)
            if got is None or not isinstance(got, sp.Symbol) or got.name.startswith('this.'):
                continue        # skip path, covered by T2/T2c
            if got.name != want:
                R.violated('T1', '%s::evaluate:%s:%s' % (cname, cls, boundary_tag(asg, kind)),
                           'for %s the check-up reports %s, the statement requires %s' % (desc, got.name, want), fx.rel(f['loc']), 'E-ORD')
                bad = True
                break
            msg = st.fields.get(MESSAGE)
            text = sp.Symbol('"%s"' % TEXT[kind][cls])
            okm = isinstance(msg, sp.Basic) and sp.simplify(msg - (NAME_like(msg) + text)) == 0
            if not okm:
                R.violated('T2', '%s::evaluate:message:%s' % (cname, cls), 'for %s the message is %s, expected <name> + "%s"' % (desc, msg, TEXT[kind][cls]), fx.rel(f['loc']), 'E-ORD')
                bad = True
                break
        if not bad:
            n_ok += 1
            if exhaustive_form:
                R.holds('T1', inst, '%s -> %s, "%s"' % (desc, want, TEXT[kind][cls]), fx.rel(f['loc']), 'E-ORD')
    # ---- T1 in IEEE arithmetic (floating instantiations): representable thresholds, a value next to them -------------
    if kind != 'reliability' and any(t_ in cname for t_ in ('<double>', '<float>')) and '<float>' not in cname:
        nf = 0
        fcells = float_cells(kind)
        for (desc, asg, cls, want) in fcells:
            env = {'arg:value': asg['v'], 'this.value_to_compare_with_': asg['T'], 'this.epsilon_': asg['E']}
            taken, unknown = [], False
            for st in paths:
                tv = [feval(c[1], env) for c in st.tconds]
                if any(v is None for v in tv):
                    unknown = True
                    break
                if all(v == c[2] for v, c in zip(tv, st.tconds)):
                    taken.append(st)
            if unknown or not taken:
                R.undecided('T1', '%s::evaluate:ieee:%s' % (cname, desc.replace(' ', ',')), 'a threshold comparison is not evaluable in double arithmetic (operation order not determined by the expression)')
                continue
            got = [st.fields.get(STATUS) for st in taken]
            got = [g for g in got if isinstance(g, sp.Symbol) and not g.name.startswith('this.')]
            wrong = [g.name for g in got if g.name != want]
            if wrong:
                R.violated('T1', '%s::evaluate:%s:rounded-difference' % (cname, cls), 'for %s (thresholds exactly representable, |value - target| %s epsilon in exact arithmetic) the comparisons of evaluate(), '
                           'carried out in IEEE double arithmetic, select %s; the statement requires %s: the classification is computed from a ROUNDED quantity (value - target absorbs a value that is tiny '
                           'next to the target), so a value outside the band is accepted / one inside rejected' % (desc, '<=' if cls == 'ok' else '>', wrong[0], want), fx.rel(f['loc']), 'E-STEP')
            else:
                nf += 1
        if nf == len(fcells):
            R.holds('T1', '%s::evaluate:ieee' % cname, '%d cells with representable thresholds and values one rounding away from them classify as in exact arithmetic' % nf, fx.rel(f['loc']), 'E-STEP')
    if not exhaustive_form and n_ok == len(cells(kind)):
        R.undecided('T1', cname + ':operand-form', 'no witness cell disagrees, but a comparison is not of the form `value <op> T+-E` '
                    '(the cell partition is then not exhaustive for it): %s' % [c[0] for st in paths for c in st.tconds if not operand_form(c[1], kind)][:1])


def check_cache_coherence(fx, R, cq, cname, skip_state):
    """T2c: evaluate() skips a store under a condition on state fields K.  Every other method of the class hierarchy that writes
    the skipped report entry must also write K on the same path, otherwise the skipped entry can be stale."""
    keys = sorted({k for (k, _) in skip_state})
    targets = []
    if any('printed value' in u for (_, u) in skip_state):
        targets.append(VALUE)
    if any('(status, message)' in u for (_, u) in skip_state):
        targets += [STATUS, MESSAGE]
    seen = set()
    q = cq
    methods = []
    while q and q not in seen:
        seen.add(q)
        rec = fx.records.get(q)
        if rec is None:
            break
        for mth in rec['methods']:
            if mth['name'].startswith('~') or mth.get('implicit') or mth.get('deleted') or mth.get('pure'):
                continue
            for fb in fx.fn(mth['q']):
                if fb.get('body') is not None and fb['sig'] == mth['sig']:
                    methods.append(fb)
        q = rec['bases'][0] if rec.get('bases') else None
    # a skip keyed on the STORED STATUS itself ("already OK, the message is already the OK message"): the stored (status, message) pair must then always have been written by the check-up's own
    # classification.  A constructor that takes the initial diagnostic from its caller stores an arbitrary message with that status
    if MESSAGE in targets and any('status' in k for k in keys):
        seen_q, q2 = set(), cq
        while q2 and q2 not in seen_q:
            seen_q.add(q2)
            rec2 = fx.records.get(q2)
            if rec2 is None:
                break
            for c_ in [f_ for f_ in fx.functions.values() if f_.get('ctor') and f_.get('cls') == q2 and f_.get('body') is not None and not f_.get('copyctor')]:
                dpar = [p_ for p_ in c_.get('params', []) if 'Diagnostic' in (p_.get('t') or {}).get('s', '') and 'Status' not in (p_.get('t') or {}).get('s', '')]
                if not dpar:
                    continue
                stores = [y for y in walk(c_['body']) if isinstance(y, dict) and y.get('k') == 'MCall' and y.get('m') in ('push_back', 'emplace_back', 'push_front') and 'diagnostics' in pp(y.get('obj'))
                          and any(isinstance(z, dict) and z.get('k') == 'Ref' and z.get('id') == dpar[0]['id'] for a_ in y.get('args', []) for z in walk(a_))]
                if stores:
                    R.violated('T2', '%s::evaluate:skip-on-stored-status' % cname.split('<')[0], 'evaluate() leaves the message as it is when the verdict equals the STORED status (%s); the stored (status, message) '
                               'pair is not always one the check-up wrote itself: the constructor %s(...) stores the initial diagnostic `%s` handed in by its caller.  A check-up built with an initial %s whose text '
                               'is the caller\'s keeps that text after an evaluation with the same verdict - the message does not name the checked quantity with the matching verdict (status, value and info are right)' % (
                                   ', '.join(k for k in keys if 'status' in k), short_fn(q2), dpar[0]['name'], 'Diagnostic(OK, "...")'), fx.rel(c_['loc']), 'E-STATE')
                    q2 = None
                    break
            else:
                q2 = rec2['bases'][0] if rec2.get('bases') else None
                continue
            break
    for fb in methods:
        if fb['name'] in ('evaluate',) or fb['name'].endswith('_'):
            continue                     # evaluate() itself; private helpers run only inside the public entries, which are read with their callees inlined
        R.used(fb)
        try:
            ps = sym.Reader(fx, call_hook=hook).run(fb)
        except sym.Unsupported:
            continue
        for st in ps:
            wrote_t = [t for t in targets if written(st, t)]
            if not wrote_t:
                continue
            missing = [k for k in keys if not written(st, tuple(k.split('.')))]
            if missing:
                R.violated('T2', '%s::%s:stale-cache:%s' % (short_fn(fb['cls']), fb['name'], ','.join(missing)),
                           '%s() rewrites the report entry %s but not %s, on which evaluate() decides to skip its own update: after %s() the skipped entry is stale '
                           '(e.g. evaluate(v); %s(); evaluate(v))' % (fb['name'], '.'.join(wrote_t[0][1:]), missing, fb['name'], fb['name']), fx.rel(fb['loc']), 'E-STATE')
            else:
                R.holds('T2', '%s::%s:cache-coherent' % (short_fn(fb['cls']), fb['name']), 'writes %s together with %s' % (keys, '.'.join(wrote_t[0][1:])), fx.rel(fb['loc']), 'E-STATE')


def written(st, path):
    v = st.fields.get(path)
    if v is None:
        # a write to a prefix/suffix of the path counts (optional::reset on the whole field, assignment to a sub-object)
        for p, pv in st.fields.items():
            if p[:len(path)] == path or path[:len(p)] == p:
                if not (isinstance(pv, sp.Symbol) and pv.name == '.'.join(p)):
                    return True
        return False
    return not (isinstance(v, sp.Symbol) and v.name == '.'.join(path))


def NAME_like(msg):
    for s_ in msg.free_symbols:
        if s_.name == 'this.report_.info.<begin>.first':
            return s_
    return NAME


def boundary_tag(asg, kind):
    if kind == 'reliability':
        return 'on-low' if asg['v'] == asg['lo'] else 'on-high' if asg['v'] == asg['hi'] else 'interior'
    if asg['v'] in (asg['T'] - asg['E'], asg['T'] + asg['E']):
        return 'on-threshold' + ('(E=0)' if asg['E'] == 0 else '')
    return 'interior'


def check_configuration(fx, R):
    """T6: the thresholds the decision trees compare with are the ones the caller configured.  Every Checkup<T> constructor is read: the stored tolerance must be its epsilon argument and the stored reference
    value its value argument, by value (witnesses 0 and 1/2 for the tolerance: the quantifier has every non-negative epsilon, 0 included).
    T2 (type of the printed value): setValue_ of Checkup<T> receives and prints a T - a parameter of another arithmetic type converts the value before it is printed (an int printed as a double loses its digits
    from 1e6 on: '1.23457e+06')."""
    ctors = [f for f in fx.functions.values() if f.get('ctor') and not f.get('copyctor') and (f.get('cls') or '').startswith(Q + 'Checkup<') and f.get('body') is not None and len(f.get('params') or []) >= 3]
    if not ctors:
        R.undecided('T6', 'Checkup<T>::Checkup', 'no constructor with a body found')
    for f in sorted(ctors, key=lambda f: f['q']):
        cname = short_fn(f['cls'])
        R.used(f)
        try:
            sts = sym.Reader(fx, call_hook=hook).run(f)
        except sym.Unsupported as u:
            R.undecided('T6', cname + '::Checkup', 'constructor not readable: %s' % u)
            continue
        pn = [p_['name'] for p_ in f['params']]
        for (field, par, what) in (('epsilon_', pn[2], 'tolerance'), ('value_to_compare_with_', pn[1], 'reference value')):
            inst = '%s::Checkup:%s' % (cname, field)
            verdict = None
            for st in sts:
                v_ = st.fields.get(('this', field))
                a_ = sp.Symbol('arg:' + par, real=True)
                if v_ is None:
                    verdict = verdict or ('violated', 'the constructor leaves `%s` unset' % field)
                    continue
                if isinstance(v_, sp.Symbol) and v_.name == 'arg:' + par:
                    continue
                if not isinstance(v_, sp.Basic):
                    verdict = verdict or ('undecided', 'stored %s is %s' % (what, str(v_)[:80]))
                    continue
                free = {y_ for y_ in v_.free_symbols}
                arg_ = [y_ for y_ in free if y_.name == 'arg:' + par]
                if free - set(arg_):
                    verdict = verdict or ('undecided', 'stored %s depends on %s' % (what, sorted(str(y_) for y_ in free - set(arg_))[:3]))
                    continue
                for w_ in (sp.Integer(0), sp.Rational(1, 2), sp.Integer(3)):
                    try:
                        got = sp.nsimplify(v_.subs({y_: w_ for y_ in arg_})) if not arg_ else v_.subs({y_: w_ for y_ in arg_})
                        diff = sp.N(got - w_, 30)
                    except Exception:
                        diff = None
                    if diff is None or not diff.is_number:
                        verdict = verdict or ('undecided', 'stored %s %s not evaluable' % (what, str(v_)[:80]))
                        break
                    if diff != 0:
                        verdict = ('violated', 'constructed with %s = %s the check-up stores %s = %s (`%s`): the decision tree then compares with another threshold than the one configured - %s' % (
                            par, w_, field, sp.N(got, 6), str(v_)[:80],
                            'with epsilon = 0, which the quantifier names, an equal-to check-up is OK for values that differ from the target, and the strict comparisons of greater-than / lower-than accept a value '
                            'exactly on (or one ulp beyond) the threshold' if field == 'epsilon_' else 'every verdict is that of another threshold'))
                        break
            if verdict is None:
                R.holds('T6', inst, 'stored %s = the constructor argument `%s`' % (what, par), fx.rel(f['loc']), 'E-STATE')
            elif verdict[0] == 'violated':
                R.violated('T6', 'Checkup::Checkup:%s' % field, verdict[1] + ' [%s]' % cname, fx.rel(f['loc']), 'E-STATE')
            else:
                R.undecided('T6', inst, verdict[1])
    sv = [f for f in fx.functions.values() if (f.get('cls') or '').startswith(Q + 'Checkup<') and f['name'] == 'setValue_' and f.get('params')]
    if not sv:
        R.undecided('T2', 'Checkup<T>::setValue_', 'no instantiation found')
    for f in sorted(sv, key=lambda f: f['q']):
        T = f['cls'][len(Q + 'Checkup<'):-1].strip()
        pt = ((f['params'][0].get('t') or {}).get('s') or '').replace('const ', '').replace('&', '').strip()
        R.used(f)
        inst = 'Checkup<%s>::setValue_:printed-type' % T
        if pt == T:
            R.holds('T2', inst, 'the value is received and printed as %s' % T, fx.rel(f['loc']), 'E-STATE')
        elif pt in ('double', 'float', 'long double', 'int', 'long', 'unsigned int', 'unsigned long', 'long long', 'short', 'char', 'bool', 'unsigned long long'):
            R.violated('T2', 'Checkup::setValue_:printed-type', 'setValue_ of Checkup<%s> takes its value as `%s`: the evaluated %s is converted before it is printed, so the info entry is the text of another number type - '
                       '%s' % (T, (f['params'][0].get('t') or {}).get('s'), T, 'an integer of seven or more digits is printed in the default floating format with six significant digits (1234567 -> "1.23457e+06"): '
                               'the info entry is not the printed value' if pt in ('double', 'float', 'long double') else 'the fractional part / range of the value is lost'), fx.rel(f['loc']), 'E-STATE')
        else:
            R.undecided('T2', inst, 'parameter type %s of setValue_ for T = %s' % (pt, T))


def check_timeout(fx, R):
    for f in fx.find(r'romea::core::Checkup<[^>]*>::timeout'):
        R.used(f)
        cname = short_fn(f['cls'])
        try:
            paths = sym.Reader(fx, call_hook=hook).run(f)
        except sym.Unsupported as u:
            R.undecided('T2', cname + '::timeout', str(u))
            continue
        ok = len(paths) >= 1
        why = ''
        for st in paths:
            s_, msg, val = st.fields.get(STATUS), st.fields.get(MESSAGE), st.fields.get(VALUE)
            if not (isinstance(s_, sp.Symbol) and s_.name == 'STALE'):
                ok, why = False, 'a path of timeout() stores status %s (conditions: %s)' % (s_, [c[0] for c in st.cond])
            elif not (isinstance(msg, sp.Basic) and sp.simplify(msg - (NAME_like(msg) + sp.Symbol('" timeout."'))) == 0):
                ok, why = False, 'timeout message is %s' % msg
            elif not (isinstance(val, sp.Symbol) and val.name == '""'):
                ok, why = False, 'timeout leaves the value %s instead of the empty string' % val
        R.check(ok, 'T2', cname + '::timeout', why, 'STALE, "<name> timeout.", empty value on every path', fx.rel(f['loc']), 'E-STATE')


def check_printer(fx, R):
    """The info entry is `the printed value`: toStringInfoValue(v) streams v into an ostringstream and returns its string."""
    import re
    from ..tree import const_value
    fs = [f for f in fx.functions.values() if f['q'].startswith(Q + 'toStringInfoValue<') or (f['q'] == Q + 'toStringInfoValue' and f.get('body') is not None)]
    if not fs:
        R.undecided('T2', 'toStringInfoValue', 'no instantiation found')
    for f in sorted(fs, key=lambda f: f['q'] + f.get('sig', '')):
        R.used(f)
        from .C14 import stmts_sx
        st = stmts_sx(f)
        # a printf-family formatter into a fixed buffer: the printed value survives only if the buffer holds the longest output of the format
        pr = [x for x in walk(f['body']) if isinstance(x, dict) and x.get('k') == 'Call' and (x.get('fn') or '').split('::')[-1] in ('snprintf', 'sprintf', 'vsnprintf')]
        if pr:
            inst_ = '%s(%s)' % (short_fn(f['q']), ', '.join(p_['t'].get('s', '?') for p_ in f['params']))
            c = pr[0]
            fmt = next((a_.get('v') for a_ in c.get('args', []) if a_.get('k') == 'Str'), None)
            size = const_value(c['args'][1]) if (c.get('fn') or '').endswith('snprintf') and len(c.get('args', [])) > 1 else None
            mm = re.fullmatch(r'%(?:\.(\d+))?([geEG])', fmt or '')
            argt = (f['params'][0]['t'].get('s', '') if f.get('params') else '')
            if mm and size is not None and 'double' in argt:
                prec = int(mm.group(1)) if mm.group(1) else 6
                prec = max(prec, 1)
                need = (prec + 7 if mm.group(2) in 'gG' else prec + 8) + 1       # sign, digits, point, e, exponent sign, 3 exponent digits, NUL
                if size < need:
                    R.violated('T2', 'toStringInfoValue(double):buffer', 'the double overload formats with "%s" into a buffer of %d bytes; a negative value with %d significant digits and a three-digit exponent '
                               '(|v| >= 1e100 or < 1e-99, e.g. -1.23456e-300) needs %d bytes with the terminator: snprintf cuts the last exponent digit and the info entry reads as another, well-formed number '
                               '(-1.23456e-30) - it is not the printed value of the argument' % (fmt, size, prec, need), fx.rel(c.get('loc') or f['loc']), 'E-INT')
                elif fmt in ('%g', '%G') :
                    R.holds('T2', inst_, 'formats with %%g (the default stream format of a double) into %d bytes, %d needed at most' % (size, need), fx.rel(f['loc']), 'E-INT')
                else:
                    R.undecided('T2', inst_, 'formats with "%s", which is not the default stream format' % fmt)
            else:
                R.undecided('T2', inst_, 'printf-style printer with format %r and buffer size %s: not decided' % (fmt, size))
            continue
        ok = len(st) == 3 and st[0][0] == 'decl' and st[1] == ('expr', ('<<', st[0][1], 'infoValue')) and st[2] in (('return', ('.str', st[0][1])), ('return', ('new:std::basic_string<char>', ('.str', st[0][1]))))
        if ok:
            R.holds('T2', short_fn(f['q']), 'streams the value and returns the stream contents', fx.rel(f['loc']), 'E-STATE')
        else:
            R.undecided('T2', short_fn(f['q']), 'printer idiom not recognised: %s' % (st,))


def check_worse(fx, R):
    f = fx.one(Q + 'worse')
    e = fx.enums.get(Q + 'DiagnosticStatus')
    if f is None or e is None:
        R.undecided('T3', 'worse', 'anchor vanished')
        return None
    R.used(f)
    vals = {c['name']: c['v'] for c in e['consts']}
    try:
        paths = sym.Reader(fx).run(f)
    except sym.Unsupported as u:
        R.undecided('T3', 'worse', str(u))
        return None

    def ev(a, b):
        res = []
        for st in paths:
            truth = True
            for c in st.cond:
                v = c[1].subs({s_: sp.Integer(a if s_.name == 'arg:status1' else b) for s_ in c[1].free_symbols})
                if v not in (sp.true, sp.false):
                    return None
                if bool(v) != c[2]:
                    truth = False
                    break
            if truth:
                r = st.ret
                if isinstance(r, sp.Symbol) and r.name == 'arg:status1':
                    res.append(a)
                elif isinstance(r, sp.Symbol) and r.name == 'arg:status2':
                    res.append(b)
                elif isinstance(r, sp.Symbol) and r.name in vals:
                    res.append(vals[r.name])
                else:
                    return None
        return res[0] if len(res) == 1 else None

    def ev_step(a, b):
        """E-STEP fallback: the body evaluated on the two enumerator values (casts between the enum and integers erased)"""
        from .. import mini
        from .C20 import deep_unwrap
        env = {f['params'][0]['name']: a, f['params'][1]['name']: b}
        env.update({k_: v_ for k_, v_ in vals.items()})
        env.update({Q + 'DiagnosticStatus::' + k_: v_ for k_, v_ in vals.items()})
        env.update({'DiagnosticStatus::' + k_: v_ for k_, v_ in vals.items()})
        try:
            r = mini.Step(deep_unwrap).call(f['body'], env)
        except mini.Unsupported:
            return None
        return int(r) if isinstance(r, (int, bool)) else None
    ev_sym = ev
    ev = lambda a, b: (lambda r_: r_ if r_ is not None else ev_step(a, b))(ev_sym(a, b))
    table = {}
    names = {v: k for k, v in vals.items()}
    for a in sorted(vals.values()):
        for b in sorted(vals.values()):
            r = ev(a, b)
            table[(a, b)] = r
            if r is None:
                R.undecided('T3', 'worse(%s,%s)' % (names[a], names[b]), 'not evaluable')
            else:
                R.check(r == max(a, b), 'T3', 'worse(%s,%s)' % (names[a], names[b]), 'worse(%s,%s) = %s, the more severe is %s' % (names[a], names[b], names.get(r, r), names[max(a, b)]),
                        '= %s' % names[max(a, b)], fx.rel(f['loc']), 'E-ORD')
    if all(v is not None for v in table.values()):
        V = sorted(vals.values())
        comm = all(table[(a, b)] == table[(b, a)] for a in V for b in V)
        idem = all(table[(a, a)] == a for a in V)
        assoc = all(table[(table[(a, b)], c)] == table[(a, table[(b, c)])] for a in V for b in V for c in V)
        R.check(comm and idem and assoc, 'T3', 'worse:laws', 'commutative=%s idempotent=%s associative=%s on the full 4-value domain' % (comm, idem, assoc),
                'commutative, idempotent, associative (16 pairs, 64 triples)', fx.rel(f['loc']), 'E-ORD')
    return table


def check_fold(fx, R):
    f = fx.one(Q + 'worseStatus')
    g = fx.one(Q + 'allOK')
    if f is None or g is None:
        R.undecided('T4', 'worseStatus', 'anchor vanished')
        return
    R.used(f, g)
    e = fx.enums.get(Q + 'DiagnosticStatus')
    vals = {c['name']: c['v'] for c in e['consts']}
    top = max(vals.values())
    # ---- by value (E-STEP): both folds are run on every status list of 1..4 entries and on longer ones with a single non-OK entry at each position;
    #      worseStatus must return the largest status, allOK must say whether every entry is OK.  A form the evaluator cannot run falls back to the form rules below.
    by_value = fold_by_value(fx, R, f, g, vals)
    if by_value == (True, True):
        return
    decls = [(v['name'], deep_unwrap(sx(v['init']))) for s_ in walk(f['body']) if s_.get('k') == 'Decl' for v in s_['vars'] if v.get('init') is not None]
    loops = [s_ for s_ in walk(f['body']) if s_.get('k') in ('While', 'For', 'RangeFor', 'Do')]
    rets = [deep_unwrap(sx(s_['e'])) for s_ in walk(f['body']) if s_.get('k') == 'Return']
    inst = 'worseStatus'
    if len(loops) != 1:
        R.undecided('T4', inst, '%d loops' % len(loops))
        return
    L = loops[0]
    if L['k'] == 'RangeFor':
        body = [deep_unwrap(sx(x['e'])) for x in walk(L['b']) if x.get('k') == 'Expr']
        R.undecided('T4', inst, 'range-for fold idiom not enumerated yet: %s' % body)
        return
    if L['k'] != 'While':
        R.undecided('T4', inst, 'fold loop is a %s' % L['k'])
        return
    itn = [n for n, d in decls if d in (('std::cbegin', 'diagnostics'), ('std::begin', 'diagnostics'), ('.begin', 'diagnostics'), ('.cbegin', 'diagnostics'))]
    if len(itn) != 1:
        R.undecided('T4', inst, 'iterator declaration not found: %s' % decls)
        return
    it = itn[0]
    acc = [n for n, d in decls if d == ('.member:status', ('->', it))]
    R.form(len(acc) == 1, 'T4', inst + ':seed', 'accumulator is not seeded with the first element\'s status: %s' % decls, 'seeded with the first element', fx.rel(f['loc']), 'E-STATE')
    if len(acc) != 1:
        return
    acc = acc[0]
    cond = deep_unwrap(sx(L['c']))
    range_tests = tuple(('!=', (inc, it), e_) for inc in ('u++', '++') for e_ in (('std::cend', 'diagnostics'), ('std::end', 'diagnostics'), ('.end', 'diagnostics'), ('.cend', 'diagnostics')))
    extra = None
    if cond in range_tests:
        pass
    elif isinstance(cond, tuple) and cond[0] == '&&' and cond[2] in range_tests:
        extra = cond[1]
    elif isinstance(cond, tuple) and cond[0] == '&&' and cond[1] in range_tests:
        R.violated('T4', inst + ':range', 'the loop advances the iterator before testing `%s`: an element is skipped when the extra condition fails' % (cond[2],), fx.rel(L['loc']), 'E-STATE')
        return
    else:
        R.undecided('T4', inst + ':range', 'loop condition %s is not the iterator range test' % (cond,))
        return
    body = [deep_unwrap(sx(x['e'])) for x in walk(L['b']) if x.get('k') == 'Expr']
    step_ok = body in ([('=', acc, (Q[:-2].replace('romea::core', '') + 'worse', acc, ('.member:status', ('->', it))))],
                       [('=', acc, ('worse', acc, ('.member:status', ('->', it))))],
                       [('=', acc, ('worse', ('.member:status', ('->', it)), acc))])
    R.form(step_ok, 'T4', inst + ':step', 'loop body is %s, expected status = worse(status, it->status)' % (body,), 'status <- worse(status, element)', fx.rel(L['loc']), 'E-STATE')
    if extra is not None:
        # early exit: `extra` is a predicate on the accumulator over the 4-value domain; stopping is only sound at the top element
        stop_at = []
        undec = False
        for name, v in vals.items():
            t = eval_pred(extra, acc, v, vals)
            if t is None:
                undec = True
            elif not t:
                stop_at.append(name)
        if undec:
            R.undecided('T4', inst + ':early-exit', 'extra loop condition %s not evaluable on the status domain' % (extra,))
        else:
            bad = [n for n in stop_at if vals[n] != top]
            R.check(not bad, 'T4', inst + ':early-exit', 'the loop stops scanning as soon as the running status is %s, but %s can still follow: e.g. [%s, %s] yields %s' % (
                bad, [n for n, v in vals.items() if v > min(vals[b] for b in bad)] if bad else [], bad[0] if bad else '', max(vals, key=vals.get), bad[0] if bad else ''),
                'early exit only at the top element', fx.rel(L['loc']), 'E-ORD')
    else:
        R.holds('T4', inst + ':range', 'scans the whole list', fx.rel(L['loc']), 'E-STATE')
    R.form(rets == [acc], 'T4', inst + ':return', 'returns %s' % (rets,), 'returns the accumulator', fx.rel(f['loc']), 'E-STATE')
    gr = [deep_unwrap(sx(s_['e'])) for s_ in walk(g['body']) if s_.get('k') == 'Return']
    okg = len(gr) == 1 and gr[0] in (('==', ('worseStatus', 'diagnostics'), 'romea::core::DiagnosticStatus::OK'), ('==', 'romea::core::DiagnosticStatus::OK', ('worseStatus', 'diagnostics')))
    R.form(okg, 'T4', 'allOK', 'allOK is %s, expected worseStatus(diagnostics) == OK' % (gr,), 'allOK = (worst == OK)', fx.rel(g['loc']), 'E-STATE')


def fold_by_value(fx, R, f, g, vals):
    import itertools
    from .. import mini
    names = {v: k for k, v in vals.items()}
    ok_v = vals.get('OK', min(vals.values()))
    lists = [list(c) for n_ in (1, 2, 3, 4) for c in itertools.product(sorted(vals.values()), repeat=n_)]
    for n_ in (7, 20):
        for pos in range(n_):
            for bad in sorted(set(vals.values()) - {ok_v}):
                lists.append([ok_v] * pos + [bad] + [ok_v] * (n_ - pos - 1))
    decided = []
    for (h, inst, oracle, what) in ((f, 'worseStatus', lambda l: max(l), 'the largest status of the list'), (g, 'allOK', lambda l: all(x == ok_v for x in l), 'whether every entry is OK')):
        bad = why = None
        n_ok = 0
        pn = h['params'][0]['name'] if h.get('params') else 'diagnostics'
        for l in lists:
            stp = mini.list_hooks(mini.Step(deep_unwrap))
            prev, inl = stp.fallback, mini.inliner(fx, stp)
            stp.fallback = lambda t, env, prev=prev, inl=inl: (lambda r: r if r is not NotImplemented else inl(t, env))(prev(t, env))
            env = {pn: [{'status': v} for v in l]}
            env.update({Q + 'DiagnosticStatus::' + k: v for k, v in vals.items()})
            try:
                got = stp.call(h['body'], env)
            except (mini.Unsupported, TypeError, ValueError, KeyError, RecursionError) as u:
                why = str(u)[:160]
                break
            if got is None or isinstance(got, (list, dict)):
                why = 'no value returned'
                break
            want = oracle(l)
            if (bool(got) != want) if inst == 'allOK' else (got != want):
                bad = bad or (l, got, want)
            n_ok += 1
        if why:
            decided.append(False)
            continue
        decided.append(True)
        show = lambda l: '[%s]' % ', '.join(names.get(x, str(x)) for x in l)
        if bad:
            R.violated('T4', inst + ':value', '%s(%s) returns %s; %s is %s.  (Evaluated on every status list of 1..4 entries and on lists of 7 and 20 entries with one non-OK entry at each position.)' % (
                inst, show(bad[0]), names.get(bad[1], bad[1]) if inst == 'worseStatus' else bool(bad[1]), what, names.get(bad[2], bad[2]) if inst == 'worseStatus' else bad[2]), fx.rel(h['loc']), 'E-STEP')
        else:
            R.holds('T4', inst + ':value', 'returns %s on all %d status lists (every list of 1..4 entries, single non-OK entries at every position of 7- and 20-entry lists)' % (what, n_ok), fx.rel(h['loc']), 'E-STEP')
    return tuple(decided)


def eval_pred(p, acc, v, vals):
    """Evaluates a comparison predicate over the accumulator on one status value; None if not interpretable."""
    if not (isinstance(p, tuple) and len(p) == 3 and p[0] in ('<', '>', '<=', '>=', '==', '!=')):
        return None

    def val(x):
        if x == acc:
            return v
        if isinstance(x, str) and x.split('::')[-1] in vals:
            return vals[x.split('::')[-1]]
        return None
    a, b = val(p[1]), val(p[2])
    if a is None or b is None:
        return None
    return {'<': a < b, '>': a > b, '<=': a <= b, '>=': a >= b, '==': a == b, '!=': a != b}[p[0]]


def check_concat(fx, R):
    fs = [f for f in fx.fn(Q + 'operator+=') if 'DiagnosticReport' in f['sig']]
    if len(fs) != 1:
        R.undecided('T5', 'operator+=', 'anchor vanished')
        return
    f = fs[0]
    R.used(f)
    ex = [deep_unwrap(sx(x['e'])) for x in walk(f['body']) if x.get('k') == 'Expr']
    rets = [deep_unwrap(sx(x['e'])) for x in walk(f['body']) if x.get('k') == 'Return']
    d1, d2, i1, i2 = 'report1.diagnostics', 'report2.diagnostics', 'report1.info', 'report2.info'
    want_d = [('.insert', d1, (e_, d1), (b_, d2), (c_, d2)) for e_ in ('std::end', 'std::cend') for b_ in ('std::cbegin', 'std::begin') for c_ in ('std::cend', 'std::end')]
    want_d += [('.insert', d1, ('.' + e_[5:], d1), ('.' + b_[5:], d2), ('.' + c_[5:], d2)) for e_ in ('std::end', 'std::cend') for b_ in ('std::cbegin', 'std::begin') for c_ in ('std::cend', 'std::end')]
    want_i = [('.insert', i1, (b_, i2), (c_, i2)) for b_ in ('std::cbegin', 'std::begin') for c_ in ('std::cend', 'std::end')]
    dd = [s_ for s_ in ex if isinstance(s_, tuple) and len(s_) > 1 and s_[1] == d1]
    ii = [s_ for s_ in ex if isinstance(s_, tuple) and len(s_) > 1 and s_[1] == i1]
    # element-wise append: a range-for over report2.diagnostics that pushes every entry at the back is the range insert; a push guarded by a condition filters the concatenation
    dloop_all, dloop_filtered = False, None
    for L_ in [x for x in walk(f['body']) if x.get('k') == 'RangeFor' and deep_unwrap(sx(x.get('range'))) == d2]:
        ins_ = [y for y in walk(L_['b']) if y.get('k') == 'MCall' and y.get('m') in ('push_back', 'emplace_back') and deep_unwrap(sx(y['obj'])) == d1]
        guards_ = [y for y in walk(L_['b']) if y.get('k') == 'If' and any(z is i_ for i_ in ins_ for z in walk(y.get('t')))]
        if ins_ and not guards_:
            dloop_all = True
        elif ins_ and guards_:
            dloop_filtered = pp(guards_[0]['c'])
    R.form((len(dd) == 1 and dd[0] in want_d) or (dloop_all and not dloop_filtered), 'T5', 'operator+=:diagnostics', 'diagnostics are combined by %s, expected insert(end(report1), begin(report2), end(report2))' % (dd,),
            'append all of report2.diagnostics at the end, in order', fx.rel(f['loc']), 'E-STATE',
            facts=[(dloop_filtered is not None, 'the diagnostics of the right operand are appended one by one and only when `%s`: the others are dropped, so the result is not the concatenation of the two lists - its '
                    'length, the positions of the entries and their multiplicity differ (two check-ups with the same name and verdict, the same report appended twice, several default STALE diagnostics)' % (dloop_filtered or '')[:140]),
                   (len(dd) == 1 and isinstance(dd[0], tuple) and len(dd[0]) == 5 and dd[0][0] == '.insert' and dd[0][2] in [(b_, d1) for b_ in ('std::begin', 'std::cbegin', '.begin', '.cbegin')] and
                    dd[0][3][1:] == (d2,) and dd[0][4][1:] == (d2,),
                    'the diagnostics of report2 are inserted at the BEGINNING of report1: the aggregate no longer lists the diagnostics in the order the reports were added'),
                   (not dd, 'no statement adds the diagnostics of report2 to report1')])
    # element-wise merge: a range-for over report2.info that inserts every entry is the range insert; an insert guarded by a condition on the entry filters the merge
    loop_all, loop_filtered = False, None
    for L_ in [x for x in walk(f['body']) if x.get('k') == 'RangeFor' and deep_unwrap(sx(x.get('range'))) == i2]:
        var_ = (L_.get('var') or {}).get('name')
        ins_ = [y for y in walk(L_['b']) if y.get('k') == 'MCall' and y.get('m') in ('insert', 'emplace') and deep_unwrap(sx(y['obj'])) == i1]
        guards_ = [y for y in walk(L_['b']) if y.get('k') == 'If' and any(z is i_ for i_ in ins_ for z in walk(y.get('t')))]
        if ins_ and not guards_:
            loop_all = True
        elif ins_ and guards_ and var_ and var_ in pp(guards_[0]['c']):
            loop_filtered = pp(guards_[0]['c'])
    R.form((len(ii) == 1 and ii[0] in want_i) or (loop_all and not loop_filtered), 'T5', 'operator+=:info', 'info entries are combined by %s, expected insert(begin(report2.info), end(report2.info))' % (ii,),
            'merge all info entries of report2', fx.rel(f['loc']), 'E-STATE',
            facts=[(loop_filtered is not None, 'the info entries of the right operand are inserted one by one and only when `%s`: entries for which that is false are dropped, so the merged info is not the union of the '
                    'two reports (check-ups store an EMPTY value for a quantity that has not been measured yet or after a timeout - the key must still appear in the aggregate)' % loop_filtered)])
    # every path must do both; a shortcut path (e.g. `report1 = report2`) is only sound when report1 is known to hold nothing at all
    top = f['body']['s'] if f['body']['k'] == 'Compound' else [f['body']]
    uncond = [deep_unwrap(sx(x['e'])) for x in top if x['k'] == 'Expr']
    both_uncond = any(u in want_d for u in uncond) and any(u in want_i for u in uncond)
    for x in top:
        if x['k'] != 'If':
            continue
        cond = deep_unwrap(sx(x['c']))
        inner = [deep_unwrap(sx(y['e'])) for y in walk(x['t']) if y.get('k') == 'Expr']
        returns_early = any(y.get('k') == 'Return' for y in walk(x['t']))
        if not returns_early and both_uncond:
            continue
        if ('=', 'report1', 'report2') in inner and returns_early:
            conj = []
            def flat(c):
                if isinstance(c, tuple) and c[0] == '&&':
                    flat(c[1]); flat(c[2])
                else:
                    conj.append(c)
            flat(cond)
            need = {('.empty', 'report1.diagnostics'), ('.empty', 'report1.info')}
            missing = need - set(conj)
            if missing:
                R.violated('T5', 'operator+=:shortcut', 'under `%s` the left report is overwritten by the right one instead of merged, but that condition does not establish %s: entries of the '
                           'left report are lost (e.g. an info-only header report += a check-up report)' % (cond, sorted(m_[1] + ' empty' for m_ in missing)), fx.rel(x['loc']), 'E-STATE')
            else:
                R.holds('T5', 'operator+=:shortcut', 'overwrite only when the left report holds nothing', fx.rel(x['loc']), 'E-STATE')
        else:
            R.undecided('T5', 'operator+=:paths', 'conditional path `%s` with statements %s not recognised' % (cond, inner))
    rets = [r_ for r_ in rets if not (isinstance(r_, tuple) and r_ and r_[0] in ('&&', '||', '==', '!=', '!'))]        # returns of predicates (lambdas) inside the body are not the function's
    R.form(rets == ['report1'], 'T5', 'operator+=:return', 'returns %s' % (rets,), 'returns the left operand', fx.rel(f['loc']), 'E-STATE')
