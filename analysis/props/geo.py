"""Shared formula extraction for the geodesy properties C01/C02."""
import sympy as sp
from .. import sym, vec
from ..tree import strip_casts, pp, walk

ECEF = 'romea::core::ECEFConverter::'
ENU = 'romea::core::ENUConverter::'


def forward_formulas(fx):
    """(X, Y, Z) of ECEFConverter::toECEF as sympy expressions in lat, lon, alt, a, e2 (symbols returned too)."""
    f = fx.one(ECEF + 'toECEF')
    if f is None:
        return None
    rd = sym.Reader(fx, call_hook=vec.hook)
    sts = rd.run(f)
    full = [s_ for s_ in sts if all(isinstance(s_.fields.get(('loc', 'ecef[%d]' % k)), sp.Basic) for k in range(3))]
    if len(full) != 1:
        return None
    st = full[0]
    others = [s_ for s_ in sts if s_ is not st]      # paths that return without evaluating the formulas (caches, shortcuts): judged by the caller
    comps = [st.fields.get(('loc', 'ecef[%d]' % k)) for k in range(3)]
    # the returned object must be the vector that was filled (on the path that fills it)
    rets = [x for x in walk(f['body']) if x.get('k') == 'Return']
    if not rets or pp(strip_casts(rets[-1]['e'])) not in ('ecef',):
        return None
    names = {s.name: s for c in comps for s in c.free_symbols}
    need = ['geodeticCoordinates.latitude', 'geodeticCoordinates.longitude', 'geodeticCoordinates.altitude', 'this.ellipsoid_.a', 'this.ellipsoid_.e2']
    if any(n not in names for n in need[:3]):
        return None
    lat, lon, alt, a, e2 = [names.get(n, sp.Symbol(n, real=True)) for n in need]
    return {'fn': f, 'X': comps[0], 'Y': comps[1], 'Z': comps[2], 'lat': lat, 'lon': lon, 'alt': alt, 'a': a, 'e2': e2, 'others': others, 'full': st}


def enu_hook(rd, e, st, ctx):
    """Reader hook for ENUConverter: comma initialisers, affine accessors, and ECEFConverter::toECEF kept as a named function."""
    k = e.get('k')
    if k == 'Store':
        l = strip_casts(e['lhs'])
        if l.get('k') == 'MCall' and l.get('m') in ('translation', 'linear') and not l.get('args'):
            lv = rd.lvalue(l['obj'], st, ctx)
            if lv and lv[0] == 'field':
                key = lv[1] + ('%s()' % l['m'],)
                st.fields[key] = e['value']
                st.effects.append(('write', key, e['value']))
                return [(e['value'], st)]
        return vec.hook(rd, e, st, ctx)
    if k == 'Op' and e.get('op') in (',', '<<'):
        ci = vec.comma_init(e)
        if ci is not None:
            target, vals = ci
            out = []
            for (vs, s2) in rd.evs(vals, st, ctx):
                t = strip_casts(target)
                name = pp(t)
                for n, v in enumerate(vs):
                    key = ('comma', name, n)
                    s2.fields[key] = v
                    s2.effects.append(('write', key, v))
                out.append((tuple(vs), s2))
            return out
    if k == 'MCall' and (e.get('fn') or '') == ECEF + 'toECEF' and len(e.get('args', [])) == 1:
        a = e['args'][0]
        lv = rd.lvalue(a, st, ctx)
        if lv and lv[0] == 'field':
            comps = [rd.get_field(lv[1] + (c,), st, {'c': 'fp'}) for c in ('latitude', 'longitude', 'altitude')]
            return [(sp.Function('toECEF')(*comps), st)]
        a0 = strip_casts(a)
        if a0.get('k') == 'Ref':
            base = a0['name']
            comps = [sp.Symbol('%s.%s' % (base, c), real=True) for c in ('latitude', 'longitude', 'altitude')]
            return [(sp.Function('toECEF')(*comps), st)]
    if k == 'MCall' and e.get('m') == 'finished':
        return rd.ev(e['obj'], st, ctx)
    if k == 'Op' and e.get('op') in ('[]', '()'):
        return vec.hook(rd, e, st, ctx)
    return NotImplemented
