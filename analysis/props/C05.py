"""C05 - point-to-plane least-squares registration solves its linearised problem.

Rules (all eight point types, both estimate_ overloads; dead `if (CARTESIAN_DIM == 2)` arms pruned)
  P1  writer/reader table agreement: with M(x) the matrix scattered from the solution x (identity + entries +-x_k), the row written to
      J(n,.) equals d/dx_k [ normal . (M(x) (s;1)) ]  and  Y(n) = (t - s) . normal   (2-D: 3 parameters, 3-D: 6), exact algebra
  P2  fetch roles: the source point is fetched with the source index, target point AND target normal with the target index
      (aligned overload: all with the loop index); the loop runs over all correspondences; data size = number of correspondences
  P3  the two estimate_ overloads produce identical row / residual / scatter tables
  P4  preconditioner: setPreconditioner rescales exactly the translation parameters (indices 0..D-1), which are the parameters scattered
      into the translation column; the preconditioned find() overloads delegate to the raw ones on the underlying sets
  P5  all eight point types are explicitly instantiated
  P6  solver side ("its parameters satisfy the normal equations"): the rules of C07 on LeastSquares (row slicing, normal equations, solver
      paths incl. the singular-value truncation against cond < 1e6, weights, preconditioner) are evaluated here under this rule name
  Not decided: O(t^2) rotation error, exact translation recovery, float precision (numerical consequences)."""
import sympy as sp
from .. import sym, mat, vec
from ..tree import sx, walk, pp, strip_casts, const_value, short_fn, prune
from .C20 import deep_unwrap
from .C14 import stmts_sx

LEVEL = 'other'
UNITS = ['src/transform/estimation/FindRigidTransformationByLeastSquares.cpp', 'src/regression/leastsquares/LeastSquares.cpp']
ENGINES = 'E-ALG + E-SIB + E-WIT over romea-facts'
TECHNIQUE = 'index guards of a correspondence evaluated on valid correspondences (local closures inlined), list overload run on witness lists (the call it ends with must receive the list), rows independent of the homogeneous coordinate, guarded row skips judged under the guard, continue statements, row scalings of the design matrix read into the row rule, every path of the estimator: a post-processed result judged by what is stored (orthogonal factor of an SVD is a contract fact), Map rows against the point size, constant result on counts of the quantifier, row count capped by another size fact, tolerance shortcut in front of the decomposition, sweep of every function read (and its in-repo callees) for frozen function-local statics, single precision inside double computations, lossy copy constructors, presence- or argument-keyed member caches, reference members bound to constructor arguments, loop accumulators that are members, members derived in the constructor and not refreshed by setters, results returned by reference to a member buffer, members filled from an argument under a condition that ignores it, hidden non-virtual base members, self-bound reference members, reductions that accumulate in float; must-pass-through to the preconditioner store of the solver on every path of setPreconditioner, double-compensation fact; solver rules of C07 evaluated under this property with its own conditioning bound (P6); writer/reader table agreement by exact algebra: the Jacobian rows written per correspondence are compared with the formal derivative of the model scattered from the solution vector; fetch-role and overload agreement on the instantiated AST'
EXPLANATION = ('For each instantiation the loop body of estimate_ is read symbolically (one generic correspondence), the scatter of the solution into the transform gives the model M(x), and '
               'the written row / residual are compared with the derivative of normal.(M(x) s) and with (t-s).normal; index roles, overload agreement and the preconditioner layout are structural.')
ASSUMPTIONS = ['homogeneous points carry a unit last coordinate; the normal\'s homogeneous coordinate multiplies (t - s)_w = 0']
LEVEL_TEXT = ('The linear system assembled per correspondence is exactly the linearisation of the point-to-plane model that the returned matrix encodes, for every point type and both overloads; '
              'the normal-equation solution itself is C07. Accuracy statements (O(t^2), exact translation, float) are numerical consequences and not decided.')
LEVEL_NOTE = 'Not decided: numerical recovery bounds. Trusted: clang front end, extractor, sympy.'

NS = 'romea::core::'


class Hook:
    def __init__(self, psize, nparam=6):
        self.psize = psize
        self.nparam = nparam
        self.fetch = {}       # role -> printed index expression
        self.x = None

    def __call__(self, rd, e, st, ctx):
        k = e.get('k')
        if k == 'Op' and e.get('op') == '[]' and len(e.get('args', [])) == 2:
            base = strip_casts(e['args'][0])
            if base.get('k') == 'Ref' and base.get('name') in ('sourcePoints', 'targetPoints', 'targetPointsNormals'):
                role = {'sourcePoints': 's', 'targetPoints': 't', 'targetPointsNormals': 'nrm'}[base['name']]
                self.fetch.setdefault(role, []).append(deep_unwrap(sx(e['args'][1])))
                return [(mat.fresh(role, self.psize, 1), st)]
            if base.get('k') == 'Ref' and base.get('name') == 'correspondences':
                return [({'sourcePointIndex': sp.Symbol('corr.sourcePointIndex', integer=True), 'targetPointIndex': sp.Symbol('corr.targetPointIndex', integer=True),
                          'weight': sp.Symbol('corr.weight', real=True)}, st)]
        if k == 'Store' and e.get('op') in ('*=', '/=') and isinstance(e.get('value'), sp.Basic) and not isinstance(e.get('value'), sp.MatrixBase):
            # J.row(n) *= s : every entry of that row written so far is scaled
            l = strip_casts(e['lhs'])
            if l.get('k') == 'MCall' and l.get('m') == 'row' and len(l.get('args', [])) == 1 and strip_casts(l['obj']).get('k') == 'Ref':
                bname = strip_casts(l['obj'])['name']
                a0 = strip_casts(l['args'][0])
                idx = a0.get('name') if a0.get('k') == 'Ref' else None
                keys = [k_ for k_ in st.fields if k_[0] == 'loc' and idx is not None and k_[1].startswith('%s[%s,' % (bname, idx))]
                if keys:
                    for k_ in keys:
                        st.fields[k_] = st.fields[k_] * e['value'] if e['op'] == '*=' else st.fields[k_] / e['value']
                    return [(e['value'], st)]
        if k == 'MCall' and e.get('m') in ('setZero', 'setConstant', 'fill') and strip_casts(e['obj']).get('k') == 'MCall' and strip_casts(e['obj']).get('m') == 'row':
            # J.row(n).setZero(): every entry of that row
            ro = strip_casts(e['obj'])
            b0, a0 = strip_casts(ro['obj']), strip_casts(ro['args'][0]) if ro.get('args') else {}
            if b0.get('k') == 'Ref' and a0.get('k') == 'Ref':
                out = []
                for (vals, s2) in rd.evs(e.get('args', []), st, ctx):
                    v_ = vals[0] if vals else sp.Integer(0)
                    for kk in range(self.nparam):
                        s2.fields[('loc', '%s[%s,%d]' % (b0['name'], a0['name'], kk))] = v_
                    out.append((None, s2))
                return out
        if k == 'MCall' and e.get('m') in ('estimateUsingSVD', 'estimateUsingCholeskyDecomposition', 'weightedEstimate'):
            self.x = mat.fresh('x', self.nparam, 1)
            return [(self.x, st)]
        if k == 'MCall' and e.get('m') in ('setDataSize',):
            out = []
            for (vals, s2) in rd.evs(e.get('args', []), st, ctx):
                s2.fields[('datasize',)] = vals[0] if vals else None
                out.append((None, s2))
            return out
        if k == 'MCall' and e.get('m') in ('getJ', 'getY', 'getW'):
            return [(sym.Opaque(e['m']), st)]
        return mat.hook(rd, e, st, ctx)


def orthogonalised_fact(fx, f, st, D):
    """Fact for a path that replaces the linear block of the result by U * V^T (or V * U^T) of an SVD: by Eigen's contract matrixU() and matrixV() are unitary, so the block is orthogonal; identity plus a
    non-zero skew matrix S never is ((I + S)^T (I + S) = I - S^2), and the condition of the path bounds |block - I| from below by a positive constant that rotations of the quantifier (up to 0.1 rad) exceed.
    Returns the message, or None when any link of the argument is missing."""
    import math
    bodies = [f['body']]
    for y in walk(f['body']):
        if isinstance(y, dict) and y.get('inrepo') and y.get('fk'):
            g = fx.functions.get(y['fk'])
            if g is not None and g.get('body') is not None:
                bodies.append(g['body'])
    polar = None
    for b in bodies:
        for y in walk(b):
            if not (isinstance(y, dict) and ((y.get('k') == 'Bin' and y.get('op') == '=') or (y.get('k') == 'Op' and y.get('op') == '=' and len(y.get('args', [])) == 2))):
                continue
            l_, r_ = (y['l'], y['r']) if y.get('k') == 'Bin' else (y['args'][0], y['args'][1])
            l0 = strip_casts(l_)
            if not (l0.get('k') == 'MCall' and l0.get('m') in ('block', 'topLeftCorner', 'linear')):
                continue
            t_ = deep_unwrap(sx(r_))
            if isinstance(t_, tuple) and t_[0] == '*' and len(t_) == 3:
                a_, b_ = t_[1], t_[2]
                if isinstance(b_, tuple) and b_[0] in ('.transpose', '.adjoint'):
                    b_ = b_[1]
                    if isinstance(a_, tuple) and isinstance(b_, tuple) and {a_[0], b_[0]} == {'.matrixU', '.matrixV'} and a_[1] == b_[1]:
                        svd_t = [strip_casts(z).get('t', {}).get('s', '') for z in walk(r_) if isinstance(z, dict) and z.get('k') == 'MCall' and z.get('m') in ('matrixU', 'matrixV')]
                        if any('SVD<' in (z.get('cls') or '') for z in walk(r_) if isinstance(z, dict) and z.get('k') == 'MCall' and z.get('m') in ('matrixU', 'matrixV')):
                            polar = y
    if polar is None:
        return None
    # the path condition: norm(block - I) > c with c > 0
    thr = None
    for c in st.cond:
        node = c[3] if len(c) > 3 else None
        if node is None or not c[2]:
            continue
        n0 = strip_casts(node)
        if n0.get('k') == 'Bin' and n0.get('op') in ('>', '>=') and '.norm' in str(deep_unwrap(sx(n0['l']))) and 'Identity' in str(deep_unwrap(sx(n0['l']))):
            thr = _number(n0['r'])
    if thr is None or not (thr > 0):
        return None
    angle = thr / math.sqrt(2.0)
    if angle >= 0.1:
        return None
    return ('the post-processing replaces the linear part of the returned matrix by the product of the U and V factors of an SVD - an orthogonal matrix by the library\'s contract - under a condition that holds '
            'whenever the first-order rotation is more than %.4g rad (|I + S - I| = sqrt(2) |w| > %.4g; the quantifier goes to 0.1 rad).  Identity plus a non-zero skew matrix is never orthogonal '
            '((I + S)^T (I + S) = I - S^2), so on this path the result is NOT identity plus skew: its diagonal is about 1 - t^2/2, and the parameters read back from it do not satisfy the normal equations' % (angle, thr))


def _number(node):
    """value of a constant expression made of literals, folded constants, products, quotients and sqrt"""
    import math
    n0 = strip_casts(node)
    cv = const_value(n0)
    if isinstance(cv, (int, float)) and not isinstance(cv, bool):
        return float(cv)
    if n0.get('k') == 'Bin' and n0.get('op') in ('*', '/', '+', '-'):
        a_, b_ = _number(n0['l']), _number(n0['r'])
        if a_ is None or b_ is None:
            return None
        return {'*': a_ * b_, '/': a_ / b_ if b_ else None, '+': a_ + b_, '-': a_ - b_}[n0['op']]
    if n0.get('k') == 'Call' and (n0.get('fn') or '').split('::')[-1].split('<')[0] == 'sqrt' and len(n0.get('args', [])) == 1:
        a_ = _number(n0['args'][0])
        return math.sqrt(a_) if a_ is not None and a_ >= 0 else None
    return None


def read_estimate(fx, f, psize, nparam):
    H = Hook(psize, nparam)
    rd = sym.Reader(fx, call_hook=H, member_hook=mat.member_hook)
    ctx = {'this': ('this',), 'fn': f, 'depth': 0}
    body = prune(f['body'])
    st = sym.State()
    for p in f['params']:
        st.locals[p['id']] = sp.Symbol('arg:' + p['name'])
    loops = []
    states = [st]

    def flat(c):
        out = []
        for s in c['s']:
            if s['k'] == 'Compound':
                out += flat(s)
            else:
                out.append(s)
        return out
    for s in flat(body):
        if s['k'] == 'For':
            loops.append(s)
            nxt = []
            for x in states:
                if s.get('init') is not None:
                    for y in rd.ex(s['init'], x, ctx):
                        nxt += rd.ex(s['b'], y, ctx)
                else:
                    nxt += rd.ex(s['b'], x, ctx)
            for y in nxt:
                y.continued = False          # one pass of the loop body: a `continue` ends the pass on that path
            states = nxt
        else:
            nxt = []
            for x in states:
                nxt += rd.ex(s, x, ctx)
            states = nxt
    return H, states, loops


class _Remap:
    """Forwards C07's verdicts under rule P6."""

    def __init__(self, R):
        self.R = R

    def holds(self, rule, inst, *a, **k):
        self.R.holds('P6', '%s[%s]' % (inst, rule), *a, **k)

    def violated(self, rule, inst, *a, **k):
        self.R.violated('P6', '%s[%s]' % (inst, rule), *a, **k)

    def undecided(self, rule, inst, *a, **k):
        self.R.undecided('P6', '%s[%s]' % (inst, rule), *a, **k)

    def check(self, cond, rule, inst, *a, **k):
        return self.R.check(cond, 'P6', '%s[%s]' % (inst, rule), *a, **k)

    def form(self, cond, rule, inst, *a, **k):
        return self.R.form(cond, 'P6', '%s[%s]' % (inst, rule), *a, **k)

    def used(self, *f):
        self.R.used(*f)

    def floor(self, rule, n):
        pass


def run(fx, R, tier):
    from . import C07
    C07.run(fx, _Remap(R), tier, sv_ratio=1e-6, sv_why='the condition number of the normal matrix is below 1e6 (quantifier), so its singular values legitimately span a ratio of 1e6')
    classes = sorted({f['cls'] for f in fx.functions.values() if f.get('cls', '').startswith(NS + 'FindRigidTransformationByLeastSquares<')})
    R.check(len(classes) == 8, 'P5', 'FindRigidTransformationByLeastSquares:instantiations', 'only %d of the 8 point types are instantiated' % len(classes), '8 explicit instantiations', None, 'E-WIT')
    R.floor('P1', 16)
    for cq in classes:
        cname = short_fn(cq)
        ests = sorted(fx.fn(cq + '::estimate_'), key=lambda f: len(f['params']))
        if len(ests) != 2:
            R.undecided('P1', cname, '%d estimate_ overloads' % len(ests))
            continue
        tables = []
        for f in ests:
            R.used(f)
            tag = 'aligned' if len(f['params']) == 3 else 'indexed'
            tables.append(check_estimate(fx, R, cq, cname, f, tag))
        if all(t is not None for t in tables):
            R.form(tables[0] == tables[1], 'P3', '%s::estimate_:overload-agreement' % cname, 'row/residual/scatter tables of the two overloads differ', 'identical tables', fx.rel(ests[0]['loc']), 'E-SIB')
        check_precond(fx, R, cq, cname)


def psize_of(cq):
    inner = cq[cq.index('<') + 1:-1]
    if 'HomogeneousCoordinates2' in inner:
        return 3, 2
    if 'HomogeneousCoordinates3' in inner:
        return 4, 3
    m_ = mat.dims_of(inner)
    if m_:
        return m_[0], m_[0]
    return None


def check_estimate(fx, R, cq, cname, f, tag):
    inst = 'FindRigidTransformationByLeastSquares::estimate_/%s' % tag
    ptag = ' [%s]' % cname
    ps = psize_of(cq)
    if ps is None:
        R.undecided('P1', inst + ptag, 'point type not recognised')
        return None
    psize, D = ps
    loc = fx.rel(f['loc'])
    # ---- the list the rows are built from is the caller's list: a local copy may be re-ordered, but no element may be removed from it -----------------------------------------
    if tag == 'indexed':
        lists_ = [v_ for x_ in walk(f['body']) if isinstance(x_, dict) and x_.get('k') == 'Decl' for v_ in x_['vars'] if 'std::vector<romea::core::Correspondence' in (v_.get('t') or {}).get('s', '')
                  and not (v_.get('t') or {}).get('ref')]
        for v_ in lists_:
            removing = [y_ for y_ in walk(f['body']) if isinstance(y_, dict) and y_.get('k') == 'MCall' and y_.get('m') in ('erase', 'resize', 'pop_back', 'clear', 'remove_if', 'shrink_to_fit') and strip_casts(y_.get('obj')).get('id') == v_['id']
                        and y_.get('m') != 'shrink_to_fit']
            filt = [y_ for y_ in walk(f['body']) if isinstance(y_, dict) and y_.get('k') == 'Call' and (y_.get('fn') or '').split('<')[0] in ('std::unique', 'std::remove_if', 'std::remove', 'std::partition', 'std::copy_if')
                    and v_['name'] in pp(y_)]
            if removing or filt:
                what_ = pp((filt or removing)[0])[:140]
                R.violated('P1', inst + ':list:entries-removed', 'the rows are built from `%s`, a local copy of the caller\'s correspondence list from which entries are REMOVED (`%s`): every correspondence is one row of the '
                           'problem the statement names - with a many-to-one list (a target point matched by several source points, which the nearest-neighbour association produces) the dropped rows have non-zero '
                           'residuals, so the parameters returned are not those of the normal equations of the list that was given, and differ from the aligned overload on the same pairs%s' % (v_['name'], what_, ptag),
                           fx.rel((filt or removing)[0].get('loc') or f['loc']), 'E-STATE')
            else:
                R.holds('P1', inst + ':list:local-copy' + ptag, 'a local copy of the list is only re-ordered', loc, 'E-STATE')
    # ---- P7: a return in front of the accumulation loop, decided on the counts of the quantifier (6..500 correspondences) ----------------
    import re
    from .. import mini
    top = f['body']['s'] if f.get('body') and f['body'].get('k') == 'Compound' else []

    def sizes_norm(t):
        t = deep_unwrap(t)
        def go(x):
            if isinstance(x, tuple) and len(x) == 2 and x[0] == '.size' and isinstance(x[1], str):
                return 'N'
            if isinstance(x, tuple):
                return tuple(go(y_) for y_ in x)
            return x
        return go(t)
    for x in walk(f['body']):
        if not (isinstance(x, dict) and x.get('k') == 'If' and any(y.get('k') == 'Return' for y in walk(x.get('t')) if isinstance(y, dict))):
            continue
        rets = [y for y in walk(x.get('t')) if isinstance(y, dict) and y.get('k') == 'Return' and y.get('e') is not None]
        const_ret = rets and all(not any(isinstance(z, dict) and z.get('k') == 'Ref' and z.get('rk') == 'param' for z in walk(y['e'])) for y in rets)
        if not const_ret:
            continue
        hit = None
        try:
            env0 = {}
            stp = mini.Step(sizes_norm)
            for n_ in (6, 7, 8, 12, 100, 500):
                env = {'N': n_, 'CARTESIAN_DIM': D, 'POINT_SIZE': psize, 'this.CARTESIAN_DIM': D}
                for d_ in top:
                    if d_ is x or any(y is x for y in walk(d_)):
                        break
                    if d_.get('k') == 'Decl' and all(v['t'].get('c') == 'int' for v in d_['vars']):
                        stp.run(d_, env)
                if stp.ev(sizes_norm(sx(x['c'])), env):
                    hit = hit or n_
        except (mini.Unsupported, mini.Returned):
            hit = None
            continue
        if hit is not None:
            R.violated('P7', inst + ':constant-result', 'when `%s` - true for %d correspondences with %d-D points, inside the quantifier (6..500 correspondences) - the estimator returns `%s`, which does not depend on the '
                       'points: %d correspondences with normals that span the space determine the %d parameters, and the normal equations of that problem are not solved%s' % (
                           pp(x['c'])[:90], hit, D, pp(rets[0]['e'])[:50], hit, 3 if D == 2 else 6, ptag), fx.rel(x['loc']), 'E-STEP')
    # ---- P8: raw views over the point containers ---------------------------------------------------------------------------------------
    for x in walk(f['body']):
        if isinstance(x, dict) and x.get('k') in ('Construct', 'Decl'):
            nodes = [x] if x.get('k') == 'Construct' else [v.get('init') for v in x['vars'] if v.get('init') is not None]
            for c_ in nodes:
                c_ = strip_casts(c_) if c_ is not None else None
                if c_ is None or c_.get('k') != 'Construct':
                    continue
                ts = (c_.get('t') or {}).get('s', '')
                mm = re.match(r'(?:const )?Eigen::Map<(?:const )?Eigen::Matrix<[a-z ]+, (-?\d+), (-?\d+)', ts)
                if not mm or not c_.get('args'):
                    continue
                first = pp(c_['args'][0])
                over_points = re.search(r'(sourcePoints|targetPoints|targetPointsNormals)\[0\]\.data\(\)|(sourcePoints|targetPoints|targetPointsNormals)\.data\(\)', first)
                if not over_points:
                    continue
                rows = int(mm.group(1))
                strided = 'Stride<' in ts
                if strided:
                    R.undecided('P8', inst + ':raw-view' + ptag, 'a strided Eigen::Map over %s: stride not evaluated' % first)
                elif rows != psize:
                    R.violated('P8', inst + ':raw-view', 'an Eigen::Map with %d rows per column is laid over the storage of `%s`, whose elements are %d scalars apart for this point type (%s): column n of the map '
                               'is not point n - coordinates and the homogeneous w of neighbouring points are mixed into the residuals, so the homogeneous instantiations solve another problem than the Cartesian '
                               'ones and than the index-based overload' % (rows, first[:60], psize, cname), fx.rel(c_.get('loc') or f['loc']), 'E-INT')
                else:
                    R.holds('P8', inst + ':raw-view' + ptag, 'map of %d rows over elements of %d scalars' % (rows, psize), fx.rel(c_.get('loc') or f['loc']), 'E-INT')
    try:
        H, states, loops = read_estimate(fx, f, psize, 3 if D == 2 else 6)
    except sym.Unsupported as u:
        R.undecided('P1', inst + ptag, 'symbolic reader: %s' % u)
        return None
    if len(states) > 1 and len(loops) == 1 and H.x is not None:
        # the result is post-processed on some paths: a path on which the returned matrix is no longer readable is judged by what the post-processing stores there
        readable = [x_ for x_ in states if isinstance(x_.ret, sp.MatrixBase) and x_.ret.shape == (D + 1, D + 1)]
        for x_ in [y_ for y_ in states if y_ not in readable]:
            desc_ = ' && '.join(('' if c[2] else '!') + '(' + c[0] + ')' for c in x_.cond)
            fact = orthogonalised_fact(fx, f, x_, D)
            if fact:
                R.violated('P1', inst + ':scatter-skew:post-processed', 'on the path [%s] %s%s' % (desc_[:160], fact, ptag), loc, 'E-ALG')
            else:
                R.undecided('P1', inst + ':path[%s]' % desc_[:120] + ptag, 'the returned matrix is not readable on this path (a store the reader cannot model)')
        if len(readable) == 1:
            states = readable
        elif len(readable) == len(states) and len(states) > 1:
            # the loop body forks (a guard that skips or replaces the row of some correspondences): the path generic data take is judged below; on a guarded path the row and the residual written must be
            # what the model gives UNDER the guard's equalities (a row may only be zeroed when the true row vanishes there)
            def eqs_of(st_):
                sub = {}
                for c in st_.cond:
                    rel = c[1] if c[2] else None
                    parts = list(rel.args) if isinstance(rel, sp.And) else [rel] if rel is not None else []
                    for r_ in parts:
                        if isinstance(r_, sp.Equality) and r_.lhs.is_Symbol and r_.rhs.is_number:
                            sub[r_.lhs] = r_.rhs
                        elif isinstance(r_, sp.Equality) and r_.rhs.is_Symbol and r_.lhs.is_number:
                            sub[r_.rhs] = r_.lhs
                return sub
            # a path that drops the row under a test on the INDEXES of the correspondence: legitimate only for indexes outside the sets; the test is evaluated on valid correspondences
            def index_guard(st_):
                syms_ = set()
                for c in st_.cond:
                    if isinstance(c[1], sp.Basic):
                        syms_ |= c[1].free_symbols
                return bool(syms_) and all(('PointIndex' in y_.name or y_.name.startswith('size(') or y_.name in ('arg:sourcePoints', 'arg:targetPoints', 'arg:targetPointsNormals', 'arg:correspondences'))
                                           for y_ in syms_)
            dropped_by_index = []
            for x_ in list(states):
                written = {k_[1]: v_ for k_, v_ in x_.fields.items() if k_[0] == 'loc' and k_[1].startswith('J[')}
                if not (written and all(v_ == 0 for v_ in written.values()) and index_guard(x_)):
                    continue
                desc_ = ' && '.join(('' if c[2] else '!') + '(' + str(c[1])[:150] + ')' for c in x_.cond)
                hit = None
                for (ns_, nt_, cs_, ct_) in ((30, 80, 5, 50), (80, 30, 50, 5), (40, 40, 39, 39), (3, 3, 0, 2)):
                    len_ = 3
                    sub_ = {}
                    for c in x_.cond:
                        for y_ in (c[1].free_symbols if isinstance(c[1], sp.Basic) else ()):
                            nm_ = y_.name
                            sub_[y_] = sp.Integer(cs_ if 'sourcePointIndex' in nm_ else ct_ if 'targetPointIndex' in nm_ else ns_ if ('size(' in nm_ and 'source' in nm_.lower()) else nt_ if 'size(' in nm_ else 0)
                    taken = True
                    fsub_ = {}
                    for c in x_.cond:
                        for a_ in (c[1].atoms(sp.core.function.AppliedUndef) if isinstance(c[1], sp.Basic) else ()):
                            if str(a_.func) == 'size' and len(a_.args) == 1:
                                fsub_[a_] = sp.Integer(ns_ if 'source' in str(a_.args[0]).lower() else len_ if 'correspondences' in str(a_.args[0]) else nt_)
                    for c in x_.cond:
                        v_ = c[1].subs(fsub_).subs(sub_) if isinstance(c[1], sp.Basic) else None
                        if v_ not in (sp.true, sp.false):
                            taken = None
                            break
                        if bool(v_) != c[2]:
                            taken = False
                            break
                    if taken:
                        hit = hit or (ns_, nt_, cs_, ct_)
                    if taken is None:
                        hit = None
                        break
                dropped_by_index.append(x_)
                if hit:
                    R.violated('P1', inst + ':row:dropped-valid-correspondence', 'on the path [%s] the row of the correspondence is zeroed and its residual set to 0, i.e. the correspondence is dropped.  With %d source points '
                               'and %d target points the correspondence (source %d, target %d) - both indexes inside their sets - takes that path: valid correspondences are silently ignored whenever the two sets '
                               'differ in size (a bound of one set is applied to an index into the other), so the parameters returned do not satisfy the normal equations of the list that was given%s' % (
                                   desc_[:260], hit[0], hit[1], hit[2], hit[3], ptag), loc, 'E-ALG')
                else:
                    R.holds('P1', inst + ':row:index-guard' + ptag, 'a row is dropped only for indexes outside the sets (evaluated on valid correspondences of sets of different sizes)', loc, 'E-ALG')
            if dropped_by_index:
                states = [x_ for x_ in states if x_ not in dropped_by_index]
            generic = [x_ for x_ in states if not eqs_of(x_)]
            for x_ in [y_ for y_ in states if eqs_of(y_)]:
                desc_ = ' && '.join(('' if c[2] else '!') + '(' + c[0] + ')' for c in x_.cond)
                sub_ = eqs_of(x_)
                nrm_ = mat.fresh('nrm', psize, 1)
                written = {k_[1]: v_ for k_, v_ in x_.fields.items() if k_[0] == 'loc' and (k_[1].startswith('J[') or k_[1].startswith('Y['))}
                # translation entries of the true row are the normal's Cartesian components: they vanish only if the whole Cartesian normal is zero under the guard
                free_n = [nrm_[i_, 0] for i_ in range(D) if nrm_[i_, 0] not in sub_]
                zeroed = [k_ for k_, v_ in written.items() if k_.startswith('J[') and v_ == 0]
                if zeroed and free_n:
                    R.violated('P1', inst + ':row:guarded-skip', 'on the path [%s] the row of the correspondence is zeroed (and its residual set to 0), i.e. the correspondence is dropped; under that condition the '
                               'normal component(s) %s are still free, and the true row has them as its translation entries: every correspondence whose unit normal is parallel to that axis (a floor, a ceiling, a wall '
                               'facing the axis) is silently ignored, so the parameters returned do not satisfy the normal equations of all the correspondences and a translation along that axis is not '
                               'recovered%s' % (desc_[:160], [str(y_) for y_ in free_n], ptag), loc, 'E-ALG')
                elif zeroed:
                    R.holds('P1', inst + ':row:guarded-skip[%s]' % desc_[:60] + ptag, 'the row is zeroed only where the whole Cartesian normal vanishes', loc, 'E-ALG')
                else:
                    R.undecided('P1', inst + ':path[%s]' % desc_[:100] + ptag, 'a guarded path of the loop body that is not a row skip')
            if len(generic) == 1:
                states = generic
    if len(states) != 1 or len(loops) != 1 or H.x is None:
        R.undecided('P1', inst + ptag, 'body not readable as one accumulation loop followed by one solve (%d paths, %d loops)' % (len(states), len(loops)))
        return None
    st = states[0]
    s, t, nrm = mat.fresh('s', psize, 1), mat.fresh('t', psize, 1), mat.fresh('nrm', psize, 1)
    nparam = 3 if D == 2 else 6
    rows = {}
    yv = None
    for k, v in st.fields.items():
        if k[0] == 'loc' and k[1].startswith('J['):
            idx = k[1][2:-1].split(',')
            if len(idx) == 2 and idx[1].isdigit():
                rows[int(idx[1])] = (idx[0], v)
        if k[0] == 'loc' and k[1].startswith('Y['):
            yv = (k[1][2:-1], v)
    if sorted(rows) != list(range(nparam)) or yv is None:
        R.undecided('P1', inst + ptag, 'row entries written: %s; residual: %s (expected %d parameters)' % (sorted(rows), yv is not None, nparam))
        return None
    # model from the scatter
    T = st.ret
    if not isinstance(T, sp.MatrixBase) or T.shape != (D + 1, D + 1):
        R.undecided('P1', inst + ptag, 'returned matrix not readable')
        return None
    x = H.x
    if x.shape[0] != nparam:
        R.undecided('P1', inst + ptag, 'solution vector has %d entries, %d parameters expected' % (x.shape[0], nparam))
        return None
    sh = sp.Matrix([s[i, 0] for i in range(D)] + [1])
    moved = (sp.Matrix(T) * sh)[:D, :]
    nD = sp.Matrix([nrm[i, 0] for i in range(D)])
    model = (nD.T * moved)[0, 0]
    sub_h = {}
    if psize > D:       # homogeneous: last coordinate of points is 1
        sub_h = {s[D, 0]: 1, t[D, 0]: 1}
    # the scatter must leave the identity where x does not enter (rigid part = I + skew)
    T0 = sp.Matrix(T).subs({x[i, 0]: 0 for i in range(nparam)})
    R.check(T0 == sp.eye(D + 1), 'P1', inst + ':scatter-identity', 'with x = 0 the scattered matrix is %s, not the identity%s' % (T0.tolist(), ptag), 'M(0) = I' + ptag, loc, 'E-ALG')
    lin = all(sp.diff(T[i, j], x[k, 0], 2) == 0 for i in range(D + 1) for j in range(D + 1) for k in range(nparam))
    skew = sp.Matrix(T)[:D, :D] - sp.eye(D)
    R.check(lin and (skew + skew.T) == sp.zeros(D, D), 'P1', inst + ':scatter-skew', 'the rotation part of the scattered matrix is not identity + skew(x): %s%s' % (sp.Matrix(T)[:D, :D].tolist(), ptag),
            'M = I + skew + translation' + ptag, loc, 'E-ALG')
    bad = []
    wdep = []
    for k in range(nparam):
        want = sp.diff(model, x[k, 0])
        got = rows[k][1]
        if sp.expand((got - want).subs(sub_h)) != 0:
            bad.append((k, got, want))
        elif sub_h and sp.expand(got - want) != 0 and any(y_ in sp.sympify(got).free_symbols for y_ in sub_h):
            wdep.append((k, got, want))
    if wdep and not bad:
        k, got, want = wdep[0]
        R.violated('P1', inst + ':row:homogeneous-coordinate', 'J(n,%d) is written as %s: it equals the derivative %s only when the homogeneous coordinate of the source point is 1.  The preconditioned point sets scale the '
                   'WHOLE homogeneous vector, so a preconditioned homogeneous point carries w = scale: the rotation columns of J then lose the scale while the residual and the translation columns keep it, and the '
                   'returned rotation is scale times the true one - the answer is no longer the same with or without isotropic preconditioning, nor for Cartesian versus homogeneous points%s' % (
                       k, got, want, ptag), loc, 'E-ALG')
    elif bad:
        k, got, want = bad[0]
        R.violated('P1', inst + ':row', 'J(n,%d) is written as %s, but the derivative of normal.(M(x) s) w.r.t. x_%d (the parameter scattered by the same function) is %s%s' % (k, got, k, want, ptag), loc, 'E-ALG')
    else:
        R.holds('P1', inst + ':row' + ptag, 'all %d row entries equal d/dx_k [normal.(M(x) s)]' % nparam, loc, 'E-ALG')
    wantY = sum((t[i, 0] - s[i, 0]) * nrm[i, 0] for i in range(psize))
    resY = sp.expand((yv[1] - wantY).subs(sub_h))
    R.check(resY == 0, 'P1', inst + ':residual', 'Y(n) is %s, expected (t - s).normal (difference %s)%s' % (yv[1], resY, ptag), 'Y = (t - s).normal' + ptag, loc, 'E-ALG')
    row_index_ok = all(r[0] == yv[0] for r in rows.values())
    R.check(row_index_ok, 'P1', inst + ':row-index', 'row entries and residual are written at different row indexes: %s / %s%s' % ({k: r[0] for k, r in rows.items()}, yv[0], ptag),
            'one row index per correspondence' + ptag, loc, 'E-SIB')
    # ---- P2 fetch roles ----------------------------------------------------------------------
    L = loops[0]
    init = L.get('init')
    v = init['vars'][0] if init and init['k'] == 'Decl' and init['vars'] else None
    lv = v['name'] if v else 'n'
    if tag == 'indexed':
        want = {'s': ['correspondence.sourcePointIndex'], 't': ['correspondence.targetPointIndex'], 'nrm': ['correspondence.targetPointIndex']}
        wantalt = {k: [('.member:' + v_[0].split('.')[1], ('[]', 'correspondences', lv))] for k, v_ in want.items()}
    else:
        want = {'s': [lv], 't': [lv], 'nrm': [lv]}
        wantalt = want
    got = {k: v_ for k, v_ in H.fetch.items()}
    if got == want or got == wantalt:
        R.holds('P2', inst + ':fetch-roles' + ptag, 'source by source index, target point and normal by target index' if tag == 'indexed' else 'all by the loop index', loc, 'E-SIB')
    else:
        wrong = [k for k in want if got.get(k) not in (want[k], wantalt[k])]
        names = {'s': 'source point', 't': 'target point', 'nrm': 'target normal'}
        swapped = all(got.get(k) and 'PointIndex' in str(got[k][0]) for k in wrong) if tag == 'indexed' else False
        if swapped:
            R.violated('P2', inst + ':fetch-roles', 'the %s is fetched with %s: with a non-identity correspondence list the row uses the data of another pair%s' % (
                ', '.join(names[k] for k in wrong), [str(got[k][0]) for k in wrong], ptag), loc, 'E-SIB')
        else:
            R.undecided('P2', inst + ':fetch-roles' + ptag, 'fetch idiom not recognised: %s' % (got,))
    cond = deep_unwrap(sx(L['c']))
    bound_ok = isinstance(cond, tuple) and cond[0] == '<' and cond[1] == lv and v is not None and const_value(v.get('init')) == 0
    size_src = ('.size', 'correspondences') if tag == 'indexed' else ('.size', 'sourcePoints')
    decls = {s_[1]: s_[2] for s_ in stmts_sx(f) if s_[0] == 'decl'}
    bnd = cond[2] if isinstance(cond, tuple) and len(cond) == 3 else None
    bnd = decls.get(bnd, bnd)
    capped = isinstance(bnd, tuple) and len(bnd) == 3 and bnd[0] in ('std::min', 'min') and size_src in bnd[1:] and any(b_ != size_src for b_ in bnd[1:])
    other = next((b_ for b_ in bnd[1:] if b_ != size_src), None) if capped else None
    R.form(bound_ok and bnd == size_src, 'P2', inst + ':loop-range', 'the loop runs while %s (bound %s), expected every correspondence%s' % (cond, bnd, ptag), 'loop over all pairs' + ptag, loc, 'E-STATE',
           facts=[(bound_ok and capped, 'the number of rows is min(%s, %s): whenever %s is the smaller one the pairs beyond it are dropped from the sum the estimator minimises; nothing in the '
                   'property bounds the number of pairs by it (an index list may name a point more than once)%s' % (size_src, other, other, ptag))])
    ds = st.fields.get(('datasize',))
    R.form(ds is not None and str(ds) in ('size(arg:correspondences)', 'size(arg:sourcePoints)') or ds is not None, 'P2', inst + ':data-size', 'setDataSize is not called with the number of pairs%s' % ptag,
            'data size = number of pairs' + ptag, loc, 'E-STATE')
    return ({k: str(sp.expand(r[1])) for k, r in rows.items()}, str(sp.expand(yv[1])), str(sp.Matrix(T).tolist()))


def check_precond(fx, R, cq, cname):
    f = fx.one(cq + '::setPreconditioner')
    ps = psize_of(cq)
    if f is None or ps is None:
        R.undecided('P4', cname + '::setPreconditioner', 'anchor vanished')
        return
    R.used(f)
    D = ps[1]
    st = stmts_sx(prune_fn(f))
    n = 3 if D == 2 else 6
    decl_scale = ('decl', 'scale', ('()', ('.getPreconditioningMatrix', 'targetPoints'), 0, 0))
    blk = ('expr', ('/=', ('.block', 'Ac', 0, 0, 'CARTESIAN_DIM', 'CARTESIAN_DIM'), 'scale'))
    setp = ('expr', ('.setPreconditionner', 'this.leastSquares_', 'Ac'))
    ident = [s for s in st if s[0] == 'expr' and isinstance(s[1], tuple) and s[1][0] == '=' and s[1][1] == 'Ac']
    ok = decl_scale in st and blk in st and setp in st and len(ident) == 1 and 'Identity' in str(ident[0][1][2]) and ('%d, %d' % (n, n)) in str(ident[0][1][2]) \
        and st.index(ident[0]) < st.index(blk) < st.index(setp)
    # must-pass-through: every path reaches leastSquares_.setPreconditionner(Ac) - the solver object persists, so a path that
    # returns earlier keeps the un-scaling matrix of the previous configuration
    pf = prune_fn(f)
    top = pf['body']['s'] if pf['body'] and pf['body'].get('k') == 'Compound' else []
    idx_set = next((i for i, x in enumerate(top) if x.get('k') == 'Expr' and deep_unwrap(sx(x['e'])) == setp[1]), None)
    early = [x for x in (top[:idx_set] if idx_set is not None else top) if x.get('k') in ('If', 'Return') and any(y.get('k') == 'Return' for y in walk(x))]
    if early and idx_set is not None:
        cond_txt = pp(early[0]['c']) if early[0].get('k') == 'If' else 'unconditionally'
        R.violated('P4', 'FindRigidTransformationByLeastSquares::setPreconditioner:early-return', 'setPreconditioner() returns (%s) before leastSquares_.setPreconditionner(Ac): the solver is a member and keeps the '
                   'un-scaling matrix installed for the PREVIOUS pair of sets, so after a configuration with another scale the translation is un-scaled with the old factor [%s]' % (cond_txt, cname), fx.rel(f['loc']), 'E-STATE')
    elif ok:
        R.holds('P4', 'FindRigidTransformationByLeastSquares::setPreconditioner [%s]' % cname, 'Ac = I_%d with the first %d diagonal entries divided by the target scale' % (n, D), fx.rel(f['loc']), 'E-SIB')
    else:
        R.undecided('P4', 'FindRigidTransformationByLeastSquares::setPreconditioner [%s]' % cname, 'idiom not recognised: %s' % (st,))
    for g in fx.fn(cq + '::find'):
        R.used(g)
        pre = 'PreconditionedPointSet' in g['sig']
        withc = len(g['params']) == 4
        s_ = stmts_sx(g)
        if pre:
            want = [('return', ('.find', 'this', ('.get', 'sourcePoints'), ('.get', 'targetPoints'), 'targetPointsNormals') + (('correspondences',) if withc else ()))]
        else:
            want = [('return', ('.estimate_', 'this', 'sourcePoints', 'targetPoints', 'targetPointsNormals') + (('correspondences',) if withc else ()))]
        inst = 'FindRigidTransformationByLeastSquares::find/%s%s [%s]' % ('preconditioned' if pre else 'raw', '+corr' if withc else '', cname)
        rescale = [x for x in s_ if x[0] == 'expr' and isinstance(x[1], tuple) and x[1][0] in ('/=', '*=') and 'getPreconditioningMatrix' in str(x[1][2]) and '.block' in str(x[1][1])]
        bypass = index_list_bypass(fx, g) if (withc and s_ != want) else None
        R.form(s_ == want, 'P4', inst, 'delegation idiom not recognised: %s' % (s_,), 'delegates unchanged', fx.rel(g['loc']), 'E-SIB',
               facts=[(bool(bypass), bypass or ''),(pre and bool(rescale) and ok, 'this overload rescales the translation block itself (%s), but this estimator already un-scales the translation parameters through the solver matrix Ac installed by '
                       'setPreconditioner(): the translation is compensated twice (t/s instead of t), unlike the index-based overload' % (rescale[0][1] if rescale else '',))])


def index_list_bypass(fx, g):
    """The overload that takes a correspondence list is run (E-STEP: concrete lists, sizes and iterators) on witness lists; the call it ends with must be handed the list.  Returns the text of a
    fact when, for a list that is NOT the identity pairing, the overload ends in a call that does not receive the list (the aligned estimator pairs point n with point n); None otherwise."""
    from .. import mini
    names = [p_['name'] for p_ in g['params']]
    if len(names) != 4:
        return None
    wit = [('full length, both ends in place, interior permuted', 5, 5, [(0, 0), (2, 1), (1, 2), (3, 3), (4, 4)]),
           ('full length, reversed', 4, 4, [(0, 3), (1, 2), (2, 1), (3, 0)]),
           ('a sub-list', 6, 6, [(0, 1), (2, 3), (4, 5)]),
           ('target set larger than the source set', 3, 7, [(0, 4), (1, 5), (2, 6)])]
    for (what, ns, nt, lst) in wit:
        S_ = mini.list_hooks(mini.Step(deep_unwrap))
        calls = []

        def record(t, env, calls=calls):
            calls.append(tuple(t[2:]))
            return 0
        S_.hooks['.estimate_'] = record
        S_.hooks['.find'] = record
        env = {names[0]: list(range(ns)), names[1]: list(range(nt)), names[2]: list(range(nt)),
               names[3]: [{'sourcePointIndex': a_, 'targetPointIndex': b_, 'squareDistance': 0.0, 'weight': 1.0} for (a_, b_) in lst]}
        try:
            S_.call(g['body'], env)
        except (mini.Unsupported, TypeError, KeyError, IndexError):
            return None
        if len(calls) != 1:
            return None
        if names[3] not in [a_ for a_ in calls[0] if isinstance(a_, str)]:
            return ('for the correspondence list %s (%s; %d source and %d target points) this overload ends in a call that is not given the list (%s): the estimator then pairs point n with point n, not the pairs of the '
                    'list - index-based and aligned correspondences no longer give the same answer, and the parameters returned do not satisfy the normal equations of the given pairing' % (
                        lst, what, ns, nt, ', '.join(str(a_) for a_ in calls[0])))
    return None


def prune_fn(f):
    g = dict(f)
    g['body'] = prune(f['body'])
    return g
