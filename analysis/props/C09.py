"""C09 - surface normals: per-point protocol (not the eigen-numerics).

Rules (all eight point types)
  N1  sensor-facing: in each kd-tree compute() overload every write of normals[n] is followed, in the same iteration, by
      flipNormalTowardOriginCoordinate(points[n], normals[n]); the three overloads without a tree build one from the same points and
      delegate with their arguments in order; the flip negates exactly when normal . point > 0
  N2  least-variance direction / curvature: the copied eigenvector is column 0 (first CARTESIAN_DIM entries of the column-major
      eigenvector matrix), the curvature is eigenvalue(0) / sum of all eigenvalues, the solver is SelfAdjointEigenSolver (ascending
      eigenvalues); the reliability specialisations agree across the point types of one dimension
  N3  the covariance is that of the k neighbours: both passes run i in [0,k) over neighborIndexes_[i], mean and covariance are divided
      by k, the eigen-decomposition is taken of the CARTESIAN block; the k handed to the tree is the size of the index buffers
  N4  the kd-tree query collects exactly the requested number of neighbours on every call (its result set is built with the
      requested k on every path of the call, not kept from an earlier query)
  N6  neighbour coverage (E-STEP on the loop control): each loop of planeEstimation_ that subscripts neighborIndexes_ is run, control only, for
      k = 3, 4, 7, 30; the subscripts it produces must be exactly 0..k-1, each once (a stride-2 loop without a remainder step drops the
      last neighbour for odd k)
  N10 orientation helper by value (E-STEP): flipNormalTowardOriginCoordinate is evaluated on points, unit eigenvectors (aligned and oblique, facing either way) and - for the homogeneous point
      types - previous values of the entry compute() does not write, at three scales of the cloud: the cartesian part must come back as +-the eigenvector with a non-positive projection on the point
  N5  no early exit inside the quantifier: a guard in front of the per-point loop that returns is evaluated (E-STEP) on witness sizes
      N = k+1, k+2, 5k for k = 3, 10, 30 (the quantifier starts at clouds of k+1 points); if it leaves for one of them no normal is written
Not decided: unit length, exactness on planes, rotational equivariance (numerical properties of the eigen-decomposition);
a re-formulated covariance computation (e.g. single pass) is UNDECIDED, not accepted or rejected."""
from ..tree import sx, walk, pp, strip_casts, const_value, short_fn
from .C20 import deep_unwrap, m
from .C14 import stmts_sx

LEVEL = 'other'
UNITS = ['src/pointset/algorithms/NormalAndCurvatureEstimation.cpp', 'src/pointset/KdTree.cpp']
ENGINES = 'E-STATE + E-SIB over romea-facts'
TECHNIQUE = 'search parameters of the k-nearest query as a fact (a positive eps is an approximate search), a return in front of the neighbour query, outputs routed to the callee parameter of the same name, orientation helper evaluated (E-STEP) on points, unit eigenvectors and previous buffer entries of the homogeneous point types at three scales, inlined orientation factor on projections +1/-1/0, eigenvectors overwritten after the decomposition under a relative-gap threshold above the bound of the quantifier, result reuse keyed on a scalar signature of an index set, stored k against the constructor argument for k = 3..30, tolerance return in front of the eigen-decomposition, flip ordered against the object it acts on, closed-form eigen solver contract fact, sweep of every function read (and its in-repo callees) for frozen function-local statics, single precision inside double computations, lossy copy constructors, presence- or argument-keyed member caches, reference members bound to constructor arguments, loop accumulators that are members, members derived in the constructor and not refreshed by setters, results returned by reference to a member buffer, members filled from an argument under a condition that ignores it, hidden non-virtual base members, self-bound reference members, reductions that accumulate in float; coverage of the k neighbour indexes by each accumulation loop (loop control evaluated for k = 3, 4, 7, 30), identity-keyed kd-tree cache fact; E-STEP evaluation of guards in front of the per-point loop on witness cloud sizes (no early exit inside the quantifier), entries copied into the normal vs CARTESIAN_DIM; must-pass-through per loop iteration on the instantiated AST (flip after every normal write), structural index agreement of eigenvector/eigenvalue uses, sibling agreement of specialisations'
EXPLANATION = ('Each compute() overload of each instantiation is read as an ordered statement list: the flip call post-dominates the normal write inside the iteration, delegating overloads pass their '
               'arguments through, eigenvector/eigenvalue indexes and the neighbour bookkeeping are matched structurally.')
ASSUMPTIONS = ['Eigen::SelfAdjointEigenSolver returns eigenvalues in increasing order and column-major eigenvectors']
LEVEL_TEXT = ('For every cloud and point type the per-point protocol holds by construction: the sensor-facing flip cannot be skipped on any path of any of the six overloads, the normal is the '
              'eigenvector of the smallest eigenvalue of the covariance of exactly the k neighbours returned by the tree. Numerical accuracy of the eigen-decomposition is not decided.')
LEVEL_NOTE = 'Not decided: unit length, exactness on planes, equivariance, float accuracy. Trusted: clang front end, extractor, Eigen solver ordering.'

NS = 'romea::core::'


def run(fx, R, tier):
    # the neighbour query goes through the kd-tree wrapper and its nanoflann adaptor: their bodies belong to what this check reads (hidden-state /
    # precision sweep), although nanoflann, not the library, calls the adaptor
    for g in fx.functions.values():
        if g.get('body') is not None and (g.get('cls') or '').startswith((NS + 'KdTree<', NS + 'NanoFlannAdaptor<')):
            R.used(g)
    classes = sorted({f['cls'] for f in fx.functions.values() if f.get('cls', '').startswith(NS + 'NormalAndCurvatureEstimation<')})
    if len(classes) != 8:
        R.undecided('N1', 'NormalAndCurvatureEstimation', '%d instantiations (8 expected)' % len(classes))
    R.floor('N1', 40)
    rel = {}
    for cq in classes:
        cname = short_fn(cq)
        for f in fx.fn(cq + '::compute'):
            R.used(f)
            check_compute(fx, R, cq, cname, f)
        fp = fx.one(cq + '::planeEstimation_')
        if fp is None:
            R.undecided('N3', cname + '::planeEstimation_', 'vanished')
        else:
            R.used(fp)
            check_plane(fx, R, cq, cname, fp)
        fr = fx.one(cq + '::computeNormalReliability')
        if fr is not None:
            R.used(fr)
            rel[cq] = [s for s in stmts_sx(fr)]
        rec = fx.records.get(cq)
        if rec:
            es = next((f_ for f_ in rec['fields'] if f_['name'] == 'eigenSolver_'), None)
            R.form(es is not None and es['t']['s'].startswith('Eigen::SelfAdjointEigenSolver<'), 'N2', cname + ':solver', 'eigen solver member is %s' % (es['t']['s'] if es else None),
                    'SelfAdjointEigenSolver (ascending eigenvalues)', None, 'E-SIB')
    # reliability: same formula for all 2-D types, and for all 3-D types
    for dim, frm in ((2, ('abs', ('/', ('()', 'this.eigenValues_', 1), ('()', 'this.eigenValues_', 0)))),
                     (3, ('abs', ('/', ('std::min', ('()', 'this.eigenValues_', 1), ('()', 'this.eigenValues_', 2)), ('()', 'this.eigenValues_', 0))))):
        group = {cq: v for cq, v in rel.items() if dim_of(cq) == dim}
        for cq, v in sorted(group.items()):
            ok = v == [('return', frm)] or v == [('return', ('std::abs',) + frm[1:])]
            if ok:
                R.holds('N2', short_fn(cq) + '::computeNormalReliability', 'agrees with its siblings', None, 'E-SIB')
            else:
                others = [o for o in group.values() if o != v]
                if others and all(o == others[0] for o in others):
                    R.violated('N2', short_fn(cq) + '::computeNormalReliability', 'this specialisation computes %s while the other %d-D point types compute %s' % (v, dim, others[0]), None, 'E-SIB')
                else:
                    R.undecided('N2', short_fn(cq) + '::computeNormalReliability', 'formula not recognised: %s' % (v,))
    check_kdtree(fx, R)
    check_flip_helper(fx, R)


class _Vec(object):
    """a concrete small vector for the step evaluator (value semantics)"""
    def __init__(self, v):
        self.v = [float(x) for x in v]

    def __mul__(self, k):
        return _Vec([x * float(k) for x in self.v])
    __rmul__ = __mul__

    def __truediv__(self, k):
        from ..mini import _div
        return _Vec([_div(x, float(k)) for x in self.v])

    def __neg__(self):
        return _Vec([-x for x in self.v])

    def __add__(self, o):
        return _Vec([a + b for a, b in zip(self.v, o.v)])

    def __sub__(self, o):
        return _Vec([a - b for a, b in zip(self.v, o.v)])

    def dot(self, o):
        if len(self.v) != len(o.v):
            raise ValueError('sizes')
        return sum(a * b for a, b in zip(self.v, o.v))


def _vec_step():
    import math
    from .. import mini
    stp = mini.Step(deep_unwrap)

    def vec(t, env):
        v = stp.ev(t, env)
        if not isinstance(v, _Vec):
            raise mini.Unsupported('not a vector: %s' % (t,))
        return v
    stp.hooks['.dot'] = lambda t, env: vec(t[1], env).dot(vec(t[2], env))
    stp.hooks['.norm'] = lambda t, env: math.sqrt(vec(t[1], env).dot(vec(t[1], env)))
    stp.hooks['.squaredNorm'] = lambda t, env: vec(t[1], env).dot(vec(t[1], env))
    stp.hooks['.normalized'] = lambda t, env: vec(t[1], env) / math.sqrt(vec(t[1], env).dot(vec(t[1], env)))
    stp.hooks['.head'] = lambda t, env: _Vec(vec(t[1], env).v[:int(stp.ev(t[2], env))]) if len(t) == 3 else (_ for _ in ()).throw(mini.Unsupported('head'))
    stp.hooks['.tail'] = lambda t, env: _Vec(vec(t[1], env).v[-int(stp.ev(t[2], env)):]) if len(t) == 3 else (_ for _ in ()).throw(mini.Unsupported('tail'))
    stp.hooks['.x'] = lambda t, env: vec(t[1], env).v[0]
    stp.hooks['.y'] = lambda t, env: vec(t[1], env).v[1]
    stp.hooks['.z'] = lambda t, env: vec(t[1], env).v[2]
    stp.hooks['.w'] = lambda t, env: vec(t[1], env).v[3]

    def quot(t, env):
        a, b = stp.ev(t[1], env), stp.ev(t[2], env)
        return a / b if isinstance(a, _Vec) else mini._div(a, b)
    stp.hooks['/'] = quot

    def elem(t, env):
        a = stp.ev(t[1], env)
        return a.v[int(stp.ev(t[2], env))] if isinstance(a, _Vec) else (_ for _ in ()).throw(mini.Unsupported('subscript'))
    stp.hooks['[]'] = elem
    stp.hooks['()'] = elem
    return stp


def check_flip_helper(fx, R):
    """N10 (E-STEP): the orientation helper, evaluated on concrete points and unit normals.  The normal handed to it holds the eigenvector in its CARTESIAN entries only (compute() copies CARTESIAN_DIM
    entries); any further entry of the point type (the homogeneous coordinate) still holds what the caller's buffer held - 1 for a NormalSet built the ordinary way, NormalSet<PointType>(N).  After the
    helper the cartesian part of the normal must be +-the eigenvector with a non-positive projection on the point, whatever the unit of length of the cloud."""
    import re
    from .. import mini
    fs = sorted((g for g in fx.functions.values() if g.get('name') == 'flipNormalTowardOriginCoordinate' and g.get('body') is not None and len(g.get('params', [])) == 2), key=lambda g: g['q'])
    if not fs:
        R.undecided('N10', 'flipNormalTowardOriginCoordinate', 'no instantiation of the orientation helper found (the orientation may be written in place: judged by N1)')
        return
    for g in fs:
        R.used(g)
        ts = g['params'][0]['t']['s']
        mm = re.search(r'Eigen::Matrix<(?:float|double), (\d), 1', ts)
        hh = re.search(r'HomogeneousCoordinates(\d)<', ts)
        if mm:
            D = SZ = int(mm.group(1))
        elif hh:
            D = int(hh.group(1))
            SZ = D + 1
        else:
            R.undecided('N10', 'flipNormalTowardOriginCoordinate<%s>' % ts[:60], 'point type not recognised')
            continue
        inst = 'flipNormalTowardOriginCoordinate<%s>' % short_fn(ts.replace('const ', '').rstrip(' &'))
        loc = fx.rel(g['loc'])
        pn, nn_ = g['params'][0]['name'], g['params'][1]['name']
        base_p = [0.3, 0.4, 1.2][:D]
        bads, why = [], None
        n_w = 0
        for scale, unit in ((1.0, 'expressed with coordinates 0.3 .. 1.2'), (1e-4, 'expressed in a unit 1e4 times larger (coordinates of 3e-5 .. 1.2e-4)'), (1e3, 'expressed in a unit 1e3 times smaller (coordinates 300 .. 1200)')):
            for facing in (+1, -1):
                for wn in ((0.0, 1.0, -1.0) if SZ > D else (None,)):
                    nrm = math_sqrt(sum(x * x for x in base_p))
                    ncart = [facing * x / nrm for x in base_p]                    # unit normal, projection on the point = facing * |p| * scale
                    # a second, oblique normal whose projection on the point is small (|n . p| = 0.5 |p|): still unit
                    for obl in (False, True):
                        if obl:
                            if D == 2:
                                c_, s_ = 0.5, math_sqrt(0.75)
                                u = [base_p[0] / nrm, base_p[1] / nrm]
                                ncart = [facing * (c_ * u[0] - s_ * u[1]), facing * (s_ * u[0] + c_ * u[1])]
                            else:
                                u = [x / nrm for x in base_p]
                                t_ = [u[1], -u[0], 0.0]
                                tn = math_sqrt(sum(x * x for x in t_))
                                t_ = [x / tn for x in t_]
                                ncart = [facing * (0.5 * a + math_sqrt(0.75) * b) for a, b in zip(u, t_)]
                        pv = [x * scale for x in base_p] + ([1.0] if SZ > D else [])
                        nv = list(ncart) + ([wn] if SZ > D else [])
                        env = {pn: _Vec(pv), nn_: _Vec(nv)}
                        stp = _vec_step()
                        try:
                            stp.call(g['body'], env)
                        except (mini.Unsupported, ValueError, TypeError, IndexError, ZeroDivisionError, OverflowError) as e:
                            why = why or str(e)[:160]
                            continue
                        out = env.get(nn_)
                        if not isinstance(out, _Vec) or len(out.v) != SZ:
                            why = why or 'the normal is not a vector after the helper'
                            continue
                        n_w += 1
                        oc = out.v[:D]
                        proj = sum(a * b for a, b in zip(oc, pv[:D]))
                        same = all(abs(a - b) < 1e-12 for a, b in zip(oc, ncart)) or all(abs(a + b) < 1e-12 for a, b in zip(oc, ncart))
                        if not same:
                            bads.append(('the cartesian part of the normal comes back as %s for the unit eigenvector %s: not +-the eigenvector' % (['%.4g' % x for x in oc], ['%.4g' % x for x in ncart]), unit, wn, scale))
                        elif proj > 0:
                            bads.append(('for the point %s and the unit eigenvector %s (projection %+.3g on the line of sight, i.e. the eigenvector %s) the normal comes back as %s: its projection on the point is '
                                          '%+.3g > 0, it points AWAY from the sensor' % (['%.4g' % x for x in pv[:D]], ['%.4g' % x for x in ncart], sum(a * b for a, b in zip(ncart, pv[:D])),
                                                                                         'already faces the sensor' if sum(a * b for a, b in zip(ncart, pv[:D])) < 0 else 'faces away and must be negated',
                                                                                         ['%.4g' % x for x in oc], proj), unit, wn, scale))
        # the ordinary buffer (homogeneous entry 1, metres) first
        bad = next((b_ for b_ in bads if b_[2] in (None, 1.0) and b_[3] == 1.0), None) or next((b_ for b_ in bads if b_[2] in (None, 1.0, 0.0)), None) or (bads[0] if bads else None)
        if bad:
            hom = ''
            if bad[2] is not None and bad[2] != 0.0:
                hom = (' The point type has %d entries for %d cartesian coordinates: compute() writes the eigenvector into the first %d entries of normals[n] only, entry %d keeps what the caller\'s buffer held (%g here; '
                       'a NormalSet<PointType>(N) built the ordinary way holds 1), and the helper\'s test runs over ALL entries, so normal_w * point_w = %g is added to the projection and decides the sign whenever '
                       '|normal . point| is below it (a wall closer than one unit of length).' % (SZ, D, D, D, bad[2], bad[2]))
            elif bad[3] != 1.0:
                hom = ' The same cloud as for the other witnesses, %s: the property has no unit of length, and the helper compares a length of the cloud with an absolute number.' % bad[1]
            R.violated('N10', 'flipNormalTowardOriginCoordinate:%s' % ('homogeneous-entry' if (bad[2] not in (None, 0.0)) else 'orientation'), '%s [%s].%s' % (bad[0], inst, hom), loc, 'E-STEP')
        elif why and not n_w:
            R.undecided('N10', inst, 'orientation helper not evaluable: %s' % why)
        elif why:
            R.undecided('N10', inst, 'orientation helper not evaluable on some witnesses: %s' % why)
        else:
            R.holds('N10', inst, '%d witness (point, unit eigenvector%s) pairs at three scales: the cartesian part comes back as +-the eigenvector with a non-positive projection on the point' % (
                n_w, ', previous homogeneous entry' if SZ > D else ''), loc, 'E-STEP')


def math_sqrt(x):
    import math
    return math.sqrt(x)


def dim_of(cq):
    inner = cq[cq.index('<') + 1:-1]
    if 'Coordinates2' in inner or ', 2, 1' in inner:
        return 2
    return 3


def check_compute(fx, R, cq, cname, f):
    names = [p['name'] for p in f['params']]
    tag = 'compute(%s)' % ','.join(n for n in names)
    inst = '%s::%s' % (cname, tag)
    loc = fx.rel(f['loc'])
    st = [s for s in stmts_sx(f) if s != ('expr', 0)]
    if 'pointsKdTree' not in names:
        # delegating overload
        want = [('decl', 'pointsKdTree', ('new:KdTree<%s>' % cq[cq.index('<') + 1:-1].replace('romea::core::', ''), 'points')),
                ('expr', ('.compute', 'this', 'points', 'pointsKdTree') + tuple(names[1:]))]
        ok = len(st) == 2 and st[0][0] == 'decl' and isinstance(st[0][2], tuple) and str(st[0][2][0]).startswith('new:KdTree<') and st[0][2][1:] == ('points',) and \
            st[1] == ('expr', ('.compute', 'this', 'points', st[0][1]) + tuple(names[1:]))
        if ok:
            R.holds('N1', inst, 'builds the tree from the same points and delegates with its arguments in order', loc, 'E-SIB')
        else:
            # the tree handed to the kd-tree overload comes from a helper of the class: it must be BUILT from the points of this call on
            # every path - a tree kept in the object and re-used when only the identity (address, size) of the point set matches was built
            # over other coordinates (the search structure indexes the contents, which an in-place refill changes)
            fact = None
            if len(st) == 1 and st[0][0] == 'expr' and isinstance(st[0][1], tuple) and st[0][1][:3] == ('.compute', 'this', 'points') and isinstance(st[0][1][3], tuple) and st[0][1][3][1:] == ('this', 'points'):
                hname = st[0][1][3][0].lstrip('.')
                for h in fx.fn(cq + '::' + hname):
                    if h.get('body') is None:
                        continue
                    top = h['body']['s'] if h['body'].get('k') == 'Compound' else []
                    builds_uncond = any(x.get('k') in ('Expr', 'Decl') and ('KdTree' in pp(x.get('e')) if x.get('k') == 'Expr' else any('KdTree' in (v_['t'].get('s') or '') for v_ in x['vars'])) for x in top)
                    cond_build = [x for x in top if x.get('k') == 'If' and any('KdTree' in pp(y.get('e')) for y in walk(x.get('t')) if y.get('k') == 'Expr')]
                    returns_member = any(y.get('k') == 'Return' and 'this.' in pp(y.get('e')) for y in walk(h['body']))
                    if cond_build and not builds_uncond and returns_member:
                        fact = ('%s() hands the kd-tree overload a tree kept in the object, rebuilt only when `%s`; the condition compares the identity of the point set, not its coordinates: after the '
                                'same buffer is refilled (a rotated or new cloud of the same size) the search runs on the split planes of the EARLIER coordinates and the neighbours are not the k nearest' % (
                                    hname, pp(cond_build[0]['c'])))
            # argument routing by name: an output of this overload handed to a differently named output of the overload it calls (two VectorType & compile in either order)
            fact2 = None
            calls_ = [y for y in walk(f['body']) if isinstance(y, dict) and y.get('k') == 'MCall' and y.get('m') == 'compute' and y.get('pnames')]
            if len(calls_) == 1:
                route = []
                for pname_, a_ in zip(calls_[0]['pnames'], calls_[0].get('args', [])):
                    a0 = strip_casts(a_)
                    if isinstance(a0, dict) and a0.get('k') == 'Ref' and a0.get('rk') == 'param' and a0.get('name') in names:
                        route.append((a0['name'], pname_))
                wrong = [(a_, p_) for (a_, p_) in route if a_ != p_ and p_ in ('normals', 'curvatures', 'normalsReliability', 'points') and a_ in ('normals', 'curvatures', 'normalsReliability', 'points')]
                if wrong:
                    fact2 = ('this overload hands its `%s` to the parameter `%s` of the overload it forwards to (%s): the caller\'s %s vector receives the %s, and the real %s are written to a scratch vector and '
                             'dropped - for this overload the reported curvature is |lambda1 / lambda0| (tens to infinity on a plane), not smallest eigenvalue / trace in [0, 1/DIM]' % (
                                 wrong[0][0], wrong[0][1], ', '.join('%s -> %s' % r_ for r_ in route), wrong[0][0], wrong[0][1], wrong[0][0]))
            R.form(False, 'N1', inst, 'delegation idiom not recognised: %s' % (st,), '', loc, 'E-SIB', facts=[(fact is not None, fact), (fact2 is not None, fact2)])
        return
    loops = [x for x in walk(f['body']) if x.get('k') == 'For']
    if len(loops) != 1:
        R.undecided('N1', inst, '%d loops' % len(loops))
        return
    L = loops[0]
    top = f['body']['s'] if f['body']['k'] == 'Compound' else [f['body']]
    guards = [x for x in top[:top.index(L)] if x['k'] == 'If' and any(y.get('k') == 'Return' for y in walk(x))] if L in top else None
    if guards is None:
        R.undecided('N5', inst + ':early-exit', 'the per-point loop is not a top-level statement')
    elif not guards and all(x['k'] in ('Expr', 'Decl', 'Null') for x in top[:top.index(L)]):
        R.holds('N5', inst + ':early-exit', 'no statement in front of the per-point loop can leave the function', loc, 'E-STATE')
    else:
        from .. import mini
        bad = why = None
        for k_ in (3, 10, 30):
            for N_ in (k_ + 1, k_ + 2, 5 * k_):
                env = {'this.numberOfNeighborPoints_': k_, 'points': N_, 'normals': N_, 'curvatures': N_, 'normalsReliability': N_}
                stp = mini.Step(lambda t: _sizes(deep_unwrap(t)))
                try:
                    for g in (x for x in top[:top.index(L)] if x['k'] != 'Expr'):
                        stp.run(g, env)
                except mini.Returned:
                    bad = bad or (N_, k_)
                except mini.Unsupported as e:
                    why = str(e)
        if bad:
            R.violated('N5', '%s::%s:early-exit' % (short_fn(cq.split('<')[0]), 'compute/' + str(len(names)) + 'args'), 'for a cloud of %d points and k = %d (the quantifier starts at k+1 points; the tree returns the query point '
                       'as its own first neighbour) a guard in front of the per-point loop returns: no normal%s is written, the outputs keep whatever they held [%s]' % (
                           bad[0], bad[1], '/curvature' if 'curvatures' in names else '', cname), loc, 'E-STEP')
        elif why:
            R.undecided('N5', inst + ':early-exit', 'guard in front of the loop not interpretable: %s' % why)
        else:
            R.holds('N5', inst + ':early-exit', 'guards in front of the loop never leave for N = k+1, k+2, 5k (k = 3, 10, 30)', loc, 'E-STEP')
    init = L.get('init')
    vs = {v['name']: v for v in init['vars']} if init and init['k'] == 'Decl' else {}
    cond = deep_unwrap(sx(L['c']))
    nvar = cond[1] if isinstance(cond, tuple) and len(cond) == 3 else None
    bound = cond[2] if isinstance(cond, tuple) and len(cond) == 3 else None
    bdef = deep_unwrap(sx(vs[bound]['init'])) if bound in vs and vs[bound].get('init') is not None else bound
    full = nvar in vs and const_value(vs[nvar].get('init')) == 0 and cond[0] == '<' and bdef == ('.size', 'points') and deep_unwrap(sx(L['inc'])) in (('u++', nvar),)
    R.form(bool(full), 'N1', inst + ':loop', 'the loop does not run over every point: %s' % (cond,), 'every point of the cloud', loc, 'E-STATE')
    body = [deep_unwrap(sx(x['e'])) for x in (L['b']['s'] if L['b']['k'] == 'Compound' else [L['b']]) if x['k'] == 'Expr']
    nested = any(x['k'] in ('If', 'For', 'While') for x in (L['b']['s'] if L['b']['k'] == 'Compound' else [L['b']]))
    n = nvar
    plane = ('.planeEstimation_', 'this', 'points', 'pointsKdTree', n)
    copy = ('std::copy', ('.data', 'this.eigenVectors_'), ('+', ('.data', 'this.eigenVectors_'), 'CARTESIAN_DIM'), ('.data', ('[]', 'normals', n)))
    flip = ('flipNormalTowardOriginCoordinate', ('[]', 'points', n), ('[]', 'normals', n))
    writes = [i for i, s in enumerate(body) if writes_normal(s, n)]
    flips = [i for i, s in enumerate(body) if s == flip]
    # the flip helper may also be handed the eigenvector matrix itself: it then orients the vector BEFORE it is copied into normals[n]
    src_flips = [i for i, s in enumerate(body) if isinstance(s, tuple) and s and s[0] == 'flipNormalTowardOriginCoordinate' and len(s) == 3 and s[1] == ('[]', 'points', n)
                 and 'this.eigenVectors_' in str(s[2]) and 'normals' not in str(s[2])]
    if src_flips and not flips and writes and not nested:
        est = [i for i, s in enumerate(body) if s == plane]
        ok_order = est and max(est) < min(src_flips) and max(src_flips) < min(writes)
        if ok_order:
            R.holds('N1', inst + ':flip', 'the eigenvector is oriented (flip on eigenVectors_) after the plane estimate and before it is copied into the normal', loc, 'E-STATE')
        else:
            R.violated('N1', '%s::%s:flip-order' % (short_fn(cq.split('<')[0]), 'compute/' + str(len(names)) + 'args'), 'in %s the flip acts on eigenVectors_ (statement %d) but the normal is copied out of eigenVectors_ at '
                       'statement %d, BEFORE it: the flip has no effect on the normal that is returned, which keeps whatever sign the eigen-solver produced - it can point away from the sensor (statements: %s)' % (
                           inst, max(src_flips), min(writes), [s[0] if isinstance(s, tuple) else s for s in body]), loc, 'E-STATE')
    elif nested:
        R.undecided('N1', inst + ':flip', 'conditional statements inside the per-point loop')
    elif not writes:
        R.undecided('N1', inst + ':flip', 'no write of normals[n] recognised: %s' % (body,))
    elif (not flips or max(writes) > max(flips)) and any(mentions_normal(s_, n) and s_ != flip and not writes_normal(s_, n) for s_ in body[max(writes) + 1:]):
        R.undecided('N1', inst + ':flip', 'the normal is treated after its write in a form that is not the enumerated flip call: %s' % ([s_ for s_ in body[max(writes) + 1:] if mentions_normal(s_, n)],))
    elif not flips and inline_orientation(L, body, n, writes) is not None:
        io = inline_orientation(L, body, n, writes)
        site = '%s::%s:inline-orientation' % (short_fn(cq.split('<')[0]), 'compute/' + str(len(names)) + 'args')
        if io[0] != 'form':
            R.undecided('N1', inst + ':flip', 'the normal is written together with an orientation derived from the point, in a form that is not enumerated: %s' % (io[1],))
        else:
            _k, P_, F_, vals = io
            if vals is None:
                R.undecided('N1', inst + ':flip', 'the orientation factor %s is not evaluable' % (F_,))
            elif vals[1.0] != -1 or vals[-1.0] != 1:
                R.violated('N1', site, 'in %s the normal is the eigenvector times the factor %s of its projection `%s` onto the line of sight: that factor is %s for a positive projection (the eigenvector points away from '
                           'the sensor; it must become -1) and %s for a negative one (must stay +1): normals of this overload are not oriented toward the sensor' % (inst, F_, P_, vals[1.0], vals[-1.0]), loc, 'E-STEP')
            elif vals[0.0] not in (1, -1):
                R.violated('N1', site, 'in %s the normal is the eigenvector times the factor %s of its projection `%s` onto the line of sight: for a projection of exactly 0 the factor is %s, so the stored normal is the '
                           'eigenvector scaled by it - not a unit vector (the helper this replaces leaves the vector unchanged in that case).  A projection of exactly zero is what a point gets whose fitted plane passes '
                           'through the sensor: a planar scan stored in a 3D type (z = 0 everywhere: the normal is +-z and every point is orthogonal to it), a ground patch at sensor height, a wall seen edge-on' % (
                               inst, F_, P_, vals[0.0]), loc, 'E-STEP')
            else:
                R.holds('N1', inst + ':flip', 'the normal is the eigenvector times a factor of its projection onto the line of sight that is -1 for positive, +1 for negative and %s for zero projections' % vals[0.0], loc, 'E-STEP')
    elif not flips or max(writes) > max(flips):
        R.violated('N1', '%s::%s:flip' % (short_fn(cq.split('<')[0]), 'compute/' + str(len(names)) + 'args'), 'in %s the normal written at statement %d of the iteration is not followed by flipNormalTowardOriginCoordinate(points[n], normals[n]) '
                   '(statements: %s): normals of this overload are not oriented toward the sensor' % (inst, max(writes), [s[0] if isinstance(s, tuple) else s for s in body]), loc, 'E-STATE')
    else:
        R.holds('N1', inst + ':flip', 'normal write is followed by the flip in the same iteration', loc, 'E-STATE')
    # plane estimation first, on point n
    R.form(bool(body) and body[0] == plane, 'N3', inst + ':estimate', 'iteration does not start with planeEstimation_(points, tree, n): %s' % (body[:1],), 'plane estimated for point n first', loc, 'E-STATE')
    # eigenvector copy: column 0
    cp = [s for s in body if isinstance(s, tuple) and s[0] == 'std::copy']
    if len(cp) == 1:
        R.form(cp[0] == copy, 'N2', inst + ':eigenvector', 'normal is copied by %s; the eigenvector of the smallest eigenvalue is the first CARTESIAN_DIM entries of eigenVectors_.data()' % (cp[0],),
                'copies column 0 of the eigenvectors', loc, 'E-SIB')
    else:
        wr = [s_ for s_ in body if writes_normal(s_, n)]
        import re
        mm = re.match(r'new:Eigen::Map<const Eigen::Matrix<[a-z ]+, (\d+), 1, 0>', str(wr[0][2][0])) if len(wr) == 1 and wr[0][0] == '=' and wr[0][1] == ('[]', 'normals', n) and isinstance(wr[0][2], tuple) else None
        D = dim_of(cq)
        if mm and wr[0][2][1] == ('.data', 'this.eigenVectors_'):
            K = int(mm.group(1))
            if K == D:
                R.holds('N2', inst + ':eigenvector', 'maps the first %d entries (column 0) of the eigenvectors' % K, loc, 'E-SIB')
            else:
                R.violated('N2', '%s::%s:eigenvector-length' % (short_fn(cq.split('<')[0]), 'compute/' + str(len(names)) + 'args'), 'the normal of %s is assigned the first %d entries of eigenVectors_.data(); column 0 '
                           '(the least-variance direction) has %d: entry %d is the first component of the NEXT eigenvector and lands in the homogeneous coordinate of the normal, which is then not a unit direction '
                           'and biases the sensor-facing test (the flip uses the full dot product)' % (cname, K, D, D), loc, 'E-SIB')
        else:
            R.undecided('N2', inst + ':eigenvector', 'normal write idiom not recognised: %s' % (wr,))
    if 'curvatures' in names:
        cur = [s for s in body if isinstance(s, tuple) and s[0] == '=' and s[1] == ('[]', 'curvatures', n)]
        want = ('/', ('()', 'this.eigenValues_', 0), ('.sum', 'this.eigenValues_'))
        if len(cur) == 1 and cur[0][2] == want:
            R.holds('N2', inst + ':curvature', 'eigenvalue(0) / sum of eigenvalues', loc, 'E-SIB')
        elif len(cur) == 1 and m(('/', ('()', 'this.eigenValues_', '$K'), ('.sum', 'this.eigenValues_')), cur[0][2], {}):
            R.violated('N2', inst + ':curvature', 'curvature uses eigenvalue %s; the smallest one (ascending order) is index 0' % (cur[0][2][1][2],), loc, 'E-SIB')
        else:
            R.undecided('N2', inst + ':curvature', 'curvature idiom not recognised: %s' % (cur,))
    if 'normalsReliability' in names:
        rl = [s for s in body if isinstance(s, tuple) and s[0] == '=' and s[1] == ('[]', 'normalsReliability', n)]
        R.form(len(rl) == 1 and rl[0][2] == ('.computeNormalReliability', 'this'), 'N2', inst + ':reliability', 'reliability is %s' % (rl,), 'computeNormalReliability()', loc, 'E-SIB')


def before_query(ifnode, top):
    """the early return sits in front of the statement that asks the tree for the neighbours of the point, and its condition is not an equality test of the point index with a remembered index"""
    qi = next((i_ for i_, x_ in enumerate(top) if any(isinstance(y, dict) and y.get('k') == 'MCall' and y.get('m') == 'findNearestNeighbors' for y in walk(x_))), None)
    ii = next((i_ for i_, x_ in enumerate(top) if x_ is ifnode or any(y is ifnode for y in walk(x_))), None)
    if qi is None or ii is None or ii >= qi:
        return False
    c = strip_casts(ifnode['c'])
    if c.get('k') == 'Bin' and c.get('op') == '==' and 'pointIndex' in pp(c):
        return False                       # same point as last time: a different question (the cloud may have changed), left to the sweep
    return True


def scalar_signature(ifnode, before):
    """the early-return condition compares a member with a local that is a sum-like reduction of the neighbour indexes: (text of the definition, how)"""
    c = strip_casts(ifnode['c'])
    if not (c.get('k') == 'Bin' and c.get('op') == '=='):
        return None
    locs = [strip_casts(x_) for x_ in (c['l'], c['r']) if strip_casts(x_).get('k') == 'Ref' and strip_casts(x_).get('rk') == 'local']
    mems = [strip_casts(x_) for x_ in (c['l'], c['r']) if strip_casts(x_).get('k') == 'Member']
    if len(locs) != 1 or len(mems) != 1:
        return None
    for x in before:
        if x.get('k') == 'Decl':
            for v in x['vars']:
                if v['id'] == locs[0].get('id') and v.get('init') is not None and v['t'].get('c') == 'int':
                    calls = [y for y in walk(v['init']) if isinstance(y, dict) and y.get('k') == 'Call' and (y.get('fn') or '').split('<')[0].split('::')[-1] in ('inner_product', 'accumulate', 'reduce', 'transform_reduce')]
                    if calls and 'neighborIndexes_' in pp(v['init']):
                        return ('%s = %s' % (v['name'], pp(v['init'])[:100]), 'std::' + (calls[0].get('fn') or '').split('<')[0].split('::')[-1])
    return None


def _incr(t):
    """loop increment as an assignment the step evaluator understands: i++ / ++i -> i += 1"""
    if isinstance(t, tuple) and len(t) == 2 and t[0] in ('u++', '++u', 'u--', '--u'):
        return ('+=' if '+' in t[0] else '-=', t[1], 1)
    return t


def _sizes(t):
    """x.size() -> x (the scalar abstraction of a container is its size)"""
    if isinstance(t, tuple):
        if t and t[0] == '.size' and len(t) == 2:
            return _sizes(t[1])
        return tuple(_sizes(x) for x in t)
    return t


def _occurs(t, what):
    if t == what:
        return True
    return isinstance(t, tuple) and any(_occurs(x, what) for x in t)


def inline_orientation(L, body, n, writes):
    """The last write of normals[n] carries its own orientation (no call of the flip helper): None when the written value does not depend on the point at all;
    ('form', projection, factor, {1.0: f, -1.0: f, 0.0: f}) for `eigenvector * factor(projection)` with projection = eigenvector . point; ('unknown', text) otherwise."""
    stm = L['b']['s'] if L['b']['k'] == 'Compound' else [L['b']]
    decls = {}
    for x in stm:
        if x['k'] == 'Decl':
            for v in x['vars']:
                if v.get('init') is not None:
                    decls[v['name']] = deep_unwrap(sx(v['init']))
    w = body[max(writes)]
    if not (isinstance(w, tuple) and w[0] == '=' and len(w) == 3):
        return None
    rhs = w[2]
    pt = ('[]', 'points', n)
    tainted = [nm for nm, e in decls.items() if _occurs(e, pt)]
    uses = [nm for nm in tainted if _occurs(rhs, nm)]
    if not uses and not _occurs(rhs, pt):
        return None
    if len(uses) != 1 or _occurs(rhs, pt) or not (isinstance(rhs, tuple) and rhs[0] == '*' and len(rhs) == 3):
        return ('unknown', str(rhs)[:200])
    P = uses[0]
    V, F = (rhs[1], rhs[2]) if _occurs(rhs[2], P) else (rhs[2], rhs[1])
    pe = decls[P]
    ev0 = ('.col', 'this.eigenVectors_', 0)
    okp = isinstance(pe, tuple) and pe[0] == '.dot' and len(pe) == 3 and ((pe[1] == ev0 and _occurs(pe[2], pt)) or (pe[2] == ev0 and _occurs(pe[1], pt)))
    if V != ev0 or _occurs(V, P) or not okp:
        return ('unknown', '%s with %s = %s' % (str(rhs)[:160], P, str(pe)[:120]))
    from .. import mini
    vals = {}
    for pv in (1.0, -1.0, 0.0):
        try:
            v_ = mini.Step(deep_unwrap).ev(F, {P: pv})
            vals[pv] = int(v_) if isinstance(v_, bool) else v_
        except (mini.Unsupported, TypeError, ZeroDivisionError):
            return ('form', '%s = %s' % (P, pp_sx(pe)), pp_sx(F), None)
    return ('form', '%s = %s' % (P, pp_sx(pe)), pp_sx(F), vals)


def pp_sx(t):
    if isinstance(t, tuple) and len(t) == 3 and t[0] in ('+', '-', '*', '/', '<', '>', '<=', '>=', '==', '!='):
        return '(%s %s %s)' % (pp_sx(t[1]), t[0], pp_sx(t[2]))
    if isinstance(t, tuple) and t and isinstance(t[0], str) and t[0].startswith('.'):
        return '%s%s(%s)' % (pp_sx(t[1]), t[0], ', '.join(pp_sx(x) for x in t[2:]))
    if isinstance(t, tuple) and len(t) == 3 and t[0] == '[]':
        return '%s[%s]' % (pp_sx(t[1]), pp_sx(t[2]))
    return str(t)


def mentions_normal(s, n):
    if s == ('[]', 'normals', n):
        return True
    return isinstance(s, tuple) and any(mentions_normal(x, n) for x in s)


def writes_normal(s, n):
    if not isinstance(s, tuple):
        return False
    if s[0] == 'std::copy' and len(s) == 4 and s[3] == ('.data', ('[]', 'normals', n)):
        return True
    if s[0] in ('=',) and (s[1] == ('[]', 'normals', n) or (isinstance(s[1], tuple) and len(s[1]) > 1 and s[1][1] == ('[]', 'normals', n))):
        return True
    return False


def check_plane(fx, R, cq, cname, f):
    inst = cname + '::planeEstimation_'
    loc = fx.rel(f['loc'])
    st = stmts_sx(f)
    k = 'this.numberOfNeighborPoints_'
    nn = ('expr', ('.findNearestNeighbors', 'pointsKdTree', ('[]', 'points', 'pointIndex'), k, 'this.neighborIndexes_', 'this.neighborSquareDistances_'))
    R.form(nn in st, 'N3', inst + ':query', 'the neighbour query is not findNearestNeighbors(points[pointIndex], k, indexes, distances) with the member k and buffers: %s' % ([s for s in st if 'findNearest' in str(s)],),
            'k nearest neighbours of the point itself', loc, 'E-STATE')
    loops = [x for x in walk(f['body']) if x.get('k') == 'For']
    want_mean = ('+=', 'mean', ('[]', 'points', ('[]', 'this.neighborIndexes_', 'i')))
    pm = ('-', ('[]', 'points', ('[]', 'this.neighborIndexes_', 'i')), 'mean')
    want_cov = ('+=', 'covariance', ('*', pm, ('.transpose', pm)))
    bodies = []
    ok_loops = len(loops) == 2
    for L in loops:
        init = L.get('init')
        v = init['vars'][0] if init and init['k'] == 'Decl' and len(init['vars']) == 1 else None
        cond = deep_unwrap(sx(L['c']))
        ok_loops = ok_loops and v is not None and v['name'] == 'i' and const_value(v.get('init')) == 0 and cond == ('<', 'i', k) and deep_unwrap(sx(L['inc'])) == ('u++', 'i')
        bodies.append([deep_unwrap(sx(x['e'])) for x in walk(L['b']) if x.get('k') == 'Expr'])
    two_pass = ok_loops and bodies == [[want_mean], [want_cov]]
    div_mean = ('expr', ('/=', 'mean', k)) in st
    div_cov = ('expr', ('/=', 'covariance', k)) in st
    if two_pass and div_mean:
        R.holds('N3', inst + ':covariance', 'two passes over the k neighbour indexes; mean = sum/k; covariance = sum (p-mean)(p-mean)^T' + (' / k' if div_cov else ''), loc, 'E-STATE')
    elif len(loops) == 2 and bodies == [[want_mean], [want_cov]]:
        bad = [deep_unwrap(sx(L['c'])) for L in loops]
        R.violated('N3', short_fn(cq.split('<')[0]) + '::planeEstimation_:neighbour-range', 'the mean/covariance loops run while %s; both must cover exactly the k = numberOfNeighborPoints_ indexes returned by the query '
                   '(mean divided by k: %s)' % (bad, div_mean), loc, 'E-STATE')
    else:
        R.undecided('N3', inst + ':covariance', 'covariance computation idiom not recognised (two-pass form expected): loops %d, bodies %s' % (len(loops), bodies))
    # ---- N6 coverage of the k neighbour indexes by every accumulation loop ------------------------------------------------
    from .. import mini
    for ln, L in enumerate(loops):
        subs_ = []
        for x in walk(L['b']):
            if x.get('k') in ('Op', 'Index') and 'neighborIndexes_' in pp(x):
                t_ = deep_unwrap(sx(x))
                if isinstance(t_, tuple) and len(t_) == 3 and t_[0] == '[]' and t_[1] == 'this.neighborIndexes_':
                    subs_.append(t_[2])
        subs_ = [e_ for i_, e_ in enumerate(subs_) if e_ not in subs_[:i_]]
        if not subs_:
            continue
        init = L.get('init')
        v = init['vars'][0] if init and init['k'] == 'Decl' and len(init['vars']) >= 1 else None
        linst = '%s:loop%d:coverage' % (inst, ln)
        if v is None or L.get('c') is None or L.get('inc') is None:
            R.undecided('N6', linst, 'loop control not readable')
            continue
        bad = why = None
        for kk in (3, 4, 7, 30):
            env = {k: kk}
            stp = mini.Step(deep_unwrap)
            try:
                for vv in init['vars']:
                    env[vv['name']] = stp.ev(deep_unwrap(sx(vv['init'])), env)
                seen = []
                it = 0
                while stp.ev(deep_unwrap(sx(L['c'])), env):
                    seen += [stp.ev(e_, env) for e_ in subs_]
                    stp.ev(_incr(deep_unwrap(sx(L['inc']))), env)
                    it += 1
                    if it > 200:
                        raise mini.Unsupported('loop does not end')
            except mini.Unsupported as e:
                why = str(e)
                break
            if sorted(seen) != list(range(kk)):
                missing = sorted(set(range(kk)) - set(seen))
                dup = sorted({x_ for x_ in seen if seen.count(x_) > 1})
                bad = bad or (kk, missing, dup, [x_ for x_ in seen if x_ >= kk or x_ < 0])
        if why:
            R.undecided('N6', linst, 'loop control not interpretable: %s' % why)
        elif bad:
            R.violated('N6', short_fn(cq.split('<')[0]) + '::planeEstimation_:loop%d:coverage' % ln, 'for k = %d the loop `for (%s; %s; %s)` subscripts neighborIndexes_ with %s: index(es) %s are never visited%s%s - the '
                       'covariance is not that of the k nearest neighbours [%s]' % (bad[0], pp(init), pp(L['c']), pp(L['inc']), [str(e_) for e_ in subs_], bad[1],
                                                                                ', %s more than once' % bad[2] if bad[2] else '', ', %s out of range' % bad[3] if bad[3] else '', cname), fx.rel(L['loc']), 'E-STEP')
        else:
            R.holds('N6', linst, 'subscripts %s cover 0..k-1 exactly once for k = 3, 4, 7, 30' % [str(e_) for e_ in subs_], fx.rel(L['loc']), 'E-STEP')
    # ---- N8: no tolerance shortcut around the eigen-decomposition (the property is scale-free) -----------------------------
    from .. import earlyexit
    top = f['body']['s'] if f.get('body') and f['body'].get('k') == 'Compound' else []
    dec_i = next((i_ for i_, x_ in enumerate(top) if x_.get('k') == 'Expr' and 'eigenSolver_.compute' in pp(x_['e'])), None)
    if dec_i is None:
        R.undecided('N8', inst + ':shortcut', 'eigenSolver_.compute(...) is not a top-level statement of planeEstimation_')
    else:
        exits = earlyexit.exits_before(top, dec_i)
        for (node, ctext, tol) in exits:
            if tol:
                R.violated('N8', short_fn(cq.split('<')[0]) + '::planeEstimation_:shortcut', 'planeEstimation_ returns before the eigen-decomposition when `%s` (%s): the quantifier bounds only the RELATIVE eigen-gap of '
                           'the neighbourhood, not its size, so a finely sampled or small-unit cloud (all neighbours within a radius whose square is below the constant) takes the shortcut and its normal is whatever the '
                           'shortcut stores, not the direction of least variance; exact-plane normals and rotation equivariance are lost there [%s]' % (ctext, tol, cname), fx.rel(node['loc']), 'E-STATE')
            elif scalar_signature(node, top[:dec_i]):
                sig = scalar_signature(node, top[:dec_i])
                R.violated('N8', short_fn(cq.split('<')[0]) + '::planeEstimation_:signature-shortcut', 'planeEstimation_ returns before the eigen-decomposition - keeping the eigenvalues and eigenvectors of the PREVIOUS '
                           'point - when `%s`, where `%s`: one number computed by %s does not identify a set of k neighbour indexes (the index sets {0, 4, 5} and {1, 2, 6} have the same sum and the same sum of '
                           'squares), so a point whose neighbourhood differs from the previous one can receive the previous plane, normal and curvature [%s]' % (ctext, sig[0], sig[1], cname), fx.rel(node['loc']), 'E-STATE')
            elif before_query(node, top):
                R.violated('N8', short_fn(cq.split('<')[0]) + '::planeEstimation_:no-query-shortcut', 'planeEstimation_ returns when `%s` BEFORE the neighbours of points[pointIndex] have been asked for: what stays in the '
                           'eigenvalues and eigenvectors is the decomposition of ANOTHER point\'s neighbourhood, and the condition does not establish that this point has the same k nearest neighbours (belonging to a '
                           'remembered list of indexes is not having that list as one\'s own neighbourhood: next to a crease the point gets the plane of the seed, not the direction of least variance of its own '
                           'k neighbours) [%s]' % (ctext[:140], cname), fx.rel(node['loc']), 'E-STATE')
            else:
                R.undecided('N8', inst + ':shortcut', 'returns before the eigen-decomposition when `%s`; whether that condition is exact for the inputs of the quantifier is not decided' % ctext)
        if not exits:
            R.holds('N8', inst + ':shortcut', 'no return before eigenSolver_.compute(...)', loc, 'E-STATE')
    # ---- N9: nothing replaces the eigenvectors after the decomposition inside the quantifier (relative eigen-gap above 1e-6) ---------------------
    if dec_i is not None:
        S_ = 'float' if ('<float' in cq or 'float,' in cq or 'float>' in cq) else 'double'
        for x_ in top[dec_i + 1:]:
            if x_.get('k') != 'If':
                continue
            stores_ = [deep_unwrap(sx(y_['e'])) for y_ in walk(x_.get('t')) if y_.get('k') == 'Expr']
            hit_ = [s_ for s_ in stores_ if isinstance(s_, tuple) and s_[0] == '=' and 'eigenVectors_' in str(s_[1])]
            if not hit_:
                continue
            cnd_ = deep_unwrap(sx(x_['c']))
            Tval = None
            if isinstance(cnd_, tuple) and cnd_[0] in ('<=', '<') and isinstance(cnd_[2], tuple) and cnd_[2][0] == '*' and 'eigenValues_' in str(cnd_[1]):
                env_ = {}
                stp_ = mini.Step(deep_unwrap)
                try:
                    for y_ in top[:top.index(x_)]:
                        if y_.get('k') == 'Decl' and all((v_.get('t') or {}).get('c') in ('fp', 'int') and v_.get('init') is not None for v_ in y_['vars']):
                            try:
                                stp_.run(y_, env_)
                            except mini.Unsupported:
                                pass
                    for side in cnd_[2][1:]:
                        if 'eigenValues_' not in str(side):
                            Tval = float(stp_.ev(side, dict(env_)))
                except (mini.Unsupported, TypeError, ValueError):
                    Tval = None
            if Tval is None:
                R.undecided('N9', inst + ':replaced-eigenvector', 'after the decomposition the eigenvectors are overwritten when `%s`; the threshold is not evaluable' % pp(x_['c'])[:120])
            elif Tval > 1e-6:
                R.violated('N9', short_fn(cq.split('<')[0]) + '::planeEstimation_:replaced-eigenvector', 'after the decomposition the first eigenvector - the normal - is overwritten (%s) when `%s`; for %s the factor is '
                           '%.3g, a relative eigen-gap ABOVE the 1e-6 from which the quantifier counts a neighbourhood as having a distinct smallest eigenvalue: for gaps in ]1e-6, %.3g] the reported normal is not the '
                           'direction of least variance of the neighbours [%s]' % (str(hit_[0][2])[:80], pp(x_['c'])[:120], S_, Tval, Tval, cname), fx.rel(x_['loc']), 'E-INT')
            else:
                R.holds('N9', inst + ':replaced-eigenvector', 'overwritten only for relative gaps below %.3g, outside the quantifier' % Tval, fx.rel(x_['loc']), 'E-INT')
    direct = [s for s in st if s[0] == 'expr' and isinstance(s[1], tuple) and s[1][:2] == ('.computeDirect', 'this.eigenSolver_')]
    if direct:
        R.violated('N3', short_fn(cq.split('<')[0]) + '::planeEstimation_:closed-form-solver', 'the eigen-decomposition uses SelfAdjointEigenSolver::computeDirect, Eigen\'s closed-form (trigonometric) solver for 2x2 / 3x3 '
                   'matrices; its documentation states that it is faster but NOT as accurate as the iterative compute() when eigenvalues are close or differ by orders of magnitude - eigenvector errors grow like '
                   'eps / (relative gap)^2.  The quantifier has neighbourhoods with a relative eigen-gap down to 1e-6 (elongated strips, adjacent scan lines); there the normal of an exactly planar cloud is off by '
                   'up to degrees in float and the curvature is no longer zero to rounding [%s]' % cname, fx.rel(f['loc']), 'E-INT')
    eigs = [s for s in st if s[0] == 'expr' and isinstance(s[1], tuple) and s[1][:2] == ('.compute', 'this.eigenSolver_')]
    vals = ('expr', ('=', 'this.eigenValues_', ('.eigenvalues', 'this.eigenSolver_')))
    vecs = ('expr', ('=', 'this.eigenVectors_', ('.eigenvectors', 'this.eigenSolver_')))
    if len(eigs) == 1 and vals in st and vecs in st and st.index(eigs[0]) < st.index(vals) and st.index(eigs[0]) < st.index(vecs):
        arg = eigs[0][1][2]
        if arg == ('.block', 'covariance', 0, 0, 'CARTESIAN_DIM', 'CARTESIAN_DIM'):
            R.holds('N3', inst + ':eigen', 'eigen(cov.block(0,0,D,D)) -> eigenValues_, eigenVectors_', loc, 'E-STATE')
        else:
            R.undecided('N3', inst + ':eigen', 'eigen-decomposition input not recognised: %s' % (arg,))
    else:
        R.undecided('N3', inst + ':eigen', 'eigen-decomposition idiom not recognised: %s' % ([s for s in st if 'eigen' in str(s)],))
    ctor = [g for g in fx.functions.values() if g.get('ctor') and g.get('cls') == cq and len(g['params']) == 1 and not g.get('copyctor')]
    if len(ctor) == 1:
        inits = {i.get('field'): deep_unwrap(sx(i['e'])) for i in ctor[0]['inits'] if i.get('field')}
        okc = isinstance(inits.get('neighborIndexes_'), tuple) and k in inits['neighborIndexes_'] \
            and isinstance(inits.get('neighborSquareDistances_'), tuple) and k in inits['neighborSquareDistances_']
        # N7: the neighbourhood size the estimator stores is the one it was given, for every k of the quantifier
        kinit = inits.get('numberOfNeighborPoints_')
        pname = ctor[0]['params'][0]['name']
        D_ = dim_of(cq)
        badk = whyk = None
        if kinit is not None:
            for kk in range(3, 31):
                try:
                    got_ = mini.Step(deep_unwrap).ev(kinit, {pname: kk, 'CARTESIAN_DIM': D_, 'POINT_SIZE': D_, 'this.CARTESIAN_DIM': D_})
                except mini.Unsupported as e_:
                    whyk = str(e_)
                    break
                if got_ != kk:
                    badk = badk or (kk, got_)
        if kinit is None or whyk:
            R.undecided('N7', cname + ':stored-k', 'initialiser of numberOfNeighborPoints_ not interpretable: %s' % (whyk or 'absent'))
        elif badk:
            R.violated('N7', short_fn(cq.split('<')[0]) + ':stored-k', 'constructed with k = %d the estimator stores numberOfNeighborPoints_ = %s (initialiser %s, DIM = %d): the covariance is then taken over %s neighbours, '
                       'so the normal is not the direction of least variance of the %d nearest neighbours; k = %d is inside the quantifier (k in 3..30) [%s]' % (
                           badk[0], badk[1], kinit, D_, badk[1], badk[0], badk[0], cname), fx.rel(ctor[0]['loc']), 'E-STEP')
        else:
            R.holds('N7', cname + ':stored-k', 'numberOfNeighborPoints_ equals the constructor argument for k = 3..30', fx.rel(ctor[0]['loc']), 'E-STEP')
        R.form(okc, 'N3', cname + ':buffers', 'index/distance buffers are not sized with the number of neighbours: %s' % ({n_: inits.get(n_) for n_ in ('neighborIndexes_', 'neighborSquareDistances_')},),
                'buffers sized k', fx.rel(ctor[0]['loc']), 'E-STATE')


def check_kdtree(fx, R):
    fs = [f for f in fx.functions.values() if f['q'].startswith(NS + 'KdTree<') and f['name'] == 'findNearestNeighbors']
    if len(fs) < 8:
        R.undecided('N4', 'KdTree::findNearestNeighbors', '%d instantiations (8 expected)' % len(fs))
    seen = set()
    for f in sorted(fs, key=lambda f: f['q']):
        R.used(f)
        cname = short_fn(f['cls'])
        loc = fx.rel(f['loc'])
        st = stmts_sx(f)
        top = [x['k'] for x in (f['body']['s'] if f['body']['k'] == 'Compound' else [f['body']])]
        calls = [s for s in st if s[0] == 'expr' and isinstance(s[1], tuple) and s[1][0] == '.findNeighbors']
        if len(calls) != 1:
            R.undecided('N4', cname + '::findNearestNeighbors', 'findNeighbors call not found exactly once')
            continue
        rs = calls[0][1][2]
        # search parameters: nanoflann::SearchParams(checks, eps = 0, sorted = true).  eps > 0 makes the search approximate - a branch of the tree is skipped when it cannot improve the k-th distance by
        # more than the factor (1 + eps) - so the indexes returned are not the k nearest points
        sp_ = calls[0][1][4] if len(calls[0][1]) >= 5 else None
        for _ in range(3):
            if isinstance(sp_, str):
                d_ = [s2 for s2 in st if s2[0] == 'decl' and s2[1] == sp_]
                sp_ = d_[0][2] if d_ else sp_
        if isinstance(sp_, tuple) and str(sp_[0]).startswith('new:nanoflann::SearchParams'):
            eps_ = sp_[2] if len(sp_) >= 3 else 0
            srt_ = sp_[3] if len(sp_) >= 4 else True
            if isinstance(eps_, (int, float)) and not isinstance(eps_, bool) and eps_ > 0:
                R.violated('N4', 'KdTree::findNearestNeighbors:approximate-search', 'the search runs with nanoflann::SearchParams(checks, eps = %s): a positive eps makes the k-nearest search APPROXIMATE - a branch of the '
                           'tree is not visited when its bounding box is farther than worstDistance / (1 + eps), so a point that is strictly nearer than the reported k-th neighbour (by a relative margin below eps) '
                           'is left out.  The indexes returned are then not the k nearest points of the cloud, and every quantity built on them (normals, curvatures, correspondences) is that of another neighbourhood '
                           '[%s]' % (eps_, cname), loc, 'E-STATE')
            elif isinstance(eps_, (int, float)) and eps_ == 0 and srt_ in (True, 1):
                R.holds('N4', cname + '::findNearestNeighbors:exact-search', 'SearchParams with eps = 0 (exact search), sorted results', loc, 'E-STATE')
            elif srt_ in (False, 0) and isinstance(eps_, (int, float)) and eps_ == 0:
                R.undecided('N4', cname + '::findNearestNeighbors:exact-search', 'SearchParams asks for unsorted results; whether the callers rely on the order is not decided')
            else:
                R.undecided('N4', cname + '::findNearestNeighbors:exact-search', 'search parameters %s not readable' % (sp_,))
        else:
            R.undecided('N4', cname + '::findNearestNeighbors:exact-search', 'search parameters %s not recognised' % (sp_,))
        decl = [s for s in st if s[0] == 'decl' and s[1] == rs]
        if isinstance(rs, str) and decl and isinstance(decl[0][2], tuple) and str(decl[0][2][0]).startswith('new:nanoflann::KNNResultSet<') and decl[0][2][1:] == ('numberOfNeighbors',) and 'If' not in top:
            R.holds('N4', cname + '::findNearestNeighbors', 'result set is a local built with the requested number of neighbours', loc, 'E-STATE')
        elif 'If' in top or (isinstance(rs, tuple) or (isinstance(rs, str) and rs.startswith('this.'))):
            conds = [s[1] for s in st if s[0] == 'if']
            compares_k = any('numberOfNeighbors' in str(c) for c in conds)
            if not compares_k:
                key = 'KdTree::findNearestNeighbors:cached-result-set'
                R.violated('N4', key, 'the k-nearest result set handed to the search (%s) is kept in the object and (re)built only under %s, which does not compare its capacity with the requested '
                           'numberOfNeighbors: a later query with a larger k on the same tree returns only the first query\'s number of neighbours [%s]' % (rs, conds, cname), loc, 'E-STATE')
            else:
                R.undecided('N4', cname + '::findNearestNeighbors', 'cached result set guarded by %s' % (conds,))
        else:
            R.undecided('N4', cname + '::findNearestNeighbors', 'result-set idiom not recognised: %s' % (st,))
