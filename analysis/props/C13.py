"""C13 - grid index mapping: table/index agreement and exact-arithmetic extent margins (thin claim).

Rules (float/double x 2-D/3-D instantiations)
  X1  centre table <-> index map agreement (exact arithmetic): centre(n) = origin + (n + 1/2) res and index(p) = trunc((p - origin)/res)
      use the same origin and resolution fields, so (centre(n) - origin)/res = n + 1/2 and centre(n+1) - centre(n) = res;
      computeCellCenterPosition reads the table that getCellCentersPositionAlong exposes
  X2  every table entry is a closed form of its index: no floating-point value is accumulated across the iterations of the fill loop
      (for float and up to 1e7 cells an accumulated centre drifts by about n * eps * |coordinate|, far beyond half a cell)
  X3  extent margins in exact arithmetic: with origin = res (floor(l/res) - 1/2) and N = ceil(u/res) - floor(l/res) + 1 the real index of
      the extent's upper bound stays at least a positive margin below N and the lower bound's index is >= 0, for the interval form and
      for the symmetric maximal-range form (whose interval must be [-R, R])
  X5  the first cell is rounded once: the floor argument that defines the origin and the one inside the cell count are the same
      floating-point expression (otherwise they can differ by one at lower bounds that are exact multiples of the resolution)
  X4  object identity: a data member of pointer type (or an array of pointers) that a constructor points INTO another data member of the
      same object (`.data()`, `&member[i]`) makes the compiler-generated copy operations wrong - the copy's pointers still address the
      source object's storage; reported unless the class declares its own copy constructor AND copy assignment (or deletes them)
Not decided (stated prominently): what floor/ceil/truncation do in floating point exactly at the bounds and on cell borders, and the
half-resolution distance claim in float - the heart of the property; no sound static bound in reach."""
import sympy as sp
from ..tree import sx, walk, pp, strip_casts, const_value, short_fn
from .C20 import deep_unwrap
from .C14 import stmts_sx

LEVEL = 'other'
UNITS = ['src/containers/grid/GridIndexMapping.cpp']
ENGINES = 'E-ALG + E-STATE over romea-facts'
TECHNIQUE = 'origin / cell-count statements and the centre-table loop executed in IEEE double arithmetic on witness extents whose resolution is not a power of two (the cells must reach both bounds, N table entries one resolution apart), witness extents whose resolution has a non-integer reciprocal, structural reading of copy operations with loops (sweep H3), witness extents at the ends of the quantifier (1e-3 resolution, millions of cells), points a thousandth of a cell inside each border, locals of the index map and later re-assignments of the cell count, own formulas of a maximal-range constructor that does not delegate, exact rational evaluation of origin / count / table entry / index map on witness extents, bounded typestate exploration of the per-axis centre table over call sequences, sweep of every function read (and its in-repo callees) for frozen function-local statics, single precision inside double computations, lossy copy constructors, presence- or argument-keyed member caches, reference members bound to constructor arguments, loop accumulators that are members, members derived in the constructor and not refreshed by setters, results returned by reference to a member buffer, members filled from an argument under a condition that ignores it, hidden non-virtual base members, self-bound reference members, reductions that accumulate in float; pointers into own storage with compiler-generated copy operations, one rounding of the first cell on both sides of table and count; single-writer rule for the centre table over the per-axis loop, integer casts read as truncation (case split on the sign of the bound); formula extraction of origin / cell count / centre table / index map and exact algebra with floor = x - eps, ceil = x + delta (eps, delta in [0,1)); loop-carried floating accumulator lint'
EXPLANATION = ('The constructor formulas (origin snapped to a cell centre, cell count from floor/ceil), the centre table fill and the index map are extracted and related by exact algebra; '
               'the margin of the extent bounds against the cell count is computed symbolically with floor/ceil slack variables. Floating-point behaviour at the bounds is not decided.')
ASSUMPTIONS = ['exact real arithmetic for X1/X3', 'quantifier: float and double, up to 1e7 cells, |bounds| <= 1e3, resolution >= 1e-3']
LEVEL_TEXT = ('A thin claim: the writer (centre table) and the reader (index map) of the grid agree and the extent fits the cell count with a positive margin in exact arithmetic, for every '
              'extent and resolution; the floating-point border cases that the property is mostly about are not decided.')
LEVEL_NOTE = 'NOT decided: floor/ceil/truncation rounding at bounds and cell borders, half-resolution distance in float. Trusted: clang front end, extractor, sympy.'

NS = 'romea::core::'
TRUNC_CASE = ['nonneg']


TRUNC = sp.Function('trunc')
ROUND = sp.Function('roundhalfaway')


def integer_valued(e):
    if e.is_Integer:
        return True
    if e.func in (sp.floor, sp.ceiling) or e.func == TRUNC or e.func == ROUND:
        return True
    if e.is_Add or e.is_Mul:
        return all(integer_valued(a) for a in e.args)
    return False


def cast_targets(body):
    """('cast-target', sx of the cast) -> 'int' | 'fp' from the result type of every Eigen .cast<T>() call below body."""
    import re
    out = {}
    for x in walk(body):
        if x.get('k') == 'MCall' and x.get('m') == 'cast':
            mm = re.search(r'scalar_cast_op<([^,<>]+), ([^<>]+?)>', (x.get('t') or {}).get('s', ''))
            if mm:
                tgt = mm.group(2).strip()
                out[('cast-target', deep_unwrap(sx(x)))] = 'fp' if tgt in ('float', 'double', 'long double') else 'int'
    return out


def tosym(s, env):
    if isinstance(s, (int, float)):
        return sp.nsimplify(s)
    if isinstance(s, str):
        return env.get(s)
    if isinstance(s, tuple):
        if s in env:
            return env[s]
        op = s[0]
        if op in ('+', '-', '*', '/') and len(s) == 3:
            a, b = tosym(s[1], env), tosym(s[2], env)
            if a is None or b is None:
                return None
            return {'+': a + b, '-': a - b, '*': a * b, '/': a / b}[op]
        if op in ('u-', '-') and len(s) == 2:
            a = tosym(s[1], env)
            return None if a is None else -a
        if op in ('floor', 'Eigen::floor', 'std::floor') and len(s) == 2:
            a = tosym(s[1], env)
            return None if a is None else sp.floor(a)
        if op in ('ceil', 'Eigen::ceil', 'std::ceil') and len(s) == 2:
            a = tosym(s[1], env)
            return None if a is None else sp.ceiling(a)
        if op in ('round', 'Eigen::round', 'std::round', 'std::lround', 'std::llround') and len(s) == 2:
            a = tosym(s[1], env)
            return None if a is None else ROUND(a)       # halves away from zero
        if op in ('rint', 'Eigen::rint', 'std::rint', 'std::nearbyint') and len(s) == 2:
            return None                                      # rounding-mode dependent: not interpreted
        if op in ('.cwiseMin', '.cwiseMax', 'std::min', 'std::max', '.min', '.max') and len(s) == 3:
            a, b = tosym(s[1], env), tosym(s[2], env)
            if a is None or b is None:
                return None
            return (sp.Min if op.lower().endswith('min') else sp.Max)(a, b)
        if op in ('.cast',) and len(s) == 2:
            a = tosym(s[1], env)
            if a is None:
                return None
            target = env.get(('cast-target', s))
            if integer_valued(a) or target == 'fp':
                return a                      # value-preserving (integer -> integer / -> floating)
            if target == 'int':
                return TRUNC(a)               # floating -> integer: truncation toward zero
            return None
        if str(op).startswith('new:') and (len(s) == 2 or (len(s) == 3 and isinstance(s[2], tuple) and str(s[2][0]).endswith('::PrivateType'))):
            return tosym(s[1], env)
    return None


QUANT = {'cells': 1e7, 'coord': 1e3, 'tol': 0.5e-3, 'what': 'half of the smallest resolution (5e-4)'}


def run(fx, R, tier, cells=1e7, coord=1e3, tol=0.5e-3, what='half of the smallest resolution (5e-4)'):
    QUANT.update({'cells': cells, 'coord': coord, 'tol': tol, 'what': what})
    classes = sorted(q for q in fx.records if q.startswith(NS + 'GridIndexMapping<'))
    if len(classes) != 4:
        R.undecided('X1', 'GridIndexMapping', '%d instantiations (4 expected)' % len(classes))
    R.floor('X1', 8)
    for cq in classes:
        check_class(fx, R, cq)
        check_self_pointers(fx, R, cq)
        check_table_protocol(fx, R, cq)


def check_table_protocol(fx, R, cq):
    """X7: whatever the order of calls, no method reads the centre table of an axis that has not been sized (bounded typestate exploration)"""
    from .. import lazytab
    cname = short_fn(cq)
    dim = int(cq.rstrip('>').split(',')[-1])
    ctors = [f for f in fx.functions.values() if f.get('ctor') and f.get('cls') == cq and len(f['params']) == 2 and 'Interval<' in f['sig']]
    fc, ft = fx.one(cq + '::computeCellCenterPosition'), fx.one(cq + '::getCellCentersPositionAlong')
    if len(ctors) != 1 or fc is None or ft is None:
        R.undecided('X7', cname + ':table-protocol', 'anchor vanished')
        return
    methods = [('getCellCentersPositionAlong(%d)' % a, ft, [a]) for a in range(dim)] + [('computeCellCenterPosition(indexes)', fc, [None])]
    others = [f for f in fx.functions.values() if f.get('cls') == cq and not f.get('ctor') and f.get('body') is not None and f not in (fc, ft) and not f['name'].startswith('~')
              and f.get('access', 'public') == 'public' and any(isinstance(y, dict) and y.get('k') == 'Member' and y.get('name') == 'cellCentersPositionAlongAxes_' for y in walk(f['body']))]
    for f in others:
        methods.append((f['name'] + '(..)', f, [None] * len(f['params'])))
    v = lazytab.explore(fx, cq, 'cellCentersPositionAlongAxes_', dim, ctors[0], methods)
    if v[0] == 'ok':
        R.holds('X7', cname + ':table-protocol', 'every axis is sized before any access in all call sequences up to length 3 over %d entry points (%d abstract states, %d calls interpreted)' % (len(methods), v[1], v[2]),
                fx.rel(ctors[0]['loc']), 'E-STATE')
    elif v[0] == 'violated':
        R.violated('X7', 'GridIndexMapping:table-protocol', '%s: the centre handed out is not that of the cell (out-of-bounds read of an empty table) [%s]' % (v[1], cname), fx.rel(fc['loc']), 'E-STATE')
    else:
        R.undecided('X7', cname + ':table-protocol', v[1])


def check_class(fx, R, cq):
    cname = short_fn(cq)
    scalar = cq.split('<')[1].split(',')[0]
    ctors = [f for f in fx.functions.values() if f.get('ctor') and f.get('cls') == cq and len(f['params']) == 2]
    gen = [f for f in ctors if 'Interval<' in f['sig']]
    symc = [f for f in ctors if 'Interval<' not in f['sig']]
    fi, fc, ft = fx.one(cq + '::computeCellIndexes'), fx.one(cq + '::computeCellCenterPosition'), fx.one(cq + '::getCellCentersPositionAlong')
    if len(gen) != 1 or len(symc) != 1 or None in (fi, fc, ft):
        R.undecided('X1', cname, 'anchor vanished (constructors / computeCellIndexes / computeCellCenterPosition / getCellCentersPositionAlong)')
        return
    g, sc = gen[0], symc[0]
    R.used(g, sc, fi, fc, ft)
    loc = fx.rel(g['loc'])
    l, u, r = sp.symbols('l u res', real=True)
    rp = sp.Symbol('res', positive=True)
    env = {('.lower', 'extrimities'): l, ('.upper', 'extrimities'): u, ('.width', 'extrimities'): u - l, ('.center', 'extrimities'): (u + l) / 2, 'this.cellResolution_': r, 'cellResolution': r}
    st = stmts_sx(g)
    env.update(cast_targets(g['body']))
    for s_ in st:
        if s_[0] == 'decl' and s_[2] is not None and s_[1] not in env:
            v_ = tosym(s_[2], env)
            if v_ is not None:
                env[s_[1]] = v_
    inits = {i.get('field'): deep_unwrap(sx(i['e'])) for i in g['inits'] if i.get('field')}
    for fld_, e_ in inits.items():
        if fld_ and ('this.' + fld_) not in env:
            v_ = tosym(e_, env)
            if v_ is not None:
                env['this.' + fld_] = v_          # members initialised from the arguments (e.g. a stored reciprocal of the resolution)
    R.form(inits.get('cellResolution_') == 'cellResolution', 'X1', cname + ':resolution', 'cellResolution_ initialised with %s' % (inits.get('cellResolution_'),), 'stores the resolution', loc, 'E-STATE')
    origin_s = next((s[1][2] for s in st if s[0] == 'expr' and isinstance(s[1], tuple) and s[1][:2] == ('=', 'this.flooredMinimalPositionAlongAxes_')), None)
    count_s = next((s[1][2] for s in st if s[0] == 'expr' and isinstance(s[1], tuple) and s[1][:2] == ('=', 'this.numberOfCellsAlongAxes_')), None)
    def floor_args(t, acc):
        if isinstance(t, tuple):
            if t and t[0] in ('floor', 'Eigen::floor', 'std::floor') and len(t) == 2:
                acc.append(t[1])
            for x_ in t:
                floor_args(x_, acc)
        return acc
    fo, fcnt = floor_args(origin_s, []), floor_args(count_s, [])
    lower_floor = {str(a_) for a_ in fo + fcnt if 'lower' in str(a_)}
    if len(lower_floor) > 1:
        R.violated('X5', 'GridIndexMapping:first-cell:two-roundings', 'the first cell is obtained from floor(%s) for the origin and from floor(%s) for the cell count: the two arguments are the same real number but '
                   'different floating-point expressions (a product with a rounded reciprocal is not the quotient), so for lower bounds that are exact multiples of the resolution one floor can come out one cell '
                   'lower than the other - the table and the index map are shifted by a cell against the count and the last cell no longer covers the upper bound [%s]' % (
                       sorted(lower_floor)[0], sorted(lower_floor)[1], cname), loc, 'E-INT')
    elif fo and fcnt:
        R.holds('X5', cname + ':first-cell:one-rounding', 'origin and cell count floor the same floating-point expression of the lower bound', loc, 'E-INT')
    for x_ in walk(g['body']):
        if isinstance(x_, dict) and x_.get('k') == 'Ref' and x_.get('rk') == 'global' and x_.get('cv') is not None and not x_.get('mut') and isinstance(x_['cv'], (int, float)):
            env.setdefault(x_['name'], sp.nsimplify(x_['cv'], rational=True))           # a namespace-scope constant the compiler folded
    # every top-level assignment of the two members, in order (a later `count = count.cwiseMin(cap)` or `origin -= ...` is part of the formula)
    origin = count = None
    interp = True
    for s_ in st:
        if s_[0] == 'expr' and isinstance(s_[1], tuple) and len(s_[1]) == 3 and s_[1][0] in ('=', '+=', '-=', '*=', '/=') and s_[1][1] in ('this.flooredMinimalPositionAlongAxes_', 'this.numberOfCellsAlongAxes_'):
            rhs = tosym(s_[1][2] if s_[1][0] == '=' else (s_[1][0][0], s_[1][1], s_[1][2]), env)
            if rhs is None:
                interp = False
                break
            env[s_[1][1]] = rhs
            if s_[1][1].endswith('flooredMinimalPositionAlongAxes_'):
                origin = rhs
            else:
                count = rhs
    if origin is None or count is None or not interp:
        R.undecided('X3', cname + ':formulas', 'origin / cell-count formulas not interpretable: %s ; %s' % (origin_s, count_s))
        return
    witness_grids(fx, R, cname, g, fi, origin, count, env, l, u, r, loc)
    if scalar == 'double':
        floating_cover(fx, R, cname, st, env, loc, g)
    # ---- X1 table and index map ------------------------------------------------------------------
    loops = [x for x in walk(g['body']) if x.get('k') == 'For']
    inner = [L for L in loops if not any(y.get('k') == 'For' for y in walk(L['b']))]
    table_ok = None
    acc_violation = None
    if len(inner) == 1:
        L = inner[0]
        init = L.get('init')
        v = init['vars'][0] if init and init['k'] == 'Decl' and len(init['vars']) == 1 else None
        n = v['name'] if v else 'n'
        body = [deep_unwrap(sx(x['e'])) for x in (L['b']['s'] if L['b']['k'] == 'Compound' else [L['b']]) if x['k'] == 'Expr']
        cond = deep_unwrap(sx(L['c']))
        full = v is not None and const_value(v.get('init')) == 0 and cond == ('<', n, 'numberOfCellsAlongAxis') and deep_unwrap(sx(L['inc'])) == ('u++', n)
        nn = sp.Symbol('n', integer=True, nonnegative=True)
        o_ax = sp.Symbol('origin_axis', real=True)
        env2 = {'flooredMinimalPositionAlongAxis': o_ax, 'this.cellResolution_': r, n: nn}
        stores = [s for s in body if isinstance(s, tuple) and s[0] == '=' and s[1] == ('[]', 'cellCentersPositionAlongAxis', n)]
        carried = [s for s in body if isinstance(s, tuple) and s[0] in ('+=', '-=', '*=') and isinstance(s[1], str) and s[1] != n]
        if carried:
            acc_violation = carried[0]
        if len(stores) == 1 and not carried:
            val = tosym(stores[0][2], env2)
            table_ok = val is not None and sp.simplify(val - (o_ax + (nn + sp.Rational(1, 2)) * r)) == 0 and full
            if val is None:
                table_ok = None
        # aliases
        decls = {s[1]: s[2] for s in stmts_sx(g) if s[0] == 'decl'}
        alias_ok = decls.get('flooredMinimalPositionAlongAxis') == ('[]', 'this.flooredMinimalPositionAlongAxes_', 'dim') and \
            decls.get('cellCentersPositionAlongAxis') == ('[]', 'this.cellCentersPositionAlongAxes_', 'dim') and decls.get('numberOfCellsAlongAxis') == ('[]', 'this.numberOfCellsAlongAxes_', 'dim')
        if table_ok is not None:
            table_ok = table_ok and alias_ok
    # every axis gets its table from the closed-form fill: no other writer of the table, no way round the fill loop
    if len(inner) == 1 and table_ok:
        outer = [L for L in loops if L is not inner[0] and any(y is inner[0] for y in walk(L['b']))]
        other_writes, jumps = [], []
        if len(outer) == 1:
            def scan(node, in_inner):
                if node is inner[0]:
                    return
                k = node.get('k')
                if k in ('Continue', 'Break', 'Return'):
                    jumps.append(k)
                if k == 'Expr':
                    t = deep_unwrap(sx(node['e']))
                    if isinstance(t, tuple) and t and t[0] in ('=', '+=', '-=', '*=', '.swap', '.assign', '.push_back', '.insert') and len(t) > 1:
                        root = t[1]
                        while isinstance(root, tuple) and len(root) > 1:
                            root = root[1]
                        if root in ('cellCentersPositionAlongAxis', 'this.cellCentersPositionAlongAxes_'):
                            other_writes.append(t)
                from ..tree import children
                for ch in children(node):
                    scan(ch, in_inner)
            scan(outer[0]['b'], False)
            oh = outer[0].get('init')
            ov = oh['vars'][0] if oh and oh['k'] == 'Decl' and len(oh['vars']) == 1 else None
            outer_full = ov is not None and const_value(ov.get('init')) == 0 and (lambda c_: isinstance(c_, tuple) and len(c_) == 3 and c_[0] == '<' and c_[1] == ov['name'] and (c_[2] == 'DIM' or c_[2] == int(cq.rstrip('>').split(',')[-1])))(deep_unwrap(sx(outer[0]['c']))) and deep_unwrap(sx(outer[0]['inc'])) in (('u++', ov['name']), ('++u', ov['name']))
        else:
            outer_full = None
        if other_writes:
            foreign = [w for w in other_writes if 'cellCentersPositionAlongAxes_' in str(w[2:]) or 'dim' in str(w[2:])]
            if foreign:
                R.violated('X1', 'GridIndexMapping:centre-table:foreign-axis', 'on some path the centre table of an axis is written from `%s` instead of the closed form of its own origin: the index map '
                           'uses the origin of the axis itself, so for axes with different lower bounds centres and indexes disagree [%s]' % (foreign[0][2:], cname), loc, 'E-STATE')
            else:
                R.undecided('X1', cname + ':centre-table:writers', 'the table has a second writer: %s' % (other_writes[0],))
            table_ok = None
        elif jumps:
            R.undecided('X1', cname + ':centre-table:writers', 'the per-axis loop can leave or skip the closed-form fill (%s)' % jumps)
            table_ok = None
        elif not outer_full:
            R.undecided('X1', cname + ':centre-table:writers', 'the per-axis loop is not `for dim in [0, DIM)`')
            table_ok = None
        else:
            R.holds('X1', cname + ':centre-table:writers', 'the closed-form fill is the only writer of the table and runs for every axis', loc, 'E-STATE')
        if table_ok is None:
            table_ok = 'skip'
    if acc_violation is not None:
        eps = {'float': 5.96e-8, 'double': 1.11e-16}.get(scalar, 1e-16)
        drift = QUANT['cells'] * eps * QUANT['coord']
        if drift > QUANT['tol']:
            R.violated('X2', 'GridIndexMapping:centre-table:accumulated', ('the centre table is filled from a value carried across iterations (%s): for %s and the up to %g cells of the quantifier the rounding '
                       'error grows like n*eps*|coordinate| (about %.3g here) while the tolerance of this property is %s, so centres are no longer spaced by the resolution, no longer map back to their own '
                       'index (the index map uses the closed form) and the last cell no longer covers the bound [%s]') % (acc_violation, scalar, QUANT['cells'], drift, QUANT['what'], cname), loc, 'E-STATE')
        else:
            R.holds('X2', cname + ':centre-table:accumulated', 'accumulated in %s: drift bound %.3g below half the smallest resolution' % (scalar, drift), loc, 'E-STATE')
    elif table_ok is True:
        R.holds('X2', cname + ':centre-table:closed-form', 'entry n is origin + (n + 1/2) res, computed from n alone', loc, 'E-STATE')
        R.holds('X1', cname + ':centre-table', 'centre(n) = origin + (n+1/2) res over n in [0, N)', loc, 'E-ALG')
    elif table_ok == 'skip':
        pass
    elif table_ok is False:
        R.violated('X1', 'GridIndexMapping:centre-table', 'table entry is not origin + (n + 1/2) res over all n in [0, N) [%s]' % cname, loc, 'E-ALG')
    else:
        R.undecided('X1', cname + ':centre-table', 'table fill idiom not recognised')
    idx = stmts_sx(fi)
    want_idx = [('return', ('.cast', ('/', ('-', 'point', 'this.flooredMinimalPositionAlongAxes_'), 'this.cellResolution_')))]
    if idx == want_idx:
        R.holds('X1', cname + '::computeCellIndexes', 'trunc((p - origin)/res) with the same origin and resolution fields as the table', fx.rel(fi['loc']), 'E-ALG')
        # (centre(n) - origin)/res = n + 1/2, centre(n+1) - centre(n) = res : consequences of the two forms
    else:
        R.undecided('X1', cname + '::computeCellIndexes', 'index map idiom not recognised: %s' % (idx,))
    cst = stmts_sx(fc)
    okc = ('expr', ('=', ('()', 'point', 'dim'), ('[]', ('[]', 'this.cellCentersPositionAlongAxes_', 'dim'), ('()', 'cellIndexes', 'dim')))) in cst and ('return', 'point') in cst
    R.form(okc, 'X1', cname + '::computeCellCenterPosition', 'does not read table[dim][indexes(dim)] for every axis: %s' % (cst,), 'reads the centre table per axis', fx.rel(fc['loc']), 'E-SIB')
    R.form(stmts_sx(ft) == [('return', ('[]', 'this.cellCentersPositionAlongAxes_', 'axisDIM'))], 'X1', cname + '::getCellCentersPositionAlong', 'returns %s' % (stmts_sx(ft),), 'exposes the same table',
            fx.rel(ft['loc']), 'E-SIB')
    # ---- X3 margins ---------------------------------------------------------------------------------
    eps_, dl = sp.symbols('eps delta', real=True)

    def margins(lo, hi, ext_lo, ext_hi):
        """(upper margin, lower index) with floor(lo/res) = lo/res - eps, ceil(hi/res) = hi/res + delta."""
        o = origin.subs({l: lo, u: hi}, simultaneous=True)
        N = count.subs({l: lo, u: hi}, simultaneous=True)
        rep = {sp.floor(sp.simplify(lo / r)): lo / r - eps_, sp.ceiling(sp.simplify(hi / r)): hi / r + dl}
        o2 = o.subs(rep)
        N2 = N.subs(rep)
        tr = TRUNC(sp.simplify(lo / r))
        if o2.has(tr) or N2.has(tr):
            # truncation toward zero: floor for a non-negative quotient, ceil (x + slack) for a negative one
            case = TRUNC_CASE[0]
            sub = {tr: lo / r - eps_} if case == 'nonneg' else {tr: lo / r + eps_}
            o2, N2 = o2.subs(sub), N2.subs(sub)
        if any(e_.has(sp.floor) or e_.has(sp.ceiling) or e_.has(TRUNC) for e_ in (o2, N2)):
            return None
        up = sp.simplify(N2 - (ext_hi - o2) / r)
        low = sp.simplify((ext_lo - o2) / r)
        return up, low

    def decide(expr):
        """min over eps, delta in [0,1) of an expression affine in them; returns (infimum, attained)."""
        e = sp.expand(expr)
        a = e.subs({eps_: 0, dl: 0})
        b = sp.simplify(e.coeff(eps_, 1))
        c = sp.simplify(e.coeff(dl, 1))
        if not (a.is_number and b.is_number and c.is_number):
            return None
        inf = a + min(0, b) + min(0, c)
        attained = (b >= 0 and c >= 0)
        return inf, attained
    uses_trunc = origin.has(TRUNC) or count.has(TRUNC)
    if uses_trunc:
        TRUNC_CASE[0] = 'neg'
        mgn = margins(l, u, l, u)
        TRUNC_CASE[0] = 'nonneg'
        if mgn is not None:
            dupn, dlon = decide(mgn[0]), decide(mgn[1])
            if dupn is not None and dlon is not None and not (dupn[0] > 0 and dlon[0] >= 0):
                R.violated('X3', 'GridIndexMapping:interval-form:truncation', 'the first cell is derived from an integer conversion of lower/res, which truncates toward zero: for a NEGATIVE lower bound that is not a '
                           'multiple of the resolution this is ceil, not floor, and in exact arithmetic the lower bound then has real index %s with infimum %s over the slack (upper margin %s): the lower '
                           'bound of the extent falls outside cell 0 / nearby points are further than half a cell from their centre [%s]' % (mgn[1], dlon[0], dupn[0], cname), loc, 'E-ALG')
                return
    mg = margins(l, u, l, u)
    if mg is None:
        R.undecided('X3', cname + ':interval-form', 'floor/ceil terms not of the form floor(l/res), ceil(u/res)')
    else:
        dup, dlo = decide(mg[0]), decide(mg[1])
        if dup is None or dlo is None:
            R.undecided('X3', cname + ':interval-form', 'margins not affine in the floor/ceil slacks: %s ; %s' % mg)
        else:
            R.check(dup[0] > 0 and dlo[0] >= 0, 'X3', 'GridIndexMapping:interval-form:margin',
                    'in exact arithmetic the upper bound of the extent has real index N - (%s) (infimum of the margin %s) and the lower bound has index %s (infimum %s): an in-extent point can get an index '
                    'outside [0, N) [%s]' % (mg[0], dup[0], mg[1], dlo[0], cname), 'upper margin >= %s cells, lower index >= %s [%s]' % (dup[0], dlo[0], cname), loc, 'E-ALG')
    # symmetric form: which interval is handed to the general constructor?
    dlg = [deep_unwrap(sx(i['e'])) for i in sc['inits'] if i.get('delegating')]
    Rg = sp.Symbol('R', positive=True)
    envs = {'maximalRange': Rg, 'cellResolution': r}
    lo_e = hi_e = None
    if len(dlg) == 1 and isinstance(dlg[0], tuple) and len(dlg[0]) == 3 and isinstance(dlg[0][1], tuple) and str(dlg[0][1][0]).startswith('new:Interval<') and dlg[0][2] == 'cellResolution':
        a_, b_ = dlg[0][1][1], dlg[0][1][2]
        if isinstance(a_, tuple) and str(a_[0]).endswith('::Constant') and isinstance(b_, tuple) and str(b_[0]).endswith('::Constant'):
            lo_e, hi_e = tosym(a_[1], envs), tosym(b_[1], envs)
    if lo_e is None or hi_e is None:
        if not dlg and sc.get('body') is not None and symmetric_own_formulas(fx, R, cname, sc, fi, r, fx.rel(sc['loc'])):
            return
        R.undecided('X3', cname + ':symmetric-form', 'delegation of the maximal-range constructor not recognised: %s' % (dlg,))
        return
    mg = margins(lo_e, hi_e, -Rg, Rg)
    if mg is None:
        R.undecided('X3', cname + ':symmetric-form', 'floor/ceil terms not reducible for the delegated interval [%s, %s]' % (lo_e, hi_e))
        return
    dup, dlo = decide(mg[0]), decide(mg[1])
    if dup is None or dlo is None:
        R.undecided('X3', cname + ':symmetric-form', 'margins not affine in the slacks: %s ; %s' % mg)
        return
    R.check(dup[0] > 0 and dlo[0] >= 0, 'X3', 'GridIndexMapping:symmetric-form:margin',
            'the maximal-range constructor builds the grid on [%s, %s]; for the extent [-R, R] the upper bound then has real index N - (%s), whose infimum over the ceil slack is %s: when R is an exact '
            'half-multiple of the resolution the point +R gets index N (one past the last cell) [%s]' % (lo_e, hi_e, mg[0], dup[0], cname),
            'extent [-R, R]: upper margin >= %s cells, lower index >= %s [%s]' % (dup[0], dlo[0], cname), fx.rel(sc['loc']), 'E-ALG')


WITNESS_GRIDS = [(-1, 1, '1/10'), (2, 5, 1), ('-122/100', '127/100', '1/10'), ('-331/100', '338/100', '1/4'), ('35/100', '205/100', '1/10'), ('-53/10', '-22/10', '1/2'),
                 ('-105/100', '105/100', '1/10'), (0, 3, '1/2'), ('126/100', '44/10', '1/4'), ('-7/3', '11/7', '1/3'), ('1/10', '9/10', '1/5'), ('-9/10', '-1/10', '1/5'),
                 ('-7/2', '-3/2', 1), ('-7/4', '-3/4', '1/2'), ('3/2', '7/2', 1), ('-5/2', '5/2', 1), ('1/4', '3/4', '1/2'),
                 # the ends of the quantifier: the finest resolution (1e-3) on a short extent, and extents of millions of cells (up to 1e7, coordinates up to 1e3)
                 # resolutions whose reciprocal is not an integer (bounds that are whole numbers are then not whole numbers of cells)
                 ('-1', '41/20', '7/20'), ('-3', '3/2', '4/5'), ('-32/5', '52/5', '3/2'), ('-2', '5/2', '3/7'), ('1', '4', '7/10'), ('-5', '-1', '6/5'),
                 ('1/200', '3/100', '1/1000'), ('-600', '600', '1/1000'), ('-1000', '1000', '1/4000'), ('250', '1000', '1/10000')]


def _num(e):
    """exact value of an expression of rationals with floor / ceiling / trunc"""
    e = e.replace(lambda x: isinstance(x, sp.core.function.AppliedUndef) and str(x.func) == 'trunc', lambda x: sp.sign(x.args[0]) * sp.floor(sp.Abs(x.args[0])))
    e = e.replace(lambda x: isinstance(x, sp.core.function.AppliedUndef) and str(x.func) == 'roundhalfaway', lambda x: sp.sign(x.args[0]) * sp.floor(sp.Abs(x.args[0]) + sp.Rational(1, 2)))
    if getattr(e, 'is_Rational', False):
        return e
    v = sp.nsimplify(e, rational=True)
    return v if v.is_Rational else None


SYMMETRIC_GRIDS = [('-1', '1', '7/20'), ('-3', '3', '4/5'), ('-2', '2', '3/7'), ('-3/100', '3/100', '1/1000'), ('-600', '600', '1/1000'), ('-1', '1', '1/10'), ('-1003/100', '1003/100', '1/10'), ('-11/8', '11/8', 1), ('-17/5', '17/5', 1), ('-35/16', '35/16', '1/2'), ('-3/2', '3/2', '1/4'), ('-27/10', '27/10', 1),
                   ('-5/2', '5/2', 1), ('-7/4', '7/4', '1/2'), ('-2', '2', '1/3')]


def symmetric_own_formulas(fx, R, cname, sc, fi, r, loc):
    """The maximal-range constructor does not delegate to the interval form: its OWN formulas (what it stores as cell count, origin and table) are evaluated exactly on symmetric witness extents [-R, R]."""
    l, u = sp.Symbol('lower', real=True), sp.Symbol('upper', real=True)
    pn = [p_['name'] for p_ in sc['params']]
    if len(pn) != 2:
        return False
    env = {pn[0]: u, pn[1]: r, 'this.cellResolution_': r}
    st = stmts_sx(sc)
    for i_ in sc.get('inits', []):
        if i_.get('field') == 'cellResolution_':
            v_ = tosym(deep_unwrap(sx(i_['e'])), env)
            if v_ is not None:
                env['this.cellResolution_'] = v_
    origin_s = count_s = None
    for s_ in st:
        if s_[0] == 'decl' and s_[2] is not None:
            v_ = tosym(s_[2], env)
            if v_ is not None:
                env[s_[1]] = v_
        if s_[0] == 'expr' and isinstance(s_[1], tuple) and s_[1][0] in ('.setConstant', '.fill') and len(s_[1]) == 3:
            if s_[1][1] == 'this.numberOfCellsAlongAxes_':
                count_s = s_[1][2]
            if s_[1][1] == 'this.flooredMinimalPositionAlongAxes_':
                origin_s = s_[1][2]
    origin = tosym(origin_s, env) if origin_s is not None else None
    count = tosym(count_s, env) if count_s is not None else None
    if origin is None or count is None:
        return False
    witness_grids(fx, R, cname + ':maximal-range-form', sc, fi, origin, count, env, l, u, r, loc, grids=SYMMETRIC_GRIDS, label='GridIndexMapping:maximal-range-form:witness-grids')
    return True


def witness_grids(fx, R, cname, g, fi, origin, count, env, l, u, r, loc, grids=None, label='GridIndexMapping:witness-grids'):
    """X6: the constructor's own formulas (origin, cell count, table entry) and the index map, evaluated in exact rational arithmetic on witness
    extents (aligned and not, on either side of the origin, half-multiples): spacing of the centres, centre(n) -> n, and for sample points of the
    extent an index inside [0, N) whose centre is within half a resolution."""
    inst = cname + ':witness-grids'
    env = dict(env)
    env['this.flooredMinimalPositionAlongAxes_'] = origin
    env['this.numberOfCellsAlongAxes_'] = count
    st = stmts_sx(g)
    for _ in range(2):
        for s_ in st:
            if s_[0] == 'decl' and s_[2] is not None:
                init = s_[2]
                if isinstance(init, tuple) and len(init) == 3 and init[0] == '[]' and init[2] == 'dim':
                    init = init[1]                 # per-axis alias of a vector quantity
                v_ = tosym(init, env)
                if v_ is not None and s_[1] not in ('n',):
                    env[s_[1]] = v_
    loops = [x for x in walk(g['body']) if x.get('k') == 'For']
    inner = [L for L in loops if not any(y.get('k') == 'For' for y in walk(L['b']))]
    entry = None
    nn = sp.Symbol('n', integer=True, nonnegative=True)
    if len(inner) == 1:
        L = inner[0]
        init = L.get('init')
        v = init['vars'][0] if init and init['k'] == 'Decl' and len(init['vars']) == 1 else None
        n = v['name'] if v else 'n'
        body = [deep_unwrap(sx(x['e'])) for x in (L['b']['s'] if L['b']['k'] == 'Compound' else [L['b']]) if x['k'] == 'Expr']
        stores = [s_ for s_ in body if isinstance(s_, tuple) and s_[0] == '=' and isinstance(s_[1], tuple) and s_[1][0] == '[]' and s_[1][2] == n]
        carried = [s_ for s_ in body if isinstance(s_, tuple) and s_[0] in ('+=', '-=', '*=') and isinstance(s_[1], str) and s_[1] != n]
        full = v is not None and const_value(v.get('init')) == 0 and deep_unwrap(sx(L['inc'])) in (('u++', n), ('++u', n)) and \
            (lambda c_: isinstance(c_, tuple) and c_[0] == '<' and c_[1] == n and tosym(c_[2], env) is not None and sp.simplify(tosym(c_[2], env) - count) == 0)(deep_unwrap(sx(L['c'])))
        if len(stores) == 1 and not carried and full:
            e2 = dict(env)
            e2[n] = nn
            entry = tosym(stores[0][2], e2)
    idx_s = [s_ for s_ in stmts_sx(fi) if s_[0] == 'return']
    p = sp.Symbol('p', real=True)
    ienv = dict(env, point=p, **{'this.cellResolution_': r})
    ienv.update(cast_targets(fi['body']))
    for s_ in stmts_sx(fi):
        if s_[0] == 'decl' and s_[2] is not None and s_[1] not in ienv:
            v_ = tosym(s_[2], ienv)                # a named local of the index map (a tolerance, a reciprocal): read by value
            if v_ is not None:
                ienv[s_[1]] = v_
    index = tosym(idx_s[0][1], ienv) if len(idx_s) == 1 else None
    if entry is None or index is None:
        R.undecided('X6', inst, 'table entry / index map not readable as per-axis formulas (entry %s, index %s)' % (entry is not None, index is not None))
        return
    bad, n_grids, n_pts = None, 0, 0
    for (lo, hi, res) in (grids or WITNESS_GRIDS):
        w = {l: sp.Rational(lo), u: sp.Rational(hi), r: sp.Rational(res)}
        o, N = _num(origin.subs(w)), _num(count.subs(w))
        if o is None or N is None:
            R.undecided('X6', inst, 'origin / count not evaluable on the extent [%s, %s] at resolution %s' % (lo, hi, res))
            return
        what = 'extent [%s, %s] at resolution %s (N = %s cells)' % (lo, hi, res, N)
        if not (N.is_Integer and 0 < N):
            bad = bad or (what, 'the cell count is %s' % N)
            continue
        N = int(N)
        if N > QUANT['cells']:
            continue                               # outside the quantifier
        big = N >= 400                             # a large grid (up to the 1e7 cells of the quantifier): entries are evaluated on demand, not tabulated

        class _Tab(object):
            def __init__(self):
                self.c = {}

            def __getitem__(self, k):
                if k not in self.c:
                    self.c[k] = _num(entry.subs(w).subs(nn, k))
                return self.c[k]
        tab = _Tab()
        ks = list(range(N)) if not big else sorted({0, 1, 2, N // 3, N // 2, N - 3, N - 2, N - 1})
        if any(tab[k] is None for k in ks):
            R.undecided('X6', inst, 'table entry not evaluable on the %s' % what)
            return
        ix = lambda q: _num(index.subs(w).subs(p, q))
        n_grids += 1
        for k in ks:
            if k + 1 < N and tab[k + 1] - tab[k] != w[r]:
                bad = bad or (what, 'centres %d and %d are %s apart, not one resolution' % (k, k + 1, tab[k + 1] - tab[k]))
        for k in ks:
            i_ = ix(tab[k])
            if i_ != k:
                bad = bad or (what, 'the centre %s of cell %d maps to index %s' % (tab[k], k, i_))
        pts = [w[l], w[u]] + [w[l] + (w[u] - w[l]) * sp.Rational(k, 7) for k in range(1, 7)] + [w[u] - w[r] / 3, w[l] + w[r] / 3, w[u] - w[r] * sp.Rational(9, 20)]
        # points a hair inside either border of a few cells (a thousandth of the resolution): they belong to that cell, whatever the resolution is
        for k in sorted({ks[0], ks[len(ks) // 2], ks[-1]}):
            pts += [tab[k] + w[r] / 2 - w[r] / 1024, tab[k] - w[r] / 2 + w[r] / 1024]
        for q in pts:
            if not (w[l] <= q <= w[u]):
                continue
            n_pts += 1
            i_ = ix(q)
            if i_ is None or not (0 <= i_ < N):
                bad = bad or (what, 'the in-extent point %s gets index %s, outside [0, %d)' % (q, i_, N))
            elif tab[int(i_)] is None:
                R.undecided('X6', inst, 'table entry not evaluable on the %s' % what)
                return
            elif abs(q - tab[int(i_)]) > w[r] / 2:
                bad = bad or (what, 'the point %s is %s away from the centre %s of its cell %s (more than half a resolution)' % (q, abs(q - tab[int(i_)]), tab[int(i_)], i_))
    if bad:
        R.violated('X6', label, 'on the %s, evaluating the constructor formulas and the index map exactly: %s [%s]' % (bad[0], bad[1], cname), loc, 'E-STEP')
    else:
        R.holds('X6', inst, '%d witness extents, %d sample points: centres one resolution apart, centre(n) -> n, in-extent points indexed inside [0, N) within half a resolution of their centre' % (n_grids, n_pts), loc, 'E-STEP')


def floating_cover(fx, R, cname, st, env, loc, g=None):
    """X7: the origin and cell-count statements of the interval constructor executed in IEEE double arithmetic (python floats are IEEE doubles; + - * / floor ceil and the truncating integer conversion are the
    same operations) on witness extents whose resolution is not a power of two.  The clause decided is macroscopic, not a rounding statement: the cells [origin, origin + N res] must reach the upper bound and
    start at or below the lower bound.  A count that is an integer only in exact arithmetic (a quotient that should cancel, then a truncating conversion) comes out one short for some of these extents and the last
    cell is missing - a whole cell, whatever the tolerance."""
    import math

    class _No(Exception):
        pass

    def fev(t, e_):
        if isinstance(t, bool):
            raise _No(t)
        if isinstance(t, (int, float)):
            return t
        if isinstance(t, str):
            if t in e_:
                return e_[t]
            raise _No(t)
        if not isinstance(t, tuple) or not t:
            raise _No(t)
        if t in e_ and not isinstance(e_[t], str):
            return e_[t]
        op = t[0]
        if op in ('+', '-', '*', '/') and len(t) == 3:
            a_, b_ = fev(t[1], e_), fev(t[2], e_)
            if op == '/':
                if b_ == 0:
                    raise _No('division by zero')
                if isinstance(a_, int) and isinstance(b_, int):
                    return int(a_ / b_)
                return a_ / b_
            return a_ + b_ if op == '+' else a_ - b_ if op == '-' else a_ * b_
        if op == 'u-' and len(t) == 2:
            return -fev(t[1], e_)
        if op == 'u+' and len(t) == 2:
            return fev(t[1], e_)
        base = str(op).split('::')[-1]
        if base in ('floor', 'ceil', 'round', 'trunc') and len(t) == 2:
            v_ = fev(t[1], e_)
            return float({'floor': math.floor, 'ceil': math.ceil, 'trunc': math.trunc, 'round': lambda x_: math.floor(abs(x_) + 0.5) * (1 if x_ >= 0 else -1)}[base](v_))
        if op == '.cast' and len(t) == 2:
            v_ = fev(t[1], e_)
            tgt = env.get(('cast-target', t))
            if tgt == 'fp':
                return float(v_)
            if tgt == 'int':
                return int(math.trunc(v_))
            raise _No('cast')
        if str(op).startswith('new:') and len(t) == 2:
            return fev(t[1], e_)
        raise _No(t)
    checked = 0
    bad = None
    tables = []
    try:
        for res in (0.1, 0.2, 0.3, 0.05, 0.7, 0.15, 0.025):
            for i_ in range(-40, 41):
                for lo in {i_ * res, round(i_ * res, 9), round((i_ + 0.5) * res, 9)}:
                    for j_, fr_ in ((3, 0.8), (17, 1.0), (6, 0.6)):
                        hi = round(lo + (j_ + fr_) * res, 9)
                        e_ = {('.lower', 'extrimities'): lo, ('.upper', 'extrimities'): hi, ('.width', 'extrimities'): hi - lo, ('.center', 'extrimities'): (hi + lo) / 2, 'this.cellResolution_': res, 'cellResolution': res}
                        for s_ in st:
                            if s_[0] == 'decl' and s_[2] is not None:
                                try:
                                    e_[s_[1]] = fev(s_[2], e_)
                                except _No:
                                    pass
                            if s_[0] == 'expr' and isinstance(s_[1], tuple) and len(s_[1]) == 3 and s_[1][0] in ('=', '+=', '-=', '*=', '/=') and s_[1][1] in ('this.flooredMinimalPositionAlongAxes_', 'this.numberOfCellsAlongAxes_'):
                                e_[s_[1][1]] = fev(s_[1][2] if s_[1][0] == '=' else (s_[1][0][0], s_[1][1], s_[1][2]), e_)
                        o_, n_ = e_['this.flooredMinimalPositionAlongAxes_'], e_['this.numberOfCellsAlongAxes_']
                        checked += 1
                        if j_ == 3 and isinstance(n_, int) and 0 < n_ < 64:
                            tables.append((lo, hi, res, o_, n_))
                        tol_ = 1e-6 * res
                        if not (isinstance(n_, int) and n_ > 0):
                            bad = bad or (lo, hi, res, o_, n_, 'the cell count is %r' % (n_,))
                        elif hi > o_ + n_ * res + tol_:
                            bad = bad or (lo, hi, res, o_, n_, 'the cells end at origin + N res = %.12g, below the upper bound by %.3g of a cell: the last cell the extent needs is missing' % (o_ + n_ * res, (hi - o_ - n_ * res) / res))
                        elif lo < o_ - tol_:
                            bad = bad or (lo, hi, res, o_, n_, 'the first cell starts at %.12g, above the lower bound' % o_)
    except (_No, KeyError) as ex:
        R.undecided('X7', cname + ':cover-in-double', 'origin / count statements not executable in floating point: %s' % (str(ex)[:100],))
        return
    if not bad and g is not None:
        table_in_double(fx, R, cname, g, tables, loc)
    if bad:
        R.violated('X7', 'GridIndexMapping:cover-in-double', 'executing the origin and cell-count statements of the interval constructor in IEEE double arithmetic on the extent [%r, %r] at resolution %r gives origin %r and '
                   'N = %r cells: %s.  In exact arithmetic the same statements give the right count - the expression is an integer only up to the rounding of a quotient / product that does not cancel in floating '
                   'point, and the conversion to the integer count truncates [%s]' % (bad[0], bad[1], bad[2], bad[3], bad[4], bad[5], cname), loc, 'E-STEP')
    else:
        R.holds('X7', cname + ':cover-in-double', 'origin and count executed in IEEE double arithmetic on %d witness extents (resolutions that are not powers of two): the cells reach both bounds' % checked, loc, 'E-STEP')


def table_in_double(fx, R, cname, g, tables, loc):
    """X7, centre table: the per-axis body of the constructor's table loop executed in IEEE double arithmetic (E-STEP, concrete sequence) with the origin and count computed for each witness extent: the table
    must have N entries, entry n = origin + (n + 1/2) res to 1e-6 of a cell.  A fill loop whose stop test compares floating-point positions leaves the last entry unwritten for some extents."""
    import math
    from .. import mini
    outer = [x for x in walk(g['body']) if x.get('k') == 'For' and any(y.get('k') == 'For' for y in walk(x.get('b')))]
    if len(outer) != 1 or not (outer[0].get('init') and outer[0]['init'].get('k') == 'Decl' and len(outer[0]['init']['vars']) == 1):
        return
    dim = outer[0]['init']['vars'][0]['name']
    bad = None
    done = 0
    for (lo, hi, res, o_, n_) in tables:
        S_ = mini.Step(deep_unwrap, index_vars={dim})
        mini.list_hooks(S_, loops=200)
        for nm_, fn_ in (('ceil', math.ceil), ('floor', math.floor)):
            for pre_ in ('', 'std::', 'Eigen::'):
                S_.hooks[pre_ + nm_] = lambda t, env, fn_=fn_, S_=S_: float(fn_(S_.ev(t[1], env)))
        tab = []                 # the axis is abstracted (index_vars): the per-axis table is the member itself
        e_ = {dim: 0, ('.lower', 'extrimities'): lo, ('.upper', 'extrimities'): hi, 'this.cellResolution_': res, 'cellResolution': res, 'this.flooredMinimalPositionAlongAxes_': o_,
              'this.numberOfCellsAlongAxes_': n_, 'this.cellCentersPositionAlongAxes_': tab}
        try:
            S_.run(outer[0]['b'], e_)
        except (mini.Unsupported, mini.Returned, TypeError, KeyError, IndexError, ZeroDivisionError) as ex:
            R.undecided('X7', cname + ':table-in-double', 'table loop not executable in floating point: %s' % (str(ex)[:120],))
            return
        got = tab
        done += 1
        if len(got) != n_:
            bad = bad or (lo, hi, res, o_, n_, 'the table has %d entries for N = %d cells' % (len(got), n_))
            continue
        for k_, v_ in enumerate(got):
            want = o_ + (k_ + 0.5) * res
            if not isinstance(v_, (int, float)) or abs(v_ - want) > 1e-6 * res:
                bad = bad or (lo, hi, res, o_, n_, 'entry %d of the table is %r, the centre of cell %d is %.12g%s' % (k_, v_, k_, want, ' - the entry was never written (the vector is zero-filled by resize)' if v_ == 0 else ''))
                break
    if bad:
        R.violated('X7', 'GridIndexMapping:table-in-double', 'executing the table loop of the interval constructor in IEEE double arithmetic on the extent [%r, %r] at resolution %r (origin %r, N = %r): %s.  The centres '
                   'read back from the table (getCellCentersPositionAlong, computeCellCenterPosition, the ray caster\'s first crossings) are then not one resolution apart and the last cell does not map back to '
                   'its own index [%s]' % (bad[0], bad[1], bad[2], bad[3], bad[4], bad[5], cname), loc, 'E-STEP')
    elif done:
        R.holds('X7', cname + ':table-in-double', 'table loop executed in IEEE double arithmetic on %d witness extents: N entries, entry n = origin + (n + 1/2) res' % done, loc, 'E-STEP')


def check_self_pointers(fx, R, cq):
    rec = fx.records.get(cq)
    cname = short_fn(cq)
    if not rec:
        return
    ptr_fields = [f_['name'] for f_ in rec['fields'] if '*' in f_['t']['s'] and 'function' not in f_['t']['s']]
    if not ptr_fields:
        R.holds('X4', cname + ':self-pointers', 'no data member of pointer type: the compiler-generated copy is a deep copy of the tables', None, 'E-STATE')
        return
    own = [f_['name'] for f_ in rec['fields'] if f_['name'] not in ptr_fields]
    hits = []
    for mth in rec['methods']:
        for g in fx.fn(mth['q']):
            if g.get('body') is None and not g.get('inits'):
                continue
            nodes = list(walk(g['body'])) if g.get('body') is not None else []
            for i_ in g.get('inits', []):
                if i_.get('e') is not None:
                    nodes += list(walk(i_['e']))
            aliases = {}
            for x in nodes:
                if x.get('k') == 'Decl':
                    for v_ in x['vars']:
                        if (v_.get('t') or {}).get('ref') and v_.get('init') is not None:
                            it_ = pp(v_['init'])
                            for o_ in own:
                                if ('this.' + o_) in it_:
                                    aliases[v_['name']] = o_
            for x in nodes:
                if x.get('k') in ('Bin', 'Op') and x.get('op') == '=':
                    l_, r_ = (x.get('l'), x.get('r')) if x['k'] == 'Bin' else (x['args'][0], x['args'][1]) if len(x.get('args', [])) == 2 else (None, None)
                    if l_ is None:
                        continue
                    lt, rt = pp(l_), pp(r_)
                    into_own = any(('this.' + o_) in rt for o_ in own) or any(rt.startswith(a_ + '.') or ('&' + a_) in rt or ('(' + a_ + '.') in rt for a_ in aliases)
                    if any(('this.' + p_) in lt for p_ in ptr_fields) and into_own and ('.data()' in rt or rt.startswith('(&') or '&' in rt):
                        hits.append((g['name'], lt, rt, x.get('loc')))
    if not hits:
        R.undecided('X4', cname + ':self-pointers', 'pointer member(s) %s; what they point to is not recognised' % ptr_fields)
        return
    copies = [m_ for m_ in rec['methods'] if (m_.get('copyctor') or (m_['name'] == 'operator=' and cq.split('<')[0].split('::')[-1] in m_.get('sig', '') and '&&' not in m_.get('sig', '')))]
    implicit = [m_ for m_ in copies if m_.get('implicit')]
    if implicit or len(copies) < 2:
        R.violated('X4', 'GridIndexMapping:self-pointers', 'the member %s is pointed into the object\'s own member (`%s = %s` in %s), and the class relies on the compiler-generated copy operations: a copy keeps '
                   'addressing the SOURCE object\'s table, so once the source is destroyed or reassigned the copy reads freed or foreign memory through it (centres no longer belong to the copy\'s grid) [%s]' % (
                       ptr_fields[0], hits[0][1], hits[0][2], hits[0][0], cname), fx.rel(hits[0][3]) if hits[0][3] else None, 'E-STATE')
    else:
        R.undecided('X4', cname + ':self-pointers', 'pointer member(s) %s into own storage with user-declared copy operations: whether they re-seat the pointers is not decided' % ptr_fields)
