"""C01 - ECEF <-> geodetic conversion: formula clauses (exact algebra on the extracted formulas).

Rules
  F1  forward map lies on the ellipsoid normal: each component is affine in the altitude with a unit coefficient vector n; at
      altitude 0 the point satisfies (X^2+Y^2)/a^2 + Z^2/b^2 = 1 with b^2 = a^2 (1-e2) (e2 as defined by the EarthEllipsoid
      constructor); the ellipsoid gradient there is parallel to n.  Every ellipsoid parameter is the converter's own.
  F2  inverse consistency: substituting the forward map into the inverse's equations gives identities - half-angle longitude
      Y/(X+norm) = tan(lon/2); the latitude update map has the true latitude as a fixed point; height norm/cos(lat) - N = h.
      A path of the inverse whose longitude does not depend on Y on a set of longitudes of non-zero width is a violation.
  F4  stopping tolerance: the latitude iteration contracts with a factor q of about e2 <= 0.0069, so when it stops at |delta| <= tol
      the remaining error is at most tol q/(1-q); the 1e-9 rad claim therefore needs tol <= 1e-9 (1-q)/q = 1.44e-7 (necessary
      condition on the folded constant; the library uses 1e-11); and tol is not below the spacing of doubles at the largest latitude
      (2.2e-16 from 1 rad up) when |delta| <= tol is the only exit - otherwise termination needs an exact fixed point
  F5  definedness: no quotient of the inverse is 0/0 at a point of the quantifier - every division num/den of the extracted formulas is
      evaluated, after substituting the forward map, on exact witness points (latitude 0, +-45, +-89.9 deg; longitude 0, +-90, +-180 deg, 1 rad;
      height 0, -11 km, 100 km); num = den = 0 there means NaN for that input (x/0 with x != 0 is +-inf, harmless under atan)
  F6  hidden state (E-PURE): toECEF / toWGS84 keep nothing in function-local statics or mutable globals unless every input the kept
      value depends on is compared on the path that re-uses it
  F3  ranges: every definition of the returned latitude is an atan(..) value, the longitude is 2*atan(..) (or atan2), and they are
      passed through makeGeodeticCoordinates in (latitude, longitude, altitude) order
Not decided: convergence of the latitude iteration, the 1e-9 rad / 1 mm bounds, finiteness for every input (floating point)."""
import sympy as sp
from .. import sym, vec
from ..tree import sx, walk, pp, strip_casts, const_value
from .C20 import deep_unwrap
from . import geo
from .. import alg

LEVEL = 'other'
UNITS = ['src/geodesy/ECEFConverter.cpp', 'src/geodesy/EarthEllipsoid.cpp', 'src/geodesy/GeodeticCoordinates.cpp']
ENGINES = 'E-ALG + E-INT over romea-facts'
TECHNIQUE = 'tolerance keys of remembered results in the hit-return form (sweep H5), the quantity compared with the iteration tolerance evaluated as the step just taken, factories routing each argument to the field of its name, quotients judged on witness points that take their own path, exits in front of the latitude iteration judged by value on forward-mapped witness points, capped iteration from the closed-form guess and from a start carried over from an earlier call, epilogue freshness (one loop iteration read from a symbolic previous iterate, d altitude / d previous on witness points), sphere definedness of the ellipsoid constants, sweep of every function read (and its in-repo callees) for frozen function-local statics, single precision inside double computations, lossy copy constructors, presence- or argument-keyed member caches, reference members bound to constructor arguments, loop accumulators that are members, members derived in the constructor and not refreshed by setters, results returned by reference to a member buffer, members filled from an argument under a condition that ignores it, hidden non-virtual base members, self-bound reference members, reductions that accumulate in float; stored-result paths of toECEF must compare every input of the formulas (member caches); witness-point definedness of every quotient (no 0/0 in the quantifier), stopping-tolerance bounds, hidden-state (static cache) analysis; formula extraction from the AST (no execution) and exact algebra: ellipsoid/normal identities of the forward map, substitution of the forward map into the inverse equations, range typing of the outputs'
EXPLANATION = ('toECEF is extracted as three exact formulas and checked against the normal-line characterisation; the equations of toWGS84 (longitude, latitude update map, height) '
               'are checked to be identities after substituting the forward map; output ranges follow from the atan forms.')
ASSUMPTIONS = ['exact real arithmetic; cos(lat) > 0, N + h > 0 (quantifier: |lat| <= 89.9 deg, h >= -11 km); 0 <= e2 < 1']
LEVEL_TEXT = ('For every latitude, longitude, height and ellipsoid at once: the forward map is the point on the ellipsoid normal and the inverse solves exactly those equations '
              '(any changed term, sign, swapped sin/cos or foreign ellipsoid leaves a non-zero residual). Convergence and the millimetre/1e-9 rad bounds are floating-point and not decided.')
LEVEL_NOTE = 'Not decided: convergence rate, rounding, finiteness. Trusted: clang front end, extractor, sympy.'

Q = geo.ECEF


WIT = {'lat_deg': (0, 45, -45, sp.Rational(899, 10), -sp.Rational(899, 10)), 'heights': (0, -11000, 100000)}


def run(fx, R, tier, lat_deg=None, heights=None):
    WIT['lat_deg'] = lat_deg or (0, 45, -45, sp.Rational(899, 10), -sp.Rational(899, 10))
    WIT['heights'] = heights or (0, -11000, 100000)
    R.floor('F1', 4)
    R.floor('F2', 4)
    fwd = geo.forward_formulas(fx)
    finv = fx.one(Q + 'toWGS84')
    ell = [f for f in fx.functions.values() if f.get('ctor') and f.get('cls') == 'romea::core::EarthEllipsoid' and len(f['params']) == 2]
    if fwd is None or finv is None or len(ell) != 1:
        R.undecided('F1', 'ECEFConverter', 'anchor vanished or forward map not readable (toECEF / toWGS84 / EarthEllipsoid(a,b))')
        return
    R.used(fwd['fn'], finv, ell[0])
    check_factories(fx, R)
    # paths of toECEF that return without evaluating the formulas: a stored result may only be re-used when every input the
    # formulas depend on is compared with the stored key (member caches survive the call just like statics)
    X, Y, Z, lat, lon, h = (fwd[k] for k in ('X', 'Y', 'Z', 'lat', 'lon', 'alt'))
    deps = {s_ for c_ in (X, Y, Z) for s_ in c_.free_symbols if s_ in (lat, lon, h)}
    for n_, st_ in enumerate(fwd.get('others', [])):
        desc = ' && '.join(('' if c_[2] else '!') + '(' + c_[0] + ')' for c_ in st_.cond)
        compared = set()
        for c_ in st_.cond:
            e_, pol = c_[1], c_[2]
            if isinstance(e_, sp.Basic):
                for at in e_.atoms(sp.Eq, sp.Ne) | ({e_} if isinstance(e_, (sp.Eq, sp.Ne)) else set()):
                    if (isinstance(at, sp.Eq) and pol) or (isinstance(at, sp.Ne) and not pol):
                        names_ = [a_ for a_ in at.args if isinstance(a_, sp.Symbol)]
                        if len(names_) == 2 and any(a_.name.startswith('this.') for a_ in names_):
                            compared |= {a_ for a_ in names_ if a_ in deps}
                if isinstance(e_, sp.And) and pol:
                    for at in e_.args:
                        if isinstance(at, sp.Eq):
                            names_ = [a_ for a_ in at.args if isinstance(a_, sp.Symbol)]
                            if len(names_) == 2 and any(a_.name.startswith('this.') for a_ in names_):
                                compared |= {a_ for a_ in names_ if a_ in deps}
        missing = sorted(s_.name for s_ in deps - compared)
        if missing:
            R.violated('F6', 'ECEFConverter::toECEF:stale-result', 'the path [%s] returns a stored result without evaluating the formulas; they depend on %s, but the path compares only %s with the stored key: '
                       'two calls that differ in `%s` alone get the same point (the stored result survives the call)' % (desc, sorted(s_.name for s_ in deps), sorted(s_.name for s_ in compared) or 'nothing', missing[0]),
                       fx.rel(fwd['fn']['loc']), 'E-PURE')
        else:
            R.undecided('F6', 'ECEFConverter::toECEF:path%d' % n_, 'a path [%s] returns without evaluating the formulas (it compares every input; whether the stored result belongs to the stored key is not decided)' % desc)
    from .. import epure
    for f_ in (fwd['fn'], finv):
        epure.check(fx, R, 'F6', f_, 'ECEFConverter::%s' % f_['name'], fx.rel(f_['loc']), reader_kw={'call_hook': vec.hook})
    loc = fx.rel(fwd['fn']['loc'])
    X, Y, Z, lat, lon, h, a, e2 = (fwd[k] for k in ('X', 'Y', 'Z', 'lat', 'lon', 'alt', 'a', 'e2'))
    # ---- e2 definition ---------------------------------------------------------------
    es = sym.Reader(fx).run(ell[0])
    ok_e = len(es) == 1
    if ok_e:
        A, B = sp.Symbol('arg:A', real=True), sp.Symbol('arg:B', real=True)
        f_ = es[0].fields
        ab_ok = f_.get(('this', 'a')) == A and f_.get(('this', 'b')) == B
        e2v, ev = f_.get(('this', 'e2')), f_.get(('this', 'e'))
        dom_ = lambda s_: (637750000, 638450000) if s_.name == 'arg:A' else (635600000, 637700000) if s_.name == 'arg:B' else None
        if not ab_ok or not isinstance(e2v, sp.Basic) or not isinstance(ev, sp.Basic):
            R.undecided('F1', 'EarthEllipsoid:e2', 'constructor fields not readable: %s' % ({k_: str(v_)[:60] for k_, v_ in f_.items()},))
        else:
            alg.check_zero(R, sp.Matrix([sp.together(e2v - (A ** 2 - B ** 2) / A ** 2), sp.together(ev ** 2 - (A ** 2 - B ** 2) / A ** 2)]), 'F1', 'EarthEllipsoid:e2',
                           'EarthEllipsoid(a,b) does not define e2 = (a^2-b^2)/a^2 and e = sqrt(e2): e2 = %s' % str(e2v)[:160], 'e2 = (a^2 - b^2)/a^2, e = sqrt(e2)', fx.rel(ell[0]['loc']), domain=dom_)
            # the sphere (flattening 0, b == a) is an ellipsoid of the quantifier: e2 must be the finite value 0 there
            bad_s = None
            for nm_, v_ in (('e2', e2v), ('e', ev)):
                try:
                    at = v_.subs(B, A)
                    at = sp.simplify(at) if at.free_symbols else at
                except Exception:
                    at = sp.nan
                lim_ok = at == 0
                if not lim_ok:
                    num_ = v_.subs({A: 6378137, B: 6378137})
                    if num_ in (sp.nan, sp.zoo, sp.oo, -sp.oo) or num_.has(sp.nan) or num_.has(sp.zoo):
                        bad_s = bad_s or (nm_, v_, num_)
            if bad_s:
                R.violated('F1', 'EarthEllipsoid:sphere', 'for the sphere (b == a, flattening 0, named by the quantifier) the constructor evaluates %s = %s to %s: every conversion on that ellipsoid is NaN, '
                           'not a finite value in range' % (bad_s[0], str(bad_s[1])[:140], bad_s[2]), fx.rel(ell[0]['loc']), 'E-INT')
            else:
                R.holds('F1', 'EarthEllipsoid:sphere', 'e2 and e evaluate to finite values for b == a', fx.rel(ell[0]['loc']), 'E-INT')
    else:
        R.undecided('F1', 'EarthEllipsoid:e2', 'constructor forks')
    # ---- F1 ----------------------------------------------------------------------------
    foreign = sorted({s.name for c in (X, Y, Z) for s in c.free_symbols} - {lat.name, lon.name, h.name, a.name, e2.name})
    R.check(not foreign, 'F1', 'ECEFConverter::toECEF:own-ellipsoid', 'the forward map depends on %s besides the point and the converter\'s own ellipsoid: converters built on another ellipsoid are wrong' % foreign,
            'parameters: lat, lon, h, own a and e2 only', loc, 'E-ALG')
    P = sp.Matrix([X, Y, Z])
    n = P.diff(h)
    affine = sp.simplify(P.diff(h, 2)) == sp.zeros(3, 1)
    unit = sp.simplify(n.dot(n) - 1)
    alg.check_zero(R, sp.Matrix(list(P.diff(h, 2)) + [unit]), 'F1', 'ECEFConverter::toECEF:unit-normal', 'components are not affine in the altitude with a unit direction: |n|^2 - 1 = %s' % unit,
                   'P(h) = P0 + h n, |n| = 1', loc)
    P0 = P.subs(h, 0)
    b2 = a ** 2 * (1 - e2)
    onell = sp.simplify((P0[0] ** 2 + P0[1] ** 2) / a ** 2 + P0[2] ** 2 / b2 - 1)
    alg.check_zero(R, onell, 'F1', 'ECEFConverter::toECEF:on-ellipsoid', 'at altitude 0: (X^2+Y^2)/a^2 + Z^2/b^2 - 1 = %s (should vanish)' % onell, 'altitude 0 lies on the ellipsoid', loc)
    grad = sp.Matrix([P0[0] / a ** 2, P0[1] / a ** 2, P0[2] / b2])
    par = sp.simplify(grad.cross(n))
    alg.check_zero(R, par, 'F1', 'ECEFConverter::toECEF:normal-direction', 'ellipsoid gradient x altitude direction = %s (should vanish)' % (par.T.tolist(),),
                   'altitude direction = ellipsoid normal', loc)
    want_n = sp.Matrix([sp.cos(lat) * sp.cos(lon), sp.cos(lat) * sp.sin(lon), sp.sin(lat)])
    alg.check_zero(R, sp.simplify(n - want_n), 'F1', 'ECEFConverter::toECEF:latlon-roles', 'altitude direction is %s, expected (cos lat cos lon, cos lat sin lon, sin lat)' % (n.T.tolist(),),
                   'normal at (lat, lon)', loc)
    check_inverse(fx, R, finv, fwd)


def check_factories(fx, R):
    """F10: the library's own factories of geodetic coordinates (how a caller - and ENUConverter for a 2-D fix - builds the input of toECEF) put every argument in the field it is named after."""
    la, lo, al = sp.Symbol('LAT', real=True), sp.Symbol('LON', real=True), sp.Symbol('ALT', real=True)
    fs = [f for f in fx.functions.values() if f['q'] == 'romea::core::makeGeodeticCoordinates' and f.get('body') is not None]
    for f in sorted(fs, key=lambda f: len(f['params'])):
        R.used(f)
        args = []
        for p_ in f['params']:
            n_ = p_['name'].lower()
            if (p_.get('t') or {}).get('c') == 'rec':
                args.append({'latitude': la, 'longitude': lo})
            elif 'lat' in n_:
                args.append(la)
            elif 'lon' in n_:
                args.append(lo)
            elif 'alt' in n_ or 'height' in n_:
                args.append(al)
            else:
                args = None
                break
        inst = 'makeGeodeticCoordinates(%s)' % ', '.join(p_['name'] for p_ in f['params'])
        if args is None:
            R.undecided('F10', inst, 'a parameter is not named after latitude / longitude / altitude')
            continue
        try:
            sts = sym.Reader(fx).run(f, args=args)
        except sym.Unsupported as u:
            R.undecided('F10', inst, str(u))
            continue
        bad = None
        for st in sts:
            r_ = st.ret if isinstance(st.ret, dict) else None
            if r_ is None:
                bad = bad or ('undecided', 'result not readable as a coordinates record')
                continue
            for fld, want in (('latitude', la), ('longitude', lo), ('altitude', al)):
                if r_.get(fld) != want and want in set().union(*[a_.values() if isinstance(a_, dict) else [a_] for a_ in args]):
                    got = r_.get(fld)
                    bad = ('violated', 'the %s field of the record built by %s receives %s: the arguments are handed over in another order than the scalar factory takes them (latitude, longitude, altitude), so '
                           'a fix built through this overload - the path ENUConverter::toENU(WGS84Coordinates) uses - has its angles exchanged before toECEF() ever sees them' % (
                               fld, inst, {la: 'the LATITUDE argument', lo: 'the LONGITUDE argument', al: 'the ALTITUDE argument'}.get(got, str(got)[:60])))
                    break
        if bad and bad[0] == 'violated':
            R.violated('F10', inst + ':field-routing', bad[1], fx.rel(f['loc']), 'E-SIB')
        elif bad:
            R.undecided('F10', inst, bad[1])
        else:
            R.holds('F10', inst, 'latitude, longitude and altitude each reach the field of their name', fx.rel(f['loc']), 'E-SIB')


def check_inverse(fx, R, f, fwd):
    loc = fx.rel(f['loc'])
    body = f['body']['s']
    loops = [s for s in body if s['k'] in ('While', 'For', 'Do')]
    if len(loops) != 1:
        R.undecided('F2', 'ECEFConverter::toWGS84', '%d top-level loops (one latitude iteration expected)' % len(loops))
        return
    L = loops[0]
    pre, post = body[:body.index(L)], body[body.index(L) + 1:]
    rd = sym.Reader(fx, call_hook=vec.hook)
    ctx = {'this': ('this',), 'fn': f, 'depth': 0}

    def run_block(stmts_, states):
        for s in stmts_:
            nxt = []
            for x in states:
                nxt += rd.ex(s, x, ctx)
            states = nxt
        return states
    try:
        pres = run_block(pre, [sym.State()])
    except sym.Unsupported as u:
        R.undecided('F2', 'ECEFConverter::toWGS84', 'symbolic reader (prologue): %s' % u)
        return
    ids = {}
    for s in walk(f['body']):
        if s.get('k') == 'Decl':
            for v in s['vars']:
                ids.setdefault(v['name'], v['id'])
    X, Y, Z, lat, lon, h, a, e2 = (fwd[k] for k in ('X', 'Y', 'Z', 'lat', 'lon', 'alt', 'a', 'e2'))
    c, s_ = sp.Symbol('c', positive=True), sp.Symbol('s', real=True)
    N = a / sp.sqrt(1 - e2 * sp.sin(lat) ** 2)
    pos = sp.Symbol('NhC', positive=True)      # stands for (N+h) cos(lat) > 0

    def substitute(expr):
        """Substitutes the forward map for the ECEF components and norm := (N+h) cos(lat)."""
        m_ = {}
        for sy in expr.free_symbols:
            if sy.name == 'ecefPosition[0]': m_[sy] = X
            elif sy.name == 'ecefPosition[1]': m_[sy] = Y
            elif sy.name == 'ecefPosition[2]': m_[sy] = Z
            elif sy.name in ('this.ellipsoid_.a',): m_[sy] = a
            elif sy.name in ('this.ellipsoid_.e2',): m_[sy] = e2
        return expr.subs(m_)
    # ---- early exits of the prologue: judged by VALUE on witness points produced by the library's own forward map ------------------------
    exits = [st for st in pres if getattr(st, 'returned', False)]
    pres = [st for st in pres if not getattr(st, 'returned', False)]
    for st in exits:
        desc = ' && '.join(('' if c_[2] else '!') + '(' + c_[0] + ')' for c_ in st.cond)
        ret = st.ret
        comp = {k_: ret.get(k_) for k_ in ('latitude', 'longitude', 'altitude')} if isinstance(ret, dict) else None
        if not comp or not all(isinstance(v_, sp.Basic) for v_ in comp.values()):
            R.undecided('F9', 'ECEFConverter::toWGS84:early-exit[%s]' % desc, 'an exit in front of the iteration returns a value that is not readable')
            continue
        A_, E2_ = sp.Float('6378137.0', 50), sp.Float('0.00669437999014', 50)
        verdict, reached = None, 0
        for lon_w in (sp.Integer(0), sp.Rational(7, 10), -sp.Rational(5, 2), sp.Integer(3)):
            for lat_w in (-sp.Rational(1047, 1000), sp.Rational(3, 10), sp.Rational(4, 5), sp.Integer(0)):
                for h_w in (sp.Integer(0), sp.Integer(350), -sp.Integer(100)):
                    env = {lat: lat_w, lon: lon_w, h: h_w, a: A_, e2: E2_}

                    def num(x_):
                        v_ = substitute(x_).subs(env)
                        bsym = [y_ for y_ in v_.free_symbols if y_.name == 'this.ellipsoid_.b']
                        if bsym:
                            v_ = v_.subs(bsym[0], A_ * sp.sqrt(1 - E2_))
                        return v_
                    ok = True
                    for c_ in st.cond:
                        if not isinstance(c_[1], sp.Basic):
                            ok = None
                            break
                        cv = num(c_[1])
                        if cv not in (sp.true, sp.false):
                            try:
                                cv = sp.simplify(cv)
                            except Exception:
                                pass
                        if cv not in (sp.true, sp.false):
                            ok = None
                            break
                        if bool(cv) != c_[2]:
                            ok = False
                            break
                    if ok is None:
                        verdict = verdict or ('undecided', 'the exit condition is not evaluable on the witness points')
                        continue
                    if not ok:
                        continue
                    reached += 1
                    try:
                        d_lat = abs(sp.N(num(comp['latitude']) - lat_w, 30))
                        d_alt = abs(sp.N(num(comp['altitude']) - h_w, 30))
                    except (TypeError, ValueError):
                        verdict = verdict or ('undecided', 'the returned value is not evaluable on the witness points')
                        continue
                    if not d_lat.is_real or not d_alt.is_real:
                        verdict = verdict or ('undecided', 'the returned value is not evaluable on the witness points')
                    elif d_lat > sp.Float('1.5e-10') or d_alt > sp.Float('1e-3'):
                        verdict = ('violated', 'the point (latitude %s rad, longitude %s rad, height %s m), sent through toECEF, satisfies the exit condition [%s] in front of the latitude iteration, and the exit returns '
                                   'latitude %s rad, height %s m: off by %s rad and %s m (the point is inside the quantifier: e.g. every point of the prime meridian has Y == 0 exactly)' % (
                                       lat_w, lon_w, h_w, desc, sp.N(num(comp['latitude']), 8), sp.N(num(comp['altitude']), 10), sp.N(d_lat, 3), sp.N(d_alt, 3)))
                        break
                if verdict and verdict[0] == 'violated':
                    break
            if verdict and verdict[0] == 'violated':
                break
        if verdict and verdict[0] == 'violated':
            R.violated('F9', 'ECEFConverter::toWGS84:early-exit', verdict[1], loc, 'E-ALG')
        elif verdict:
            R.undecided('F9', 'ECEFConverter::toWGS84:early-exit[%s]' % desc, verdict[1])
        elif reached:
            R.holds('F9', 'ECEFConverter::toWGS84:early-exit[%s]' % desc, 'returns the point\'s own latitude and height on the %d witness points that reach it' % reached, loc, 'E-ALG')
        else:
            R.undecided('F9', 'ECEFConverter::toWGS84:early-exit[%s]' % desc, 'an exit in front of the iteration that none of the witness points of the quantifier reaches: whether any input of the quantifier does is not decided')
    if not pres:
        R.undecided('F2', 'ECEFConverter::toWGS84', 'every path of the prologue returns')
        return
    # ---- longitude -----------------------------------------------------------------------
    for st in pres:
        lonv = st.locals.get(ids.get('longitude'))
        normv = st.locals.get(ids.get('norm'))
        desc = ' && '.join(('' if c_[2] else '!') + '(' + c_[0] + ')' for c_ in st.cond)
        if not isinstance(lonv, sp.Basic) or not isinstance(normv, sp.Basic):
            R.undecided('F2', 'ECEFConverter::toWGS84:longitude', 'longitude / norm not interpretable')
            continue
        nn = sp.simplify(substitute(normv) ** 2 - ((N + h) * sp.cos(lat)) ** 2)
        alg.check_zero(R, nn, 'F2', 'ECEFConverter::toWGS84:norm', 'norm^2 - ((N+h) cos lat)^2 = %s after substituting the forward map' % nn, 'norm = (N+h) cos(lat)', loc)
        ysym = [sy for sy in lonv.free_symbols if sy.name == 'ecefPosition[1]']
        if not ysym:
            # constant (or Y-independent) longitude on this path
            thr = path_width(st)
            if thr == 'zero':
                R.holds('F2', 'ECEFConverter::toWGS84:longitude[%s]' % desc, 'special value %s only on a set of measure zero' % lonv, loc, 'E-ALG')
            elif thr == 'positive':
                R.violated('F2', 'ECEFConverter::toWGS84:longitude:constant-branch', 'on the path [%s] the longitude is %s whatever Y is, and that condition holds on a band of longitudes of non-zero width around the '
                           'antimeridian (threshold scaled by a positive constant): there the sign of Y - east or west of 180 deg - is lost and nearby longitudes are snapped' % (desc, lonv), loc, 'E-ALG')
            else:
                R.undecided('F2', 'ECEFConverter::toWGS84:longitude[%s]' % desc, 'longitude does not depend on Y on this path; width of the path condition not decidable')
            continue
        lv = substitute(lonv).subs(normv if normv.is_Symbol else sp.Symbol('__none__'), (N + h) * sp.cos(lat))
        # expected form 2*atan(q) or atan2(Y, X)
        two, rest = lv.as_coeff_Mul()
        if two == 2 and rest.func == sp.atan:
            q = rest.args[0]
            q = q.subs(substitute(normv), (N + h) * sp.cos(lat))
            q = sp.simplify(q.subs(sp.sqrt(sp.expand(substitute(normv) ** 2)), (N + h) * sp.cos(lat)))
            qq = sp.simplify(replace_norm(q, substitute(normv), (N + h) * sp.cos(lat)))
            res = sp.simplify(sp.trigsimp(qq - sp.sin(lon) / (1 + sp.cos(lon))))
            alg.check_zero(R, res, 'F2', 'ECEFConverter::toWGS84:longitude', 'Y/(X+norm) - tan(lon/2) = %s after substituting the forward map (should vanish)' % res, '2 atan(Y/(X+norm)) = lon', loc)
        elif lv.func == sp.atan2:
            yy, xx = lv.args
            res = sp.simplify(yy * sp.cos(lon) - xx * sp.sin(lon))
            pos_ok = sp.simplify(yy / sp.sin(lon) - (N + h) * sp.cos(lat)) == 0
            alg.check_zero(R, sp.Matrix([res, sp.simplify(yy - (N + h) * sp.cos(lat) * sp.sin(lon))]), 'F2', 'ECEFConverter::toWGS84:longitude', 'atan2(%s, %s) is not the longitude' % (yy, xx), 'atan2(Y, X) = lon', loc)
        else:
            R.undecided('F2', 'ECEFConverter::toWGS84:longitude', 'longitude form not recognised: %s' % lonv)
    # ---- latitude iteration: fixed point ------------------------------------------------------
    st0 = pres[0].copy()
    if ids.get('latitude') is None:
        R.undecided('F2', 'ECEFConverter::toWGS84:latitude', 'no local named latitude')
        return
    init_lat = st0.locals.get(ids['latitude'])
    st0.locals[ids['latitude']] = lat
    try:
        lb = run_block([L['b']], [st0])
    except sym.Unsupported as u:
        R.undecided('F2', 'ECEFConverter::toWGS84:latitude', 'symbolic reader (loop body): %s' % u)
        return
    if len(lb) != 1:
        R.undecided('F2', 'ECEFConverter::toWGS84:latitude', 'loop body forks')
        return
    new_lat = lb[0].locals.get(ids['latitude'])
    normv = pres[0].locals.get(ids.get('norm'))
    if not isinstance(new_lat, sp.Basic) or new_lat.func != sp.atan:
        R.violated('F3', 'ECEFConverter::toWGS84:latitude-range', 'the latitude produced by the iteration is %s, not an atan(..) value: it is not confined to [-pi/2, pi/2]' % new_lat, loc, 'E-INT') \
            if isinstance(new_lat, sp.Basic) else R.undecided('F2', 'ECEFConverter::toWGS84:latitude', 'update not interpretable')
        return
    arg = replace_norm(substitute(new_lat.args[0]), substitute(normv), (N + h) * sp.cos(lat))
    res = sp.simplify(arg - sp.tan(lat))
    alg.check_zero(R, res, 'F2', 'ECEFConverter::toWGS84:latitude-fixed-point', 'with the forward map substituted the update gives tan(lat\') - tan(lat) = %s at the true latitude (should vanish)' % res,
                   'true latitude is a fixed point of the update', loc)
    R.check(isinstance(init_lat, sp.Basic) and init_lat.func == sp.atan, 'F3', 'ECEFConverter::toWGS84:latitude-range', 'initial latitude is %s' % init_lat, 'every latitude definition is an atan value',
            loc, 'E-INT')
    # exit condition monotone in |delta|
    cond = deep_unwrap(sx(L['c']))
    capped = isinstance(cond, tuple) and cond[0] == '&&'
    simple = isinstance(cond, tuple) and cond[0] in ('>', '>=') and cond[1] == 'delta'
    capped_simple = capped and len(cond) == 3 and any(isinstance(p_, tuple) and p_[0] in ('>', '>=') and p_[1] == 'delta' for p_ in cond[1:]) and \
        any(isinstance(p_, tuple) and len(p_) == 3 and p_[0] in ('<', '<=', '!=') and isinstance(p_[1], str) and p_[1] != 'delta' for p_ in cond[1:])
    # what the loop compares with the tolerance must BE the length of the step just taken: |new latitude - previous latitude| (the name `delta` says nothing)
    if (simple or capped_simple) and ids.get('delta') is not None:
        dv = lb[0].locals.get(ids['delta'])
        if isinstance(dv, sp.Basic) and isinstance(new_lat, sp.Basic):
            try:
                wsub = {y_: sp.Float(v_) for y_, v_ in zip(sorted((dv.free_symbols | new_lat.free_symbols), key=str), (0.7312, 1.137, 0.2917, 0.8811, 1.4142, 0.5531, 0.3779, 1.2345, 0.9107, 0.6421))}
                got_d, want_d = sp.N(dv.subs(wsub), 30), sp.N(sp.Abs(new_lat - lat).subs(wsub), 30)
                if got_d.is_real and want_d.is_real:
                    if abs(got_d - want_d) > sp.Float('1e-12') * (1 + abs(want_d)):
                        R.violated('F2', 'ECEFConverter::toWGS84:step-length', 'the quantity the loop compares with its tolerance is `%s`, not |new latitude - previous latitude| (on a witness state it is %s where '
                                   'the step is %s): %s' % (str(dv)[:120], sp.N(got_d, 6), sp.N(want_d, 6),
                                                            'the test stays above the tolerance although the iteration has converged - the loop never ends (or runs to its cap) for latitudes away from the equator'
                                                            if got_d > want_d else 'the loop can stop while the latitude is still moving'), loc, 'E-STEP')
                    else:
                        R.holds('F2', 'ECEFConverter::toWGS84:step-length', 'the tested quantity is |new - previous| latitude', loc, 'E-STEP')
                else:
                    R.undecided('F2', 'ECEFConverter::toWGS84:step-length', 'step length not evaluable on the witness state')
            except (TypeError, ValueError):
                R.undecided('F2', 'ECEFConverter::toWGS84:step-length', 'step length not evaluable on the witness state')
        else:
            R.undecided('F2', 'ECEFConverter::toWGS84:step-length', '`delta` is not assigned a readable value in the loop body')
    if simple:
        R.holds('F2', 'ECEFConverter::toWGS84:loop-exit', 'iterates while delta > tolerance', loc, 'E-STATE')
    elif capped_simple:
        R.holds('F2', 'ECEFConverter::toWGS84:loop-exit', 'iterates while delta > tolerance, at most a fixed number of times (what the cap leaves is decided by F8)', loc, 'E-STATE')
    else:
        R.undecided('F2', 'ECEFConverter::toWGS84:loop-exit', 'loop condition %s is not `delta > tolerance`' % (cond,))
    # ---- F4 stopping tolerance ----------------------------------------------------------------------
    cnode = strip_casts(L['c'])
    tol = const_value(cnode.get('r')) if cnode.get('k') == 'Bin' else None
    if tol is None and capped_simple:
        for y in walk(L['c']):
            if isinstance(y, dict) and y.get('k') == 'Bin' and y.get('op') in ('>', '>=') and strip_casts(y['l']).get('name') == 'delta' and const_value(y.get('r')) is not None:
                tol = const_value(y['r'])
    if tol is None:
        R.undecided('F4', 'ECEFConverter::toWGS84:tolerance', 'stopping tolerance is not a constant the front end folds')
    else:
        q = 0.0069
        bound = 1e-9 * (1 - q) / q
        ulp = 2.220446049250313e-16      # spacing of doubles in [1, 2): latitudes from 57.3 deg upwards (quantifier: up to 89.9 deg)
        if simple and 0 < tol < ulp:
            R.violated('F4', 'ECEFConverter::toWGS84:tolerance-below-resolution', 'the only exit of the latitude iteration is |delta| <= %g, less than the spacing %.3g of doubles for latitudes of 1 rad and more '
                       '(the quantifier goes to 89.9 deg): the test can only be met by an exact fixed point, and when rounding makes the update alternate between two adjacent doubles the loop never ends - '
                       'no result, let alone a finite one' % (tol, ulp), loc, 'E-INT')
        elif simple:
            R.holds('F4', 'ECEFConverter::toWGS84:tolerance-below-resolution', 'tolerance %g is above the spacing of doubles at pi/2 (%.3g)' % (tol, ulp), loc, 'E-INT')
        R.check(0 < tol <= bound, 'F4', 'ECEFConverter::toWGS84:tolerance', 'the iteration stops at |delta| <= %g; with contraction factor about e2 = 0.0069 the latitude error can then reach %.3g rad, above the 1e-9 rad of the statement '
                '(tolerance must not exceed %.3g)' % (tol, tol * q / (1 - q), bound), 'tolerance %g <= %.3g' % (tol, bound), loc, 'E-INT')
    # ---- F8: an iteration with a static cap ----------------------------------------------------------------------------------
    # `i < N && delta > tol`: at most N updates.  The extracted initial guess and update are iterated N times, numerically (50 digits), on the
    # witness points of the quantifier; the latitude then reached must be within 1e-9 rad of the true one.
    capN = None
    if isinstance(cond, tuple) and cond[0] == '&&':
        for part in cond[1:]:
            if isinstance(part, tuple) and len(part) == 3 and part[0] in ('<', '<=', '!=') and isinstance(part[1], str):
                for y in walk(L['c']):
                    if isinstance(y, dict) and y.get('k') == 'Bin' and y.get('op') == part[0] and const_value(y.get('r')) is not None and strip_casts(y['l']).get('name') == part[1]:
                        capN = int(const_value(y['r'])) + (1 if part[0] == '<=' else 0)
    # every initial guess the prologue can leave is iterated; one that is read from a member (`this.x`) carries the result of an EARLIER call: it is then the latitude of another point of the quantifier
    # (0.01 rad = 64 km away, inside the 100 km of the local-frame statement as well)
    inits8 = []
    for st_p in pres:
        v_ = st_p.locals.get(ids['latitude'])
        if isinstance(v_, sp.Basic) and not any(str(v_) == str(u_) for (u_, _d) in inits8):
            inits8.append((v_, ' && '.join(('' if c_[2] else '!') + '(' + c_[0] + ')' for c_ in st_p.cond)))
    for (init8, desc8) in (inits8 if capN is not None else []):
        carried = sorted(y_.name for y_ in init8.free_symbols if y_.name.startswith('this.') and not y_.name.startswith('this.ellipsoid_'))
        if not carried:
            continue
        prevS = sp.Symbol('prevLatitude', real=True)
        st8 = pres[0].copy()
        st8.locals[ids['latitude']] = prevS
        try:
            lb8 = run_block([L['b']], [st8])
            upd = lb8[0].locals.get(ids['latitude']) if len(lb8) == 1 else None
        except sym.Unsupported:
            upd = None
        if not isinstance(upd, sp.Basic):
            R.undecided('F8', 'ECEFConverter::toWGS84:capped-iteration:carried-start', 'the iteration starts from %s and its update is not readable' % carried)
            continue
        worst = None
        try:
            for la in [sp.pi * sp.nsimplify(d) / 180 for d in WIT['lat_deg']]:
                w = {lat: sp.N(la, 50), lon: sp.Float('0.3', 50), h: sp.Float(100, 50), a: sp.Float(6378137, 50), e2: sp.Float('0.00669438', 50)}
                x = w[lat] + sp.Float('0.01', 50)
                f_ = substitute(upd).subs(w)
                for _ in range(capN):
                    x = f_.subs(prevS, x).evalf(50)
                err = abs(float(x - w[lat]))
                if worst is None or err > worst[0]:
                    worst = (err, la)
        except (TypeError, ValueError):
            worst = None
        if worst is None:
            R.undecided('F8', 'ECEFConverter::toWGS84:capped-iteration:carried-start', 'capped iteration from a carried start not evaluable on the witness points')
        elif worst[0] > 1.2e-9:
            R.violated('F8', 'ECEFConverter::toWGS84:capped-iteration:carried-start', 'on the path [%s] the latitude iteration starts from %s - what an EARLIER call left - and runs at most %d times: started from the latitude '
                       'of a point 0.01 rad (64 km) away it is still %.3g rad (about %.2g m) off at latitude %s deg (statement: 1e-9 rad / 1 mm); each pass gains a factor of about 150, so the result of a conversion '
                       'depends on which point was converted before it' % (desc8, ', '.join(carried), capN, worst[0], worst[0] * 6.4e6, sp.N(worst[1] * 180 / sp.pi, 4)), loc, 'E-INT')
        else:
            R.holds('F8', 'ECEFConverter::toWGS84:capped-iteration:carried-start', '%d passes from a start 0.01 rad away leave at most %.2g rad' % (capN, worst[0]), loc, 'E-INT')
    if capN is not None and isinstance(init_lat, sp.Basic):
        prevS = sp.Symbol('prevLatitude', real=True)
        st8 = pres[0].copy()
        st8.locals[ids['latitude']] = prevS
        try:
            lb8 = run_block([L['b']], [st8])
            upd = lb8[0].locals.get(ids['latitude']) if len(lb8) == 1 else None
        except sym.Unsupported:
            upd = None
        alt8 = None
        if isinstance(upd, sp.Basic):
            try:
                Lx = sp.Symbol('reachedLatitude', real=True)
                st_a = lb8[0].copy()
                st_a.locals[ids['latitude']] = Lx
                pa = run_block(post, [st_a])
                alt8 = pa[0].locals.get(ids.get('altitude')) if len(pa) == 1 else None
            except sym.Unsupported:
                alt8 = None
        if isinstance(upd, sp.Basic):
            worst = None
            worst_alt = None
            try:
                for la in [sp.pi * sp.nsimplify(d) / 180 for d in WIT['lat_deg']]:
                    for hh in WIT['heights']:
                        w = {lat: sp.N(la, 50), lon: sp.Float('0.3', 50), h: sp.Float(hh, 50), a: sp.Float(6378137, 50), e2: sp.Float('0.00669438', 50)}
                        x = substitute(init_lat).subs(w).evalf(50)
                        f_ = substitute(upd).subs(w)
                        xp = x
                        for _ in range(capN):
                            xp = x
                            x = f_.subs(prevS, x).evalf(50)
                        err = abs(float(x - w[lat]))
                        if worst is None or err > worst[0]:
                            worst = (err, la, hh)
                        if isinstance(alt8, sp.Basic):
                            av_ = substitute(alt8).subs(w).subs({Lx: x, prevS: xp}).evalf(50)
                            ea = abs(float(av_ - w[h]))
                            if worst_alt is None or ea > worst_alt[0]:
                                worst_alt = (ea, la, hh)
            except (TypeError, ValueError):
                worst = None
            if worst is None:
                R.undecided('F8', 'ECEFConverter::toWGS84:capped-iteration', 'capped iteration not evaluable on the witness points')
            elif worst[0] <= 1.2e-9 and worst_alt is not None and worst_alt[0] > 1.5e-3:
                R.violated('F8', 'ECEFConverter::toWGS84:capped-iteration', 'the latitude iteration runs at most %d times; from the initial guess `%s` the latitude it reaches gives, through the altitude formula, '
                           'a height that is off by %.2g m at latitude %s deg, height %s m (statement: 1 mm): each pass gains only a factor of about 1/e2 = 150 and the altitude amplifies the remaining latitude '
                           'error by (N + h) tan(lat); the cap is too low for the heights of the quantifier (-11 km .. 100 km)' % (
                               capN, str(init_lat)[:100], worst_alt[0], sp.N(worst_alt[1] * 180 / sp.pi, 4), worst_alt[2]), loc, 'E-INT')
            elif worst[0] > 1.2e-9:
                R.violated('F8', 'ECEFConverter::toWGS84:capped-iteration', 'the latitude iteration runs at most %d times; from the initial guess `%s` that leaves a latitude error of %.3g rad at latitude %s deg, '
                           'height %s m (statement: 1e-9 rad; the height follows with (N + h) tan(lat) times that error): each pass gains only a factor of about 1/e2 = 150, so the cap is too low for the heights '
                           'of the quantifier (-11 km .. 100 km)' % (capN, str(init_lat)[:100], worst[0], sp.N(worst[1] * 180 / sp.pi, 4), worst[2]), loc, 'E-INT')
            else:
                R.holds('F8', 'ECEFConverter::toWGS84:capped-iteration', '%d passes from the initial guess leave at most %.2g rad on the witness points' % (capN, worst[0]), loc, 'E-INT')
    # ---- F7: what the epilogue reads is fresh -----------------------------------------------------
    # The loop leaves with |latitude - previous iterate| <= tol, not with equality.  One iteration is read from a symbolic previous iterate
    # `prev`; the epilogue is then read on that state WITHOUT re-synchronising anything, so a value it takes from a local the body computed
    # from `prev` (instead of recomputing it from the returned latitude) shows as a dependence on `prev`.  First-order effect on the altitude:
    # |d altitude / d prev| * tol / (1 - q) at the true latitude, evaluated on the witness points of the quantifier.
    if tol is not None and simple:
        prev = sp.Symbol('prevLatitude', real=True)
        st7 = pres[0].copy()
        st7.locals[ids['latitude']] = prev
        try:
            lb7 = run_block([L['b']], [st7])
            post7 = run_block(post, [x_.copy() for x_ in lb7])
        except sym.Unsupported as u:
            R.undecided('F7', 'ECEFConverter::toWGS84:altitude-freshness', 'symbolic reader: %s' % u)
            post7 = []
        for st in post7:
            altv = st.locals.get(ids.get('altitude'))
            if not isinstance(altv, sp.Basic):
                R.undecided('F7', 'ECEFConverter::toWGS84:altitude-freshness', 'altitude not interpretable')
                continue
            A = substitute(altv)               # evaluated numerically below: no need to rewrite the norm
            dA = sp.diff(A, prev)
            worst = None
            try:
                for la in [sp.pi * sp.nsimplify(d) / 180 for d in WIT['lat_deg']]:
                    for hh in WIT['heights']:
                        laf = sp.N(la, 50)
                        w = {lat: laf, lon: sp.Float('0.3', 50), h: sp.Float(hh, 50), a: sp.Float(6378137, 50), e2: sp.Float('0.00669438', 50), prev: laf}
                        dv = abs(float(dA.subs(w).evalf(30)))
                        err = dv * tol / (1 - 0.0069)
                        if worst is None or err > worst[0]:
                            worst = (err, la, hh, dv)
            except (TypeError, ValueError):
                R.undecided('F7', 'ECEFConverter::toWGS84:altitude-freshness', 'd altitude / d previous-iterate not evaluable on the witness points')
                continue
            stale = sorted(n_ for n_, i_ in ids.items() if n_ not in ('latitude', 'altitude') and isinstance(st.locals.get(i_), sp.Basic) and st.locals[i_].has(prev)
                           and any(y.get('k') == 'Ref' and y.get('id') == i_ for p_ in post for y in walk(p_)))
            if worst[0] > 2e-3 and stale:
                R.violated('F7', 'ECEFConverter::toWGS84:altitude-freshness', 'the altitude is computed from %s, which the loop body evaluated at the PREVIOUS latitude iterate and did not refresh after the last update: '
                           'the loop exits with |latitude - previous| <= %g, not 0, and d altitude / d previous = %.3g m/rad at latitude %s deg, height %s m, so the height is off by up to %.2g m (statement: 1 mm); '
                           'the returned latitude and longitude are unaffected' % (stale, tol, worst[3], sp.N(worst[1] * 180 / sp.pi, 4), worst[2], worst[0]), loc, 'E-INT')
            elif worst[0] > 2e-3:
                R.violated('F7', 'ECEFConverter::toWGS84:altitude-sensitivity', 'the iteration stops at |latitude - previous| <= %g; the altitude norm/cos(lat) - N is evaluated at the returned latitude, whose distance to the '
                           'fixed point the last step still carries, and d altitude / d previous = %.3g m/rad at latitude %s deg, height %s m: the height is off by up to %.2g m (statement: 1 mm) although the '
                           'latitude itself is within 1e-9 rad - the stopping tolerance is too loose for the height clause' % (tol, worst[3], sp.N(worst[1] * 180 / sp.pi, 4), worst[2], worst[0]), loc, 'E-INT')
            elif worst[0] < 5e-4:
                R.holds('F7', 'ECEFConverter::toWGS84:altitude-freshness', 'first-order effect of the last step on the altitude is at most %.2g m on the witness points (the altitude is recomputed from the returned latitude)' % worst[0],
                        loc, 'E-INT')
            else:
                R.undecided('F7', 'ECEFConverter::toWGS84:altitude-freshness', 'first-order effect of the last step on the altitude is %.2g m at latitude %s deg: too close to 1 mm to call' % (worst[0], sp.N(worst[1] * 180 / sp.pi, 4)))
    # ---- altitude -------------------------------------------------------------------------------
    st1 = lb[0].copy()
    st1.locals[ids['latitude']] = lat
    try:
        posts = run_block(post, [st1])
    except sym.Unsupported as u:
        R.undecided('F2', 'ECEFConverter::toWGS84:altitude', 'symbolic reader (epilogue): %s' % u)
        return
    dexprs = [('longitude', st.locals.get(ids.get('longitude')), st.cond) for st in pres] + [('initial latitude', init_lat, []), ('latitude update', new_lat, [])] + \
        [('altitude', st.locals.get(ids.get('altitude')), st.cond) for st in posts]
    nq = check_definedness(R, [(w_, e_, c_) for (w_, e_, c_) in dexprs if isinstance(e_, sp.Basic)], substitute, lat, lon, h, a, e2, loc)
    if nq == 0:
        R.undecided('F5', 'ECEFConverter::toWGS84:quotients', 'no quotient found in the extracted formulas')
    for st in posts:
        altv = st.locals.get(ids.get('altitude'))
        if not isinstance(altv, sp.Basic):
            R.undecided('F2', 'ECEFConverter::toWGS84:altitude', 'altitude not interpretable')
            continue
        av = replace_norm(substitute(altv), substitute(normv), (N + h) * sp.cos(lat))
        res = sp.simplify(av - h)
        alg.check_zero(R, res, 'F2', 'ECEFConverter::toWGS84:altitude', 'altitude - h = %s after substituting the forward map at the true latitude (should vanish)' % res, 'norm/cos(lat) - N = h', loc)
        r = st.ret
        ok = isinstance(r, dict) and r.get('latitude') == lat and isinstance(r.get('longitude'), sp.Basic) and r.get('altitude') == altv
        if isinstance(r, dict):
            lonr = r.get('longitude')
            R.check(bool(ok), 'F3', 'ECEFConverter::toWGS84:result-order', 'result fields are latitude=%s longitude=%s altitude=%s' % (r.get('latitude'), lonr, r.get('altitude')),
                    '(latitude, longitude, altitude) routed to the like-named fields', loc, 'E-STATE')
            two, rest = lonr.as_coeff_Mul() if isinstance(lonr, sp.Basic) else (None, None)
            rng = (two == 2 and rest.func == sp.atan) or (isinstance(lonr, sp.Basic) and lonr.func == sp.atan2) or lonr in (sp.pi, -sp.pi)
            R.check(bool(rng), 'F3', 'ECEFConverter::toWGS84:longitude-range', 'longitude is %s: not of a form confined to [-pi, pi]' % lonr, 'longitude = 2 atan(..) in [-pi, pi]', loc, 'E-INT')
        else:
            R.undecided('F3', 'ECEFConverter::toWGS84:result-order', 'returned value not readable as the three fields: %s' % (r,))


def quotients(expr, acc=None, parent=None):
    """[(numerator, denominator, enclosing function)] for every division below expr (unsimplified reader output)."""
    acc = [] if acc is None else acc
    if not isinstance(expr, sp.Basic):
        return acc
    if expr.is_Mul:
        dens = [a for a in expr.args if a.is_Pow and a.args[1].is_number and a.args[1].is_negative]
        if dens:
            num = sp.Mul(*[a for a in expr.args if a not in dens], evaluate=False) if len(expr.args) > len(dens) else sp.Integer(1)
            for d in dens:
                acc.append((num, d.args[0], parent))
    elif expr.is_Pow and expr.args[1].is_number and expr.args[1].is_negative:
        acc.append((sp.Integer(1), expr.args[0], parent))
    for a in expr.args:
        quotients(a, acc, expr.func if expr.is_Function else parent if expr.is_Mul or expr.is_Pow or expr.is_Add else None)
    return acc


def check_definedness(R, exprs, substitute, lat, lon, h, a, e2, loc):
    wit = []
    for la in [sp.pi * sp.nsimplify(d) / 180 for d in WIT['lat_deg']]:
        for lo in (sp.Integer(0), sp.pi / 2, -sp.pi / 2, sp.pi, -sp.pi, sp.Integer(1)):
            for hh in WIT['heights']:
                wit.append({lat: la, lon: lo, h: hh, a: 6378137, e2: sp.Rational(669438, 10 ** 8)})

    def is_zero(v):
        try:
            return abs(complex(sp.N(v, 60))) < 1e-40
        except (TypeError, ValueError):
            return None
    def on_path(conds, w):
        """True / False / None: do the conditions of the path that defines the expression hold at the witness point?"""
        for c in conds or []:
            if c[0] in ('True', 'False') or not isinstance(c[1], sp.Basic):
                continue
            try:
                v = substitute(c[1]).subs(w)
                if v not in (sp.true, sp.false) and hasattr(v, 'lhs'):
                    v = v.func(sp.N(v.lhs, 40), sp.N(v.rhs, 40))
            except Exception:
                return None
            if v not in (sp.true, sp.false):
                return None
            if bool(v) != c[2]:
                return False
        return True
    seen, n_q = set(), 0
    for item in exprs:
        what, e = item[0], item[1]
        conds = item[2] if len(item) > 2 else []
        for (num, den, ctx) in quotients(e):
            key = (str(num), str(den))
            if key in seen:
                continue
            seen.add(key)
            n_q += 1
            ns, ds = substitute(num), substitute(den)
            bad = inf = None
            unknown = False
            for w in wit:
                op = on_path(conds, w)
                if op is False:
                    continue                     # the branch that forms this quotient is not taken for this point
                if op is None:
                    unknown = True
                    continue
                dz = is_zero(ds.subs(w))
                if dz is None:
                    unknown = True
                    continue
                if dz:
                    nz = is_zero(ns.subs(w))
                    if nz:
                        bad = bad or w
                    elif nz is False:
                        inf = inf or w
                    else:
                        unknown = True
            deg = lambda w: 'latitude %s deg, longitude %s deg, height %s m' % (sp.N(w[lat] * 180 / sp.pi, 5), sp.N(w[lon] * 180 / sp.pi, 5), w[h])
            inst = 'ECEFConverter::toWGS84:%s:(%s)/(%s)' % (what, str(num)[:40], str(den)[:40])
            if bad:
                R.violated('F5', 'ECEFConverter::toWGS84:%s:zero-over-zero' % what, 'the quotient (%s)/(%s) is 0/0 for the point at %s (inside the quantifier): the %s is NaN for that input, '
                           'not a finite value in range' % (num, den, deg(bad), what), loc, 'E-INT')
            elif inf and ctx != sp.atan:
                R.undecided('F5', inst, 'denominator vanishes at %s with a non-zero numerator (+-inf) outside an atan' % deg(inf))
            elif unknown:
                R.undecided('F5', inst, 'not evaluable on the witness points')
            else:
                R.holds('F5', inst, 'never 0/0 on %d witness points%s' % (len(wit), ' (x/0 = +-inf only under atan)' if inf else ''), loc, 'E-INT')
    return n_q


def replace_norm(expr, norm_expr, value):
    """Replaces sqrt(X^2+Y^2) (and its square) by the positive quantity (N+h) cos(lat)."""
    e = expr.subs(norm_expr, value)
    inner = sp.expand(norm_expr ** 2)
    e = e.replace(lambda t: t.is_Pow and t.exp == sp.Rational(1, 2) and sp.simplify(t.base - norm_expr ** 2) == 0, lambda t: value)
    e = e.replace(lambda t: t.is_Pow and t.exp == -sp.Rational(1, 2) and sp.simplify(t.base - norm_expr ** 2) == 0, lambda t: 1 / value)
    return e


def path_width(st):
    """'positive' if the path condition compares X+norm with a strictly positive threshold, 'zero' if with exactly 0."""
    for c in st.cond:
        rel = c[1]
        if not isinstance(rel, (sp.Gt, sp.Ge, sp.Lt, sp.Le, sp.Eq, sp.Ne)):
            continue
        sides = [rel.lhs, rel.rhs]
        for t in sides:
            if t == 0:
                return 'zero'
            coeff, rest = t.as_coeff_Mul()
            if coeff.is_Number and coeff > 0 and coeff < 1e-3 and rest != 1:
                return 'positive'
            if t.is_Number and t > 0:
                return 'positive'
    return None
