"""C14 - ray casting: traversal protocol (Amanatides-Woo).

Rules
  Y1  argmin step (E-ORD, exhaustive): next() is a decision tree over `tMax[i] < tMax[j]`; on every weak order of the crossing
      parameters (3 in 2-D, 13 in 3-D) the leaf taken advances one axis k with tMax[k] minimal, and all four subscripts of
      the leaf (cell index, step, tMax, tDelta) carry that same k
  Y2  the float and double specialisations of next() are identical after erasing the scalar type
  Y3  length/start: the result has computeRayNumberOfCells() = |end - origin|_1 + 1 entries, entry 0 is the origin cell, each
      further entry is written after exactly one next()
  Y4  a cast that specifies its end point re-initialises the traversal state: every field next() reads or writes is assigned for
      every axis on every path of setEndPoint(); cast(end) passes setEndPoint(end) before cast() on every path; cast(origin,end)
      passes setOriginPoint(origin) first
  Y5  initialisation formulas: step = sign(direction) (decided on the cells  <0, =0, >0  of the direction component, plus a witness
      just beyond any other constant the comparison uses), tMax = (cell border in step direction - origin)/direction,
      tDelta = resolution/|direction|; direction = (end - origin)/|end - origin|
  Y6  the centre table the caster reads for its first border crossings (GridIndexMapping): the table rules of C13 (closed form of the
      index, single writer, agreement with the index map, extent margins) evaluated under this rule name with THIS property's sizes
      (2000 cells per axis, coordinates up to 20 at the finest resolution, tolerance 1% of the finest cell: crossing order is at stake)
Not decided: never leaving the grid / only crossed cells / ending in the end cell (depend on the floating-point crossing parameters)."""
import itertools
import sympy as sp
from .. import sym, vec
from ..tree import sx, walk, pp, short_fn, strip_casts, const_value
from .C20 import deep_unwrap

LEVEL = 'other'
UNITS = ['src/containers/grid/RayTracing.cpp', 'src/containers/grid/GridIndexMapping.cpp']
ENGINES = 'E-ORD + E-SIB + E-STATE + E-ALG over romea-facts'
TECHNIQUE = 'cast() executed on concrete sequences for rays of 1, 2, 3 and 6 cells when the loop is not the enumerated one, a static axis needs a sentinel for every origin of the closed cell, crossing parameters compared by value, walks that stop on cell equality stepped on exact corner ties, table reads at origin index +-1 without a bound, parameter aliasing against stored points handed out by reference, fast paths in front of the stepping loop stepped on single-line witness rays, stored origin point by value on every path, index relations in the step witnesses, zero-distance exit recognised as exact; fields cast() reads must be assigned before any early return of setEndPoint(), parametric loop stop decided on border witness rays in exact arithmetic, sweep of every function read (and its in-repo callees) for frozen function-local statics, single precision inside double computations, lossy copy constructors, presence- or argument-keyed member caches, reference members bound to constructor arguments, loop accumulators that are members, members derived in the constructor and not refreshed by setters, results returned by reference to a member buffer, members filled from an argument under a condition that ignores it, hidden non-virtual base members, self-bound reference members, reductions that accumulate in float; early exit of setEndPoint classified (distance bound vs same-cell condition), the table rules of C13 with the sizes of this property; exhaustive evaluation of the extracted next() decision tree on all weak orders of its operands; must-pass-through and state-completeness on setEndPoint/cast; formula extraction for the initialisation'
EXPLANATION = ('The four next() specialisations are read as decision trees and evaluated on every weak order of (tMax0,tMax1[,tMax2]); the cast()/setEndPoint() protocol is checked by '
               'path enumeration (all state next() touches is re-initialised for every axis on every path; setEndPoint dominates cast) and the initialisation formulas by exact algebra.')
ASSUMPTIONS = ['the cell count is taken from the end/origin cell indexes (Y3); geometric exactness of the crossing parameters is floating-point and not decided']
LEVEL_TEXT = ('The traversal protocol holds for every grid, ray and history: argmin stepping with consistent subscripts in all four specialisations (tests only run double), '
              'exact length, and history independence of casts that give an end point. Geometric clauses that depend on rounding of the crossing parameters are not decided.')
LEVEL_NOTE = 'Not decided: in-bounds / only-crossed-cells / end-cell clauses (floating point). Trusted: clang front end, extractor, symbolic reader.'

STATE_FIELDS = ('rayTMax_', 'rayTDelta_', 'rayStep_')


def weak_orders(n):
    """All weak orders of n items as rank tuples (dense ranks starting at 0)."""
    out = set()
    for ranks in itertools.product(range(n), repeat=n):
        used = sorted(set(ranks))
        if used == list(range(len(used))):
            out.add(ranks)
    return sorted(out)


class _Remap6:
    """Forwards C13's verdicts under rule Y6."""

    def __init__(self, R):
        self.R = R

    def holds(self, rule, inst, *a, **k):
        self.R.holds('Y6', '%s[%s]' % (inst, rule), *a, **k)

    def violated(self, rule, inst, *a, **k):
        self.R.violated('Y6', '%s[%s]' % (inst, rule), *a, **k)

    def undecided(self, rule, inst, *a, **k):
        self.R.undecided('Y6', '%s[%s]' % (inst, rule), *a, **k)

    def check(self, cond, rule, inst, *a, **k):
        return self.R.check(cond, 'Y6', '%s[%s]' % (inst, rule), *a, **k)

    def form(self, cond, rule, inst, *a, **k):
        return self.R.form(cond, 'Y6', '%s[%s]' % (inst, rule), *a, **k)

    def used(self, *f):
        self.R.used(*f)

    def floor(self, rule, n):
        pass


def run(fx, R, tier):
    from . import C13
    C13.run(fx, _Remap6(R), tier, cells=2000, coord=20, tol=1e-4, what='1% of the finest cell (1e-4): the order of the border crossings is at stake')
    R.floor('Y1', 32)
    classes = sorted(q for q in fx.records if q.startswith('romea::core::RayCasting<'))
    if len(classes) != 4:
        R.undecided('Y1', 'RayCasting', '%d instantiations found (float/double x 2/3 expected): %s' % (len(classes), classes))
    bodies = {}
    for cq in classes:
        dim = int(cq.rstrip('>').split(',')[-1])
        scalar = cq.split('<')[1].split(',')[0]
        f = fx.one(cq + '::next')
        if f is None:
            R.undecided('Y1', short_fn(cq) + '::next', 'specialisation vanished')
            continue
        R.used(f)
        bodies[(scalar, dim)] = f
        check_next(fx, R, cq, dim, f)
        check_protocol(fx, R, cq, dim)
    for dim in (2, 3):
        a, b = bodies.get(('float', dim)), bodies.get(('double', dim))
        if a is None or b is None:
            continue
        sa = [deep_unwrap(sx(x.get('e') or x.get('c'))) for x in walk(a['body']) if x.get('k') in ('Expr', 'If')]
        sb = [deep_unwrap(sx(x.get('e') or x.get('c'))) for x in walk(b['body']) if x.get('k') in ('Expr', 'If')]
        R.form(sa == sb, 'Y2', 'RayCasting<%d>::next:float-vs-double' % dim, 'the float and double specialisations differ: first difference %s' % (next(((x, y) for x, y in zip(sa, sb) if x != y), (len(sa), len(sb))),),
                'identical after erasing the scalar type', fx.rel(a['loc']), 'E-SIB')


def check_next(fx, R, cq, dim, f):
    cname = short_fn(cq)
    try:
        paths = sym.Reader(fx, call_hook=vec.hook).run(f)
    except sym.Unsupported as u:
        R.undecided('Y1', cname + '::next', 'symbolic reader: %s' % u)
        return
    t = [sp.Symbol('rayTMax_[%d]' % k, real=True) for k in range(dim)]
    # leaves: one axis, same subscript four times
    leaves = []
    for st in paths:
        w = {k[1]: v for k, v in st.fields.items() if not (isinstance(v, sp.Symbol) and v.name in (k[1], '.'.join(k)))}
        axis = None
        ok = len(w) == 2
        for name, v in w.items():
            base, idx = name[:-1].split('[')
            if not idx.isdigit():
                ok = False
                continue
            k = int(idx)
            axis = k if axis is None else axis
            if k != axis:
                ok = False
            if base == 'cellIndexes':
                ok = ok and sp.simplify(v - (sp.Symbol('cellIndexes[%d]' % k, integer=True) + sp.Symbol('rayStep_[%d]' % k, integer=True))) == 0
            elif base == 'rayTMax_':
                ok = ok and sp.simplify(v - (t[k] + sp.Symbol('rayTDelta_[%d]' % k, real=True))) == 0
            else:
                ok = False
        desc = ' && '.join(('' if c[2] else '!') + '(' + c[0] + ')' for c in st.cond)
        if not ok:
            R.violated('Y1', '%s::next:leaf[%s]' % (cname, desc), 'under [%s] the step is %s; expected cellIndexes[k] += rayStep_[k] and rayTMax_[k] += rayTDelta_[k] for one and the same axis k' % (
                desc, {n: str(v) for n, v in w.items()}), fx.rel(f['loc']), 'E-ORD')
        else:
            R.holds('Y1', '%s::next:leaf[%s]' % (cname, desc), 'advances axis %d with consistent subscripts' % axis, fx.rel(f['loc']), 'E-ORD')
        leaves.append((st, axis if ok else None))
    # exhaustive over weak orders
    for ranks in weak_orders(dim):
        asg = {t[k]: sp.Integer(ranks[k]) for k in range(dim)}
        taken = []
        for (st, axis) in leaves:
            truth = True
            for c in st.cond:
                if not isinstance(c[1], sp.Basic):
                    truth = None
                    break
                v = c[1].subs(asg)
                if v not in (sp.true, sp.false):
                    truth = None
                    break
                if bool(v) != c[2]:
                    truth = False
                    break
            if truth is None:
                taken = None
                break
            if truth:
                taken.append(axis)
        inst = '%s::next:order%s' % (cname, ''.join(map(str, ranks)))
        if taken is None or len(taken) != 1:
            R.undecided('Y1', inst, 'weak order %s does not select exactly one leaf (conditions are not pure tMax comparisons?)' % (ranks,))
            continue
        k = taken[0]
        if k is None:
            continue
        R.check(ranks[k] == min(ranks), 'Y1', inst, 'for crossing parameters ordered as ranks %s the traversal advances axis %d although axis %d is crossed first: the next cell is not face-adjacent along the ray' % (
            ranks, k, ranks.index(min(ranks))), 'advances an axis with the smallest crossing parameter', fx.rel(f['loc']), 'E-ORD')


def stmts_sx(f):
    out = []
    for x in walk(f['body']):
        if x.get('k') == 'Expr':
            out.append(('expr', deep_unwrap(sx(x['e']))))
        elif x.get('k') == 'Return':
            out.append(('return', deep_unwrap(sx(x['e'])) if x.get('e') else None))
        elif x.get('k') == 'Decl':
            for v in x['vars']:
                out.append(('decl', v['name'], deep_unwrap(sx(v['init'])) if v.get('init') is not None else None))
        elif x.get('k') in ('While', 'For', 'If', 'Do'):
            out.append((x['k'].lower(), deep_unwrap(sx(x['c'])) if x.get('c') else None))
    return out


def check_protocol(fx, R, cq, dim):
    cname = short_fn(cq)
    casts = fx.fn(cq + '::cast')
    c0 = [f for f in casts if len(f['params']) == 0]
    c1 = [f for f in casts if len(f['params']) == 1]
    c2 = [f for f in casts if len(f['params']) == 2]
    fn_n, fse, fso = fx.one(cq + '::computeRayNumberOfCells'), fx.one(cq + '::setEndPoint'), fx.one(cq + '::setOriginPoint')
    if len(c0) != 1 or len(c1) != 1 or len(c2) != 1 or None in (fn_n, fse, fso):
        R.undecided('Y3', cname, 'anchor vanished (cast x3 / computeRayNumberOfCells / setEndPoint / setOriginPoint)')
        return
    c0, c1, c2 = c0[0], c1[0], c2[0]
    R.used(c0, c1, c2, fn_n, fse, fso)
    # ---- Y3 ----------------------------------------------------------------
    want_n = [('return', ('+', ('.sum', ('.abs', ('-', ('.cast', 'this.rayEndIndexes_'), ('.cast', 'this.rayOriginIndexes_')))), 1))]
    want_n2 = [('return', ('+', ('.sum', ('.abs', ('-', ('.cast', 'this.rayOriginIndexes_'), ('.cast', 'this.rayEndIndexes_')))), 1))]
    got = stmts_sx(fn_n)
    R.form(got in (want_n, want_n2), 'Y3', cname + '::computeRayNumberOfCells', 'cell count is %s, expected |end - origin|_1 + 1 on the cell indexes' % (got,), '|end-origin|_1 + 1',
            fx.rel(fn_n['loc']), 'E-ALG',
            facts=[(got in ([('return', want_n[0][1][1])], [('return', want_n2[0][1][1])]),
                    'the cell count is |end - origin|_1 without the + 1: the walk from the origin cell to the end cell visits |d|_1 + 1 cells, so the end cell is never reported'),
                   (len(got) == 1 and got[0][0] == 'return' and isinstance(got[0][1], tuple) and got[0][1][0] == '+' and got[0][1][1] in (want_n[0][1][1], want_n2[0][1][1]) and isinstance(got[0][1][2], int) and got[0][1][2] != 1,
                    'the cell count is |end - origin|_1 + %s, the walk visits |d|_1 + 1 cells' % (got[0][1][2] if len(got) == 1 and isinstance(got[0][1], tuple) and len(got[0][1]) == 3 else '?'))])
    # fast paths: statements in front of the stepping loop that can return the ray themselves.  Each is stepped (E-STEP, the moving axis as one scalar) on single-line witness rays in both directions;
    # the entries it writes must be origin + n * step.  They are then set aside and the stepping loop is judged as usual.
    c0 = fast_paths(fx, R, cname, c0)
    s0 = stmts_sx(c0)
    vecname = next((s[1] for s in s0 if s[0] == 'decl' and isinstance(s[2], tuple) and str(s[2][0]).startswith('new:std::vector<')), None)
    want0 = [('decl', 'rayNumberOfCells', ('.computeRayNumberOfCells', 'this')),
             ('decl', 'rayCurrentIndexes', 'this.rayOriginIndexes_'), ('decl', 'n', 0),
             ('expr', ('=', ('[]', 'ray', 'n'), 'rayCurrentIndexes')),
             ('while', ('!=', ('u++', 'n'), 'rayNumberOfCells')),
             ('expr', ('.next', 'this', 'rayCurrentIndexes')),
             ('expr', ('=', ('[]', 'ray', 'n'), 'rayCurrentIndexes')),
             ('return', 'ray')]
    got0 = [s for s in s0 if not (s[0] == 'decl' and s[1] == vecname)]
    sized = any(s[0] == 'decl' and s[1] == vecname and len(s[2]) >= 2 and s[2][1] == 'rayNumberOfCells' for s in s0)
    if got0 == want0 and sized and vecname == 'ray':
        R.holds('Y3', cname + '::cast()', 'N entries, entry 0 = origin cell, one next() per further entry', fx.rel(c0['loc']), 'E-STATE')
    else:
        # a cast loop that stops on a comparison of the smallest crossing parameter with the ray length: decided on two axis-aligned witness rays in
        # exact arithmetic, using the initialisation formulas rule Y5 establishes (tMax = (next border - origin) / direction, tDelta = res / |direction|,
        # each next() adds tDelta to the smallest tMax) and the range = |end - origin| stored by setEndPoint
        wl = [s_ for s_ in s0 if s_[0] == 'while' and isinstance(s_[1], tuple) and len(s_[1]) == 3 and s_[1][0] in ('<', '<=') and s_[1][1] == ('.minCoeff', 'this.rayTMax_') and isinstance(s_[1][2], str)]
        rng_field = wl[0][1][2] if len(wl) == 1 else None
        sse = stmts_sx(fse)
        stored_norm = rng_field is not None and any(s_[0] == 'expr' and isinstance(s_[1], tuple) and s_[1][0] == '=' and s_[1][1] == rng_field and isinstance(s_[1][2], tuple) and s_[1][2][0] == '.norm' for s_ in sse)
        pushes = [s_ for s_ in s0 if s_[0] == 'expr' and isinstance(s_[1], tuple) and s_[1][0] in ('.push_back', '.emplace_back')]
        nexts = [s_ for s_ in s0 if s_[0] == 'expr' and isinstance(s_[1], tuple) and s_[1][0] == '.next']
        if len(wl) == 1 and stored_norm and len(pushes) == 2 and len(nexts) == 1:
            from fractions import Fraction as Fr
            import math
            op = wl[0][1][0]
            res = Fr(1, 2)
            bad = None
            for end in (Fr(5, 4), Fr(-5, 4), Fr(1), Fr(-1)):
                # origin at 0 = centre of cell 0 (cells are [k res - res/2, k res + res/2)); ray along the axis
                idx = math.floor((end + res / 2) / res)
                want = abs(idx) + 1
                rng = abs(end)
                t, n_entries = res / 2, 1
                while (t < rng if op == '<' else t <= rng) and n_entries < 50:
                    n_entries += 1
                    t += res
                if n_entries != want:
                    bad = bad or (end, n_entries, want, idx)
            if bad:
                R.violated('Y3', cname.split('<')[0] + '::cast():parametric-stop', 'cast() stops when `%s`: for the axis-aligned ray from a cell centre (0) to %s at resolution 1/2 - an end point exactly on a cell border, '
                           'which the quantifier names - the crossing parameters are 1/4, 3/4, 5/4, ... and the range is %s, so the loop emits %d cells; the index map puts the end point in cell %d, so |end - origin|_1 + 1 = %d '
                           'entries are required (exactly the L1 distance between origin and end cells, plus one)' % (pp(next(x for x in walk(c0['body']) if x.get('k') == 'While')['c']), bad[0], abs(bad[0]), bad[1], bad[3], bad[2]),
                           fx.rel(c0['loc']), 'E-STEP')
            else:
                R.undecided('Y3', cname + '::cast()', 'cast loop stops on a comparison of crossing parameters; it gives the right count on the border witnesses, the general case is a floating-point statement')
        elif until_end_cell(fx, R, cq, cname, c0, s0):
            pass
        elif cast_by_value(fx, R, cname, c0):
            pass
        else:
            R.undecided('Y3', cname + '::cast()', 'cast loop idiom not recognised: %s' % (got0,))
    # ---- Y4 ordering ---------------------------------------------------------
    check_dominates(fx, R, cname + '::cast(end)', c1, [('.setEndPoint', 'this', 'endPoint')], ('.cast', 'this'),
                    'setEndPoint(endPoint)', 'next() advances rayTMax_ during every cast, so the crossing parameters of the previous ray are stale')
    check_dominates(fx, R, cname + '::cast(origin,end)', c2, [('.setOriginPoint', 'this', 'originPoint')], ('.cast', 'this', 'endPoint'),
                    'setOriginPoint(originPoint)', 'setEndPoint reads the origin cell and point')
    so = stmts_sx(fso)
    want_so = [('expr', ('=', 'this.rayOriginPoint_', 'originPoint')),
               ('expr', ('=', 'this.rayOriginIndexes_', ('.computeCellIndexes', 'this.gridIndexMapping_', 'this.rayOriginPoint_')))]
    want_so2 = [want_so[0], ('expr', ('=', 'this.rayOriginIndexes_', ('.computeCellIndexes', 'this.gridIndexMapping_', 'originPoint')))]
    if so in (want_so, want_so2):
        R.holds('Y4', cname + '::setOriginPoint', 'stores the point and its cell', fx.rel(fso['loc']), 'E-STATE')
    else:
        # value rule: on EVERY path the stored origin point is the argument (two different points of one cell are different origins: direction, tMax and tDelta are computed from the point)
        try:
            pths = sym.Reader(fx).run(fso)
        except sym.Unsupported as u:
            pths = None
        verdict = None
        if pths:
            pname = fso['params'][0]['name'] if fso.get('params') else 'originPoint'
            for st_ in pths:
                desc = ' && '.join(('' if c[2] else '!') + '(' + c[0] + ')' for c in st_.cond)
                v_ = st_.fields.get(('this', 'rayOriginPoint_'))
                untouched = v_ is None or (isinstance(v_, sp.Symbol) and v_.name == 'this.rayOriginPoint_')
                if untouched:
                    verdict = ('violated', 'on the path [%s] setOriginPoint() returns without storing the new origin point (the condition compares CELLS, not points): a second origin in the same cell as the '
                               'previous one keeps the previous point, and setEndPoint() computes direction, first-crossing and per-cell parameters from that stale point - the cells reported are those of another '
                               'segment, and the result depends on earlier casts' % desc)
                    break
                if not (isinstance(v_, sp.Symbol) and v_.name == 'arg:' + pname) and str(v_) != 'arg:' + pname:
                    verdict = verdict or ('undecided', 'on the path [%s] the stored origin point is %s' % (desc, str(v_)[:80]))
        if verdict and verdict[0] == 'violated':
            R.violated('Y4', cname.split('<')[0] + '::setOriginPoint:stale-point', verdict[1] + ' [%s]' % cname, fx.rel(fso['loc']), 'E-STATE')
        else:
            R.undecided('Y4', cname + '::setOriginPoint', (verdict[1] if verdict else 'idiom not recognised: %s' % (so,)))
    # ---- Y4 completeness + Y5 formulas -------------------------------------------
    check_set_end_point(fx, R, cq, cname, dim, fse)
    check_parameter_aliasing(fx, R, cq, cname)


def fast_paths(fx, R, cname, c0):
    from .. import mini
    top = c0['body']['s'] if c0.get('body') and c0['body'].get('k') == 'Compound' else []
    wi = next((i_ for i_, x_ in enumerate(top) if x_.get('k') == 'While'), None)
    if wi is None:
        return c0
    fast = [x_ for x_ in top[:wi] if x_.get('k') in ('For', 'If') and any(y_.get('k') == 'Return' for y_ in walk(x_))]
    if not fast:
        return c0
    for fp in fast:
        # the innermost loop that writes ray[n]
        fills = [L_ for L_ in walk(fp) if L_.get('k') == 'For' and L_ is not fp and any(y_.get('k') == 'Expr' and 'ray[' in pp(y_['e']).replace(' ', '') for y_ in walk(L_.get('b')))]
        guard = next((y_ for y_ in walk(fp) if y_.get('k') == 'If' and any(z_ is fills[0] for z_ in walk(y_.get('t')))), None) if fills else None
        verdict = None
        if len(fills) == 1 and guard is not None and fills[0].get('init') and fills[0]['init'].get('k') == 'Decl':
            nvar = fills[0]['init']['vars'][0]['name']
            for (o_, e_, st_) in ((5, 8, 1), (5, 2, -1), (0, 3, 1), (7, 6, -1)):
                N_ = abs(e_ - o_) + 1
                got = []
                try:
                    for n_ in range(N_):
                        S_ = mini.Step(deep_unwrap, index_vars={'axis', nvar})
                        env = {'this.rayStep_': st_, 'this.rayEndIndexes_': e_, 'this.rayOriginIndexes_': o_, 'rayNumberOfCells': N_, nvar: n_, 'axis': 0, 'ray': None}
                        if n_ == 0 and not S_.ev(deep_unwrap(sx(guard['c'])), dict(env)):
                            got = None
                            break
                        S_.run(fills[0]['b'], env)
                        got.append(env.get('ray'))
                except (mini.Unsupported, mini.Returned, TypeError) as e_x:
                    verdict = ('undecided', 'fast path not interpretable: %s' % e_x)
                    break
                if got is None:
                    continue                  # the fast path is not taken for this witness
                want = [o_ + st_ * n_ for n_ in range(N_)]
                if got != want:
                    verdict = ('violated', 'cast() has a fast path (`%s`) for rays confined to one line of cells; stepping it on the ray from cell %d to cell %d of that axis (step %+d, %d cells) it writes the indexes %s; '
                               'the cells the segment crosses are %s: the walk goes the wrong way for a negative direction - cells that the segment does not cross (and, near the border, cells outside the grid) are '
                               'reported and the last entry is not the cell of the end point' % (pp(guard['c'])[:110], o_, e_, st_, N_, got, want))
                    break
            else:
                verdict = verdict or ('holds', 'fast path writes origin + n * step on single-line witness rays in both directions')
        else:
            verdict = ('undecided', 'a statement in front of the stepping loop can return the ray and is not a recognisable fast path')
        if verdict[0] == 'violated':
            R.violated('Y3', cname.split('<')[0] + '::cast():fast-path', verdict[1] + ' [%s]' % cname, fx.rel(fp['loc']), 'E-STEP')
        elif verdict[0] == 'holds':
            R.holds('Y3', cname + '::cast():fast-path', verdict[1], fx.rel(fp['loc']), 'E-STEP')
        else:
            R.undecided('Y3', cname + '::cast():fast-path', verdict[1])
    c1 = dict(c0)
    c1['body'] = dict(c0['body'])
    c1['body']['s'] = [x_ for x_ in top if not any(x_ is f_ for f_ in fast)]
    return c1


def cast_by_value(fx, R, cname, c0):
    """A cast loop in another spelling (push_back, do/while, for): the body of cast() is executed (E-STEP, concrete sequences) with computeRayNumberOfCells() = N and next(c) abstracted as c -> c + 1 on a scalar
    cell, for N = 1, 2, 3, 6.  The returned sequence must be origin, origin + 1, ..., origin + N - 1: N entries, entry 0 the origin cell, one next() per further entry.  N = 1 is the ray inside one cell,
    which the property names.  Returns True when a verdict was given."""
    from .. import mini
    bad = None
    for N in (1, 2, 3, 6):
        S_ = mini.Step(deep_unwrap)
        mini.list_hooks(S_, loops=200)
        S_.hooks['.computeRayNumberOfCells'] = lambda t, env, N=N: N

        def nx(t, env, S_=S_):
            k_ = S_.key(t[2])
            env[k_] = env[k_] + 1
            return None
        S_.hooks['.next'] = nx
        env = {'this.rayOriginIndexes_': 7}
        try:
            got = S_.call(c0['body'], env)
        except (mini.Unsupported, TypeError, KeyError, IndexError) as u:
            if 'outside a sequence' in str(u):
                bad = bad or (N, 'writes outside the %s' % str(u).split('Unsupported')[-1].strip(), None)
                continue
            return False
        want = [7 + k_ for k_ in range(N)]
        if not isinstance(got, list):
            return False
        if got != want:
            bad = bad or (N, 'returns %d entries: cells origin%s' % (len(got), ', '.join('%+d' % (g_ - 7) if isinstance(g_, int) else '?' for g_ in got[:8])), got)
    if bad:
        R.violated('Y3', cname.split('<')[0] + '::cast():count-by-value', 'executing cast() with computeRayNumberOfCells() = %d (next() abstracted as one step along the ray), it %s; the walk must give exactly %d entries, the origin cell '
                   'first and one next() per further entry%s [%s]' % (bad[0], bad[1], bad[0], ' - for a ray inside a single cell the result must be that one cell, here next() is run on it and a neighbour cell the segment '
                                                                 'does not touch is reported' if bad[0] == 1 else '', cname), fx.rel(c0['loc']), 'E-STEP')
    else:
        R.holds('Y3', cname + '::cast()', 'executed with N = 1, 2, 3, 6: N entries, entry 0 = origin cell, one next() per further entry', fx.rel(c0['loc']), 'E-STEP')
    return True


def until_end_cell(fx, R, cq, cname, c0, s0):
    """A cast loop that runs `while (current != end cell)`: next() of the class is stepped (E-STEP, exact rationals; crossing parameters initialised as rule Y5 establishes: (next border - origin) / direction,
    increments res / |direction|) on witness rays whose end point is a cell corner reached with every combination of direction signs.  The walk must emit |end - origin|_1 + 1 cells; with an exact tie at the
    corner next() moves along ONE axis, and if that is not the axis the end cell still needs, the walk passes the end cell diagonally and never equals it.  Returns True when a verdict was given."""
    from fractions import Fraction as Fr
    from .. import mini
    wl = [s_ for s_ in s0 if s_[0] == 'while' and isinstance(s_[1], tuple) and len(s_[1]) == 3 and s_[1][0] == '!=' and 'this.rayEndIndexes_' in s_[1][1:]]
    nexts = [s_ for s_ in s0 if s_[0] == 'expr' and isinstance(s_[1], tuple) and s_[1][0] == '.next']
    fn_next = fx.one(cq + '::next')
    if len(wl) != 1 or len(nexts) != 1 or fn_next is None or fn_next.get('body') is None:
        return False
    dim = int(cq.rstrip('>').split(',')[-1])
    res = Fr(1, 2)
    pn = fn_next['params'][0]['name']
    bad = why = None
    n_ok = 0
    for (sx_, sy_) in ((1, -1), (1, 1), (-1, 1), (-1, -1)):
        end_pt = (sx_ * Fr(5, 4), sy_ * Fr(5, 4))
        import math
        end_cell = [math.floor((e_ + res / 2) / res) for e_ in end_pt] + [0] * (dim - 2)
        want = sum(abs(e_) for e_ in end_cell) + 1
        BIG = Fr(10 ** 30)
        env = {'this.rayTMax_': [res / 2, res / 2] + [BIG] * (dim - 2), 'this.rayTDelta_': [res, res] + [BIG] * (dim - 2), 'this.rayStep_': [sx_, sy_] + [0] * (dim - 2), pn: [0] * dim}
        cells = [list(env[pn])]
        try:
            while env[pn] != end_cell and len(cells) < 40:
                S_ = mini.Step(deep_unwrap)
                S_.call(fn_next['body'], env)
                cells.append(list(env[pn]))
        except (mini.Unsupported, TypeError, KeyError, IndexError) as u:
            why = str(u)[:120]
            break
        if env[pn] != end_cell or len(cells) != want:
            bad = bad or (end_pt, end_cell, cells[:8], want, len(cells))
        else:
            n_ok += 1
    if why:
        R.undecided('Y3', cname + '::cast()', 'cast() walks until the end cell is reached; next() is not steppable: %s' % why)
        return True
    if bad:
        R.violated('Y3', cname.split('<')[0] + '::cast():until-end-cell', 'cast() walks `while (%s)` with no bound on the number of steps.  Stepping next() exactly on the ray from a cell centre (0, 0) to the cell corner '
                   '%s at resolution 1/2 (end cell %s by the index map, |end - origin|_1 + 1 = %d entries): the crossing parameters of the two axes tie at the corner, next() moves along one axis, and the walk goes %s ... - it '
                   '%s.  The bounded walk this replaces stops after exactly the L1 distance, in a cell whose closed extent contains the corner' % (
                       pp(next(x for x in walk(c0['body']) if x.get('k') == 'While')['c'])[:80], tuple(str(v_) for v_ in bad[0]), tuple(bad[1][:2]), bad[3], ' -> '.join(str(tuple(c_[:2])) for c_ in bad[2]),
                       'passes the end cell diagonally and never equals it: the loop does not terminate (indexes leave the grid, the vector grows without bound)' if bad[4] >= 40 else 'emits %d entries' % bad[4]),
                   fx.rel(c0['loc']), 'E-STEP')
    else:
        R.holds('Y3', cname + '::cast()', 'walk until the end cell: reaches it after exactly the L1 distance on the %d corner witnesses (all direction signs, exact ties)' % n_ok, fx.rel(c0['loc']), 'E-STEP')
    return True


def crossing_equal_by_value(tm, td, d, val, want, o_sym, c_sym, res_atoms):
    """tMax and tDelta written in another spelling (copysign, abs ...): compared by value with (centre + step*res/2 - origin)/direction and res/|direction| on witness origins and resolutions."""
    try:
        for rv in (sp.Rational(1, 10), sp.Integer(1), sp.Rational(7, 3)):
            for (ov, cv) in ((sp.Rational(1, 50), sp.Integer(0)), (sp.Rational(-2, 5), sp.Rational(1, 3)), (sp.Rational(37, 10), sp.Rational(15, 4))):
                sub = {d: sp.nsimplify(val), o_sym: ov * rv + cv, c_sym: cv}
                sub.update({a_: rv for a_ in res_atoms(tm) + res_atoms(td)})
                g1, g2 = sp.nsimplify(tm.subs(sub)), sp.nsimplify(td.subs(sub))
                w1 = (cv + want * rv / 2 - (ov * rv + cv)) / sp.nsimplify(val)
                w2 = rv / abs(sp.nsimplify(val))
                if not (g1.is_number and g2.is_number) or sp.simplify(g1 - w1) != 0 or sp.simplify(g2 - w2) != 0:
                    return False
        return True
    except Exception:
        return False


def check_parameter_aliasing(fx, R, cq, cname):
    """Y6: the caster hands out its stored points by const reference (getOriginPoint(), getEndPoint()), so a point argument of a later call may BE one of those members.  In every public member function, a
    by-reference point parameter must not be read after a stored point it may alias has been given another value (directly, or by a member function called in between): the result must be that of the two
    points the caller passed, as a fresh caster would give."""
    rec = fx.records.get(cq) or {}
    meths = {}
    for mth in rec.get('methods', []):
        for g in fx.fn(mth['q']):
            if g.get('body') is not None and g.get('sig') == mth.get('sig'):
                meths[(mth['name'], mth.get('sig'))] = g
    # members handed out by reference
    exposed = {}
    for g in meths.values():
        rt = g.get('ret') or {}
        if not (rt.get('ref') or (rt.get('s') or '').rstrip().endswith('&')) or g.get('params'):
            continue
        rs = [y for y in walk(g['body']) if y.get('k') == 'Return' and y.get('e') is not None]
        if len(rs) == 1:
            e0 = strip_casts(rs[0]['e'])
            if e0.get('k') == 'Member' and e0.get('field') and e0.get('cls') == cq:
                exposed[e0['name']] = (g['name'], (e0.get('t') or {}).get('s', '').replace('const ', '').strip())

    def direct_writes(g):
        """[(member name, index of the parameter it is assigned from or None)] for whole-member stores of g"""
        out = []
        pidx = {p_['id']: n_ for n_, p_ in enumerate(g.get('params', []))}
        for y in walk(g['body']):
            if (y.get('k') == 'Bin' and y.get('op') == '=') or (y.get('k') == 'Op' and y.get('op') == '=' and len(y.get('args', [])) == 2):
                l_, r_ = (y['l'], y['r']) if y.get('k') == 'Bin' else (y['args'][0], y['args'][1])
                l0, r0 = strip_casts(l_), strip_casts(r_)
                if l0.get('k') == 'Member' and l0.get('field') and l0.get('cls') == cq:
                    out.append((l0['name'], pidx.get(r0.get('id')) if r0.get('k') == 'Ref' else None))
        return out

    def call_writes(call, depth=0):
        """members written by an in-class call, with the ARGUMENT node they are assigned from (when it is a plain copy of a parameter)"""
        g = fx.functions.get(call.get('fk')) if call.get('fk') else None
        if g is None or g.get('body') is None or g.get('cls') != cq or depth > 2:
            return []
        out = []
        for (m_, k_) in direct_writes(g):
            out.append((m_, call['args'][k_] if k_ is not None and k_ < len(call.get('args', [])) else None))
        for y in walk(g['body']):
            if y.get('k') == 'MCall' and y.get('inrepo') and y.get('fk') and strip_casts(y.get('obj') or {}).get('k') == 'This':
                for (m_, a_) in call_writes(y, depth + 1):
                    # the argument of the inner call is meaningful only if it is a parameter of g passed through
                    a0 = strip_casts(a_) if a_ is not None else None
                    k2 = next((n_ for n_, p_ in enumerate(g.get('params', [])) if a0 is not None and a0.get('k') == 'Ref' and a0.get('id') == p_['id']), None)
                    out.append((m_, call['args'][k2] if k2 is not None and k2 < len(call.get('args', [])) else None))
        return out
    n_checked = 0
    for (name, sig), f in sorted(meths.items()):
        if f.get('ctor') or (f.get('access') or 0) != 0 or f['body'].get('k') != 'Compound':
            continue
        refs = [p_ for p_ in f.get('params', []) if (p_.get('t') or {}).get('ref') and (p_.get('t') or {}).get('const')]
        if not refs:
            continue
        for p_ in refs:
            ptype = (p_['t'].get('s') or '').replace('const ', '').replace('&', '').strip()
            cands = {m_ for m_, (acc_, mt_) in exposed.items() if mt_.replace('&', '').strip() == ptype}
            if not cands:
                continue
            n_checked += 1
            overwritten = {}           # member -> statement that gave it a value that is not this parameter
            bad = None
            for stm in f['body']['s']:
                reads_p = any(y.get('k') == 'Ref' and y.get('id') == p_['id'] for y in walk(stm))
                if reads_p and overwritten:
                    m_ = sorted(overwritten)[0]
                    bad = (m_, overwritten[m_], stm)
                    break
                # writes of this statement
                for y in walk(stm):
                    if (y.get('k') == 'Bin' and y.get('op') == '=') or (y.get('k') == 'Op' and y.get('op') == '=' and len(y.get('args', [])) == 2):
                        l_, r_ = (y['l'], y['r']) if y.get('k') == 'Bin' else (y['args'][0], y['args'][1])
                        l0, r0 = strip_casts(l_), strip_casts(r_)
                        if l0.get('k') == 'Member' and l0.get('name') in cands and not (r0.get('k') == 'Ref' and r0.get('id') == p_['id']):
                            overwritten.setdefault(l0['name'], stm)
                    if y.get('k') == 'MCall' and y.get('inrepo') and strip_casts(y.get('obj') or {}).get('k') == 'This':
                        for (m_, a_) in call_writes(y):
                            a0 = strip_casts(a_) if a_ is not None else None
                            if m_ in cands and not (a0 is not None and a0.get('k') == 'Ref' and a0.get('id') == p_['id']):
                                overwritten.setdefault(m_, stm)
            inst = '%s::%s:%s' % (cname, name + ('(%d args)' % len(f['params'])), p_['name'])
            if bad:
                R.violated('Y6', '%s::%s:parameter-aliasing:%s' % (cname.split('<')[0], name, p_['name']), '`%s` is taken by const reference and read (in `%s`) after `%s` has given the stored member %s another '
                           'value; %s() hands that member out by const reference, so a caller passing `caster.%s()` as `%s` (for the ray caster: a ray from a new point back to / onwards from the stored one) has its '
                           'argument changed under it before it is used: the result is not that of the arguments passed (a fresh object given the same arguments answers differently) [%s]' % (
                               p_['name'], pp(bad[2].get('e') or bad[2])[:70], pp(bad[1].get('e') or bad[1])[:70], bad[0], exposed[bad[0]][0], exposed[bad[0]][0], p_['name'], cname), fx.rel(f['loc']), 'E-STATE')
            else:
                R.holds('Y6', inst, 'not read after a stored point it may alias (%s) is given another value' % ', '.join(sorted(cands)), fx.rel(f['loc']), 'E-STATE')
    if not n_checked:
        R.undecided('Y6', cname + ':parameter-aliasing', 'no by-reference point parameter / no stored point handed out by reference found')


def check_dominates(fx, R, inst, f, must, then, what, why):
    """Every path from entry to the (single) return passes the calls in `must` (unconditionally, in order) before `then`."""
    top = [x for x in (f['body']['s'] if f['body']['k'] == 'Compound' else [f['body']])]
    seq = []
    cond_calls = []
    for x in top:
        if x['k'] == 'Expr':
            seq.append(deep_unwrap(sx(x['e'])))
        elif x['k'] == 'Return':
            seq.append(('return', deep_unwrap(sx(x['e']))))
        elif x['k'] == 'If':
            seq.append(('if', deep_unwrap(sx(x['c']))))
            for y in walk(x):
                if y.get('k') in ('Expr',):
                    cond_calls.append(deep_unwrap(sx(y['e'])))
        elif x['k'] == 'Decl':
            for v in x['vars']:
                seq.append(('decl', v['name'], deep_unwrap(sx(v['init'])) if v.get('init') is not None else None))
        else:
            seq.append((x['k'],))
    # local copies of a parameter made in front of the calls (`const PointType end = endPoint;`) stand for that parameter
    copies = {s_[1]: s_[2] for s_ in seq if isinstance(s_, tuple) and s_[0] == 'decl' and isinstance(s_[2], str)}
    if copies:
        def ren(t):
            if isinstance(t, str):
                return copies.get(t, t)
            if isinstance(t, tuple):
                return tuple(ren(y_) for y_ in t)
            return t
        seq = [ren(s_) for s_ in seq if not (isinstance(s_, tuple) and s_[0] == 'decl' and s_[1] in copies)]
    ok = seq == must + [('return', then)]
    if ok:
        R.holds('Y4', inst, '%s dominates the traversal' % what, fx.rel(f['loc']), 'E-STATE')
        return
    skipped = [c for c in cond_calls if c in must]
    uncond = [s for s in seq if s in must]
    if skipped and not uncond:
        R.violated('Y4', inst + ':conditional-init', '%s is executed only under a condition (%s): on the other path the cast runs on the state left by earlier casts - %s' % (
            what, [s[1] for s in seq if s[0] == 'if'], why), fx.rel(f['loc']), 'E-STATE')
    elif not uncond and not skipped and any(s == ('return', then) or (isinstance(s, tuple) and s[0] == 'return') for s in seq) and not any(s[0] == 'expr' for s in seq if isinstance(s, tuple)):
        R.violated('Y4', inst + ':missing-init', '%s is not called before the traversal: %s' % (what, why), fx.rel(f['loc']), 'E-STATE')
    else:
        R.undecided('Y4', inst, 'call sequence not recognised: %s' % (seq,))


def check_set_end_point(fx, R, cq, cname, dim, f):
    loops = [x for x in walk(f['body']) if x.get('k') == 'For']
    if len(loops) != 1:
        R.undecided('Y4', cname + '::setEndPoint', '%d loops (one per-axis loop expected)' % len(loops))
        return
    L = loops[0]
    init = L.get('init')
    v = init['vars'][0] if init and init['k'] == 'Decl' and len(init['vars']) == 1 else None
    cond = strip_casts(L['c'])
    full = v is not None and const_value(v.get('init')) == 0 and cond.get('k') == 'Bin' and cond['op'] == '<' and const_value(cond['r']) == dim \
        and strip_casts(cond['l']).get('id') == v['id'] and deep_unwrap(sx(L['inc'])) in (('u++', v['name']),)
    R.form(full, 'Y4', cname + '::setEndPoint:axes', 'the initialisation loop does not run over all %d axes: %s; %s' % (dim, pp(L['c']), pp(L['inc'])), 'loop over all axes', fx.rel(L['loc']), 'E-STATE')
    iv = v['name'] if v else 'i'
    rd = sym.Reader(fx, call_hook=vec.hook)
    st0 = sym.State()
    ctx = {'this': ('this',), 'fn': f, 'depth': 0}
    try:
        # statements before the loop (direction, origin cell centre)
        pre = []
        for s in f['body']['s']:
            if s is L:
                break
            pre.append(s)
        states = [st0]
        for s in pre:
            nxt = []
            for x in states:
                nxt += rd.ex(s, x, ctx)
            states = nxt
        early = [x for x in states if x.returned]
        if early and len(states) - len(early) == 1:
            # a path that leaves before the per-axis initialisation: legitimate only if its condition establishes that origin and end are in
            # the same cell (equal cell indexes, or coincident points); a bound on the DISTANCE does not (two points closer than one cell
            # can sit on both sides of a border)
            for x in early:
                desc = ' && '.join(('' if c[2] else '!') + '(' + c[0] + ')' for c in x.cond)
                idx_cmp = any('Indexes' in c[0] for c in x.cond)
                dist = [c for c in x.cond if isinstance(c[1], (sp.Lt, sp.Le, sp.Gt, sp.Ge)) and not idx_cmp]
                exact = [c for c in x.cond if isinstance(c[1], (sp.Eq,)) or (isinstance(c[1], sp.Ne) and not c[2])]
                steps_zero = all(x.fields.get(('this', 'rayStep_[%d]' % k_)) in (0, None) for k_ in range(dim)) or any('rayStep_' in '.'.join(map(str, p_)) for p_ in x.fields)
                # a comparison of the distance with ZERO (`!(range > 0)`, `range <= 0`, `range == 0`) is the exact coincidence of the two points
                def zero_cmp(c):
                    e_ = c[1]
                    pol = c[2]
                    while isinstance(e_, sp.Not):
                        e_, pol = e_.args[0], not pol
                    if not isinstance(e_, (sp.Lt, sp.Le, sp.Gt, sp.Ge)) or 0 not in (e_.lhs, e_.rhs):
                        return False
                    other_small = (isinstance(e_, (sp.Le, sp.Lt)) and e_.rhs == 0) or (isinstance(e_, (sp.Ge, sp.Gt)) and e_.lhs == 0)      # quantity <(=) 0
                    return other_small == pol
                coincident = [c for c in dist if zero_cmp(c)] + [c for c in x.cond if isinstance(c[1], sp.Not) and zero_cmp(c)]
                if coincident and not [c for c in dist if not zero_cmp(c)]:
                    dist, exact = [], coincident
                if (exact or idx_cmp) and not dist:
                    # an exact early exit is only right if everything cast() reads afterwards has been refreshed before it
                    stale = [fld_ for fld_ in ('rayEndIndexes_', 'rayEndPoint_') if not any(k_[0] == 'this' and str(k_[1]).startswith(fld_) and not (isinstance(v_, sp.Symbol) and v_.name.startswith('this.' + fld_))
                                                                                             for k_, v_ in x.fields.items())]
                    if stale:
                        R.violated('Y4', '%s::setEndPoint:early-return-state' % cname.split('<')[0], 'under `%s` (coincident origin and end point, which the quantifier names) setEndPoint() returns before it has assigned %s: '
                                   'cast() then counts its cells from the end cell of the PREVIOUS cast (computeRayNumberOfCells reads rayEndIndexes_) and steps with the previous crossing parameters - the result has '
                                   'more than one entry and depends on earlier casts [%s]' % (desc, ', '.join(stale), cname), fx.rel(f['loc']), 'E-STATE')
                        continue
                if dist and not exact and not idx_cmp:
                    R.violated('Y4', '%s::setEndPoint:distance-shortcut' % cname.split('<')[0], 'under `%s` setEndPoint() returns before the per-axis initialisation (no stepping is set up); the condition bounds the '
                               'DISTANCE between origin and end, which does not put them in the same cell: a ray shorter than one cell that crosses a border (or several, near a corner) then repeats its origin '
                               'cell instead of moving to the face-adjacent one and does not end in the cell of the end point [%s]' % (desc, cname), fx.rel(f['loc']), 'E-ORD')
                elif idx_cmp or exact:
                    R.holds('Y4', cname + '::setEndPoint:shortcut[%s]' % desc, 'early exit only for equal cell indexes / coincident points', fx.rel(f['loc']), 'E-ORD')
                else:
                    R.undecided('Y4', cname + '::setEndPoint:shortcut', 'early exit under `%s`' % desc)
            states = [x for x in states if not x.returned]
        if len(states) != 1:
            R.undecided('Y4', cname + '::setEndPoint', 'prologue forks')
            return
        paths = rd.ex(L['b'], states[0], ctx)
    except sym.Unsupported as u:
        R.undecided('Y4', cname + '::setEndPoint', 'symbolic reader: %s' % u)
        return
    d = sp.Symbol('rayDirection_[%s]' % iv, real=True)
    res_candidates = None
    for st in paths:
        desc = ' && '.join(('' if c[2] else '!') + '(' + c[0] + ')' for c in st.cond if c[0] not in ('True', 'False'))
        written = {k[1]: val for k, val in st.fields.items() if k[0] == 'this' and k[1].endswith('[%s]' % iv) and not (isinstance(val, sp.Symbol) and val.name == k[1])}
        for fld in STATE_FIELDS:
            key = '%s[%s]' % (fld, iv)
            R.check(key in written, 'Y4', '%s::setEndPoint:%s[%s]' % (cname, fld, desc), 'on the path [%s] %s is not assigned although next() uses it: the value of the previous ray survives' % (desc, key),
                    '%s assigned on this path' % key, fx.rel(f['loc']), 'E-STATE')
    # ---- Y5: sign classification on cells of the direction component ---------------
    consts = set()
    for st in paths:
        for c in st.cond:
            if isinstance(c[1], sp.Basic) and d in c[1].free_symbols:
                for a in c[1].atoms(sp.Number):
                    if a != 0:
                        consts.add(abs(a))
    witnesses = [(-1, -1), (0, 0), (1, 1)]
    for k in sorted(consts):
        witnesses += [(-k / 2, -1), (k / 2, 1)]
    o_sym = sp.Symbol('rayOriginPoint_[%s]' % iv, real=True)
    c_sym = sp.Symbol('rayOriginCellCenterPosition[%s]' % iv, real=True)

    def res_atoms(e):
        """the grid resolution as it appears in an expression: the accessor left uninterpreted (quick tier) or its field once the body is inlined (thorough tier)"""
        return [a for a in e.atoms(sp.core.function.AppliedUndef) if 'getCellResolution' in str(a.func)] + \
            [a for a in e.free_symbols if str(a).endswith('cellResolution_')]

    def feasible(extra, dval, same_cell=False):
        """Extra path conditions (not on the direction alone) are tried on witness origins of the origin cell [centre - res/2, centre + res/2):
        lower border, centre, just below the upper border (res = 1, centre = 0).  Cell indexes of the two points along this axis: the end cell is the origin cell (`same_cell`: the ray crosses no border
        along this axis - possible for every non-zero direction component) or its neighbour in the direction of travel."""
        for ov in (sp.Rational(-1, 2), sp.Integer(0), sp.Rational(49, 100)):
            ok = True
            for (cnd, pol) in extra:
                isub = {}
                for y_ in cnd.free_symbols:
                    if 'rayOriginIndexes_' in y_.name:
                        isub[y_] = sp.Integer(5)
                    elif 'rayEndIndexes_' in y_.name:
                        isub[y_] = sp.Integer(5) if (same_cell or dval == 0) else sp.Integer(6 if dval > 0 else 4)
                v_ = cnd.subs(isub).subs({d: dval, o_sym: ov, c_sym: 0})
                v_ = v_.subs({a_: sp.Integer(1) for a_ in res_atoms(v_)})
                v_ = sp.simplify(v_)
                if v_ not in (sp.true, sp.false):
                    return None
                if bool(v_) != pol:
                    ok = False
                    break
            if ok:
                return ov
        return False
    for (val, want) in witnesses:
        taken = []
        for st in paths:
            truth = True
            extra = []
            for c_ in st.cond:
                if c_[0] in ('True', 'False') or not isinstance(c_[1], sp.Basic):
                    continue
                if c_[1].free_symbols - {d}:
                    extra.append((c_[1], c_[2]))
                    continue
                vv = c_[1].subs(d, val)
                if vv not in (sp.true, sp.false):
                    truth = None
                    break
                if bool(vv) != c_[2]:
                    truth = False
                    break
            if truth is None:
                taken = None
                break
            if truth:
                uses_idx = any('Indexes_' in y_.name for (cnd_, _p) in extra for y_ in cnd_.free_symbols)
                for same_ in ((False, True) if (uses_idx and val != 0) else (False,)):
                    fz = feasible(extra, val, same_) if extra else sp.Integer(0)
                    if fz is None:
                        taken = None
                        break
                    if fz is not False:
                        taken.append((st, fz, extra, same_))
                if taken is None:
                    break
        inst = '%s::setEndPoint:step(direction=%s)' % (cname, sp.nsimplify(val) if val in (-1, 0, 1) else ('%.3g' % float(val)))
        if not taken:
            R.undecided('Y5', inst, 'witness selects no feasible path (or a condition is not evaluable)')
            continue
        for (st, origin_w, extra, same_) in taken:
            tagx = '' if not extra else '[origin at %s of its cell%s]' % ('the lower border' if origin_w == sp.Rational(-1, 2) else 'the centre' if origin_w == 0 else 'the upper end',
                                                                       ', end point in the same cell along this axis' if same_ else '')
            got = st.fields.get(('this', 'rayStep_[%s]' % iv))
            if same_ and want != 0 and got == 0:
                # no border is crossed along this axis: a zero step is sound only if this axis can never be selected, i.e. its first crossing is the largest number
                tm0 = st.fields.get(('this', 'rayTMax_[%s]' % iv))
                never = tm0 is not None and 'numeric_limits' in str(tm0) and 'max' in str(tm0)
                if never:
                    R.holds('Y5', inst + ':no-crossing' + tagx, 'zero step with tMax = max: the axis is never selected', fx.rel(f['loc']), 'E-ORD')
                else:
                    R.violated('Y5', '%s::setEndPoint:zero-step-finite-crossing' % cname, 'for a direction component of %s whose end point lies in the SAME cell along this axis (an oblique ray that crosses no border '
                               'on this axis) the step is 0 but the first crossing parameter is %s, a finite number (conditions %s): next() selects this axis when that number is the smallest, moves by 0 and uses up '
                               'one entry - the chain repeats a cell and stops one cell short of the end point' % ('%.3g' % float(val), str(tm0)[:100], [str(x[0]) for x in extra]), fx.rel(f['loc']), 'E-ORD')
                continue
            R.check(got == want, 'Y5', '%s::setEndPoint:step-sign' % cname if got != want else inst + tagx,
                    'a direction component of %s gets step %s instead of %s: the number of cells still counts the steps along that axis, so the walk overshoots along another one' % (
                        '%.3g' % float(val), got, want), 'step = sign(direction)', fx.rel(f['loc']), 'E-ORD')
            if want == 0 and got == 0:
                # a static axis must never be selected: its first crossing is a constant sentinel (max / infinity), or a quotient by the zero direction that is +infinity for EVERY origin of the closed cell
                # - including an origin on the cell's upper border, where the index map evaluated in floating point can leave a border point (resolutions that are not powers of two)
                tm0 = st.fields.get(('this', 'rayTMax_[%s]' % iv))
                if tm0 is None or ('numeric_limits' in str(tm0) and ('max' in str(tm0) or 'infinity' in str(tm0))) or tm0 == sp.oo or (isinstance(tm0, sp.Basic) and tm0.is_number and tm0 >= 10 ** 30):
                    R.holds('Y5', inst + ':static-axis' + tagx, 'the first crossing of a static axis is a constant sentinel', fx.rel(f['loc']), 'E-ORD')
                elif isinstance(tm0, sp.Basic):
                    badz = None
                    und0 = [a_ for a_ in tm0.atoms(sp.core.function.AppliedUndef) if a_ not in res_atoms(tm0)]
                    if und0:
                        R.undecided('Y5', inst + ':static-axis' + tagx, 'first crossing of a static axis not evaluable: %s' % str(tm0)[:120])
                    else:
                        for sgn in (1, -1):
                            for ov in (sp.Rational(-1, 2), sp.Integer(0), sp.Rational(49, 100), sp.Rational(1, 2)):
                                try:
                                    num_, den_ = sp.fraction(sp.together(tm0.replace(sp.sign, lambda a_: sp.Integer(sgn) if a_ == d else sp.sign(a_))))
                                    sub0 = {o_sym: ov, c_sym: 0}
                                    sub0.update({a_: sp.Integer(1) for a_ in res_atoms(tm0)})
                                    nv = sp.nsimplify(num_.subs(sub0).subs(d, 0))
                                    dv = sp.nsimplify(den_.subs(sub0).subs(d, 0))
                                except Exception:
                                    nv = dv = None
                                if nv is None or not (nv.is_number and dv.is_number):
                                    badz = badz or ('?', ov, sgn)
                                    continue
                                if dv != 0:
                                    val0 = 'finite (%s)' % (nv / dv)
                                elif nv == 0:
                                    val0 = 'NaN (0/0)'
                                elif (nv > 0) == (sgn > 0):
                                    continue                      # +infinity: never selected
                                else:
                                    val0 = '-infinity'
                                badz = badz or (val0, ov, sgn)
                        if badz and badz[0] == '?':
                            R.undecided('Y5', inst + ':static-axis' + tagx, 'first crossing of a static axis not evaluable on the witness origins: %s' % str(tm0)[:120])
                        elif badz:
                            R.violated('Y5', '%s::setEndPoint:static-axis-sentinel' % cname, 'for a direction component of exactly 0 (an axis-aligned ray) the step is 0 and the first crossing of that axis is `%s`: no '
                                       'constant sentinel, but a quotient by the zero direction.  Evaluated in IEEE arithmetic with the origin %s (cell centre 0, resolution 1, direction %s0.0) it is %s, not +infinity: '
                                       'next() compares with it, keeps selecting the axis whose step is 0, and the walk repeats a cell - it does not end in the cell of the end point.  An origin on the upper border is in '
                                       'that cell whenever the index map, in floating point, rounds the border point down (resolutions that are not powers of two)' % (
                                           str(tm0)[:140], 'on the upper border of its cell' if badz[1] == sp.Rational(1, 2) else 'on the lower border of its cell' if badz[1] == sp.Rational(-1, 2) else 'at %s' % badz[1],
                                           '+' if badz[2] > 0 else '-', badz[0]), fx.rel(f['loc']), 'E-STEP')
                        else:
                            R.holds('Y5', inst + ':static-axis' + tagx, 'the first crossing of a static axis is +infinity for every origin of the closed cell', fx.rel(f['loc']), 'E-STEP')
            if want != 0 and got == want:
                tm, td = st.fields.get(('this', 'rayTMax_[%s]' % iv)), st.fields.get(('this', 'rayTDelta_[%s]' % iv))
                if not isinstance(tm, sp.Basic) or not isinstance(td, sp.Basic):
                    R.undecided('Y5', inst + ':formulas' + tagx, 'tMax/tDelta not interpretable')
                    continue
                funcs = res_atoms(td)
                ok = len(funcs) == 1
                if ok:
                    r = funcs[0]
                    ok = sp.simplify(td - r / sp.Abs(d)) == 0 and sp.simplify(tm - (c_sym + want * r / 2 - o_sym) / d) == 0
                if ok:
                    R.holds('Y5', inst + ':formulas' + tagx, 'tMax = (border - origin)/dir ; tDelta = res/|dir|', fx.rel(f['loc']), 'E-ALG')
                    continue
                # table reads the reader leaves uninterpreted (centres[index +- 1], ...): the formula is not comparable symbolically; what IS decidable is the index they are read at
                und = [a_ for a_ in (tm.atoms(sp.core.function.AppliedUndef) | td.atoms(sp.core.function.AppliedUndef)) if a_ not in funcs]
                known = {d, c_sym, o_sym} | {a_ for a_ in funcs if isinstance(a_, sp.Symbol)}
                strange = [y_ for y_ in (tm.free_symbols | td.free_symbols) - known]
                if und or strange:
                    oob = None
                    for a_ in und:
                        if 'operator[]' in str(a_.func) and len(a_.args) == 2 and isinstance(a_.args[1], sp.Basic):
                            osy = [y_ for y_ in a_.args[1].free_symbols if 'rayOriginIndexes_' in y_.name]
                            k_ = sp.simplify(a_.args[1] - osy[0]) if len(osy) == 1 else None
                            if k_ is not None and k_.is_Integer and k_ != 0:
                                oob = oob or (a_, int(k_))
                    guarded = any('rayOriginIndexes_' in y_.name for (cnd_, _p) in extra for y_ in cnd_.free_symbols)
                    if oob and not guarded:
                        R.violated('Y5', '%s::setEndPoint:table-read-out-of-range' % cname, 'for a direction component of %s the first crossing is computed from a per-axis table read at the origin cell index %+d (`%s`), '
                                   'under conditions %s that do not bound that index: a ray whose origin lies in the %s cell of the grid along this axis and whose end point lies in the same cell (both inside the extent, '
                                   'the direction component is not zero) reads entry %s of the table - outside it, the index is unsigned and wraps - so the first crossing, and with it the order of the cells, comes from '
                                   'memory that is not the grid' % ('%.3g' % float(val), oob[1], str(oob[0])[:160], [str(x[0]) for x in extra], 'first' if oob[1] < 0 else 'last', '-1' if oob[1] < 0 else 'N'),
                                   fx.rel(f['loc']), 'E-INT')
                    else:
                        R.undecided('Y5', inst + ':formulas' + tagx, 'tMax/tDelta read quantities the reader does not interpret (%s): not compared with (centre + step*res/2 - origin)/direction' % (
                            ', '.join(str(x_)[:70] for x_ in (und + strange)[:2])))
                elif crossing_equal_by_value(tm, td, d, val, want, o_sym, c_sym, res_atoms):
                    R.holds('Y5', inst + ':formulas' + tagx, 'tMax = (border - origin)/dir ; tDelta = res/|dir| (another spelling, equal on witness origins and resolutions)', fx.rel(f['loc']), 'E-STEP')
                else:
                    R.violated('Y5', '%s::setEndPoint:crossing-parameters' % cname, 'for a direction component of %s and the origin at %s of its cell (conditions %s) tMax = %s, tDelta = %s; the first crossing is '
                               '(centre + step*res/2 - origin)/direction and the increment res/|direction|: every crossing on this axis is then shifted' % (
                                   '%.3g' % float(val), 'the lower border' if origin_w == sp.Rational(-1, 2) else 'the centre' if origin_w == 0 else 'the upper end',
                                   [str(x[0]) for x in extra], tm, td), fx.rel(f['loc']), 'E-ALG')
    # prologue: direction = (end - origin)/norm ; end indexes ; centre of the ORIGIN cell
    ps = stmts_sx(f)
    need = [('expr', ('=', 'this.rayEndPoint_', 'endPoint')),
            ('decl', 'rayOriginCellCenterPosition', ('.computeCellCenterPosition', 'this.gridIndexMapping_', 'this.rayOriginIndexes_')),
            ('decl', 'direction', ('-', 'this.rayEndPoint_', 'this.rayOriginPoint_')),
            ('decl', 'range', ('.norm', 'direction')),
            ('expr', ('=', 'this.rayDirection_', ('/', 'direction', 'range')))]
    endidx = [s for s in ps if s[0] == 'expr' and isinstance(s[1], tuple) and s[1][0] == '=' and s[1][1] == 'this.rayEndIndexes_']
    okp = all(n in ps for n in need) and endidx and endidx[0][1][2] in (('.computeCellIndexes', 'this.gridIndexMapping_', 'this.rayEndPoint_'), ('.computeCellIndexes', 'this.gridIndexMapping_', 'endPoint'))
    if okp:
        R.holds('Y5', cname + '::setEndPoint:prologue', 'direction = (end-origin)/|end-origin|, end cell from the end point, border from the origin cell centre', fx.rel(f['loc']), 'E-ALG')
    else:
        R.undecided('Y5', cname + '::setEndPoint:prologue', 'prologue idiom not recognised: missing %s' % ([n for n in need if n not in ps][:2],))
