"""C15 - scrolling (wrappable) grid: offset algebra and blanking coverage of translate().

Rules (on every instantiation of WrappableGrid<T,2|3>; dead `if (DIM == ..)` arms pruned by the front end's constant)
  O1  wrap map: per axis k, physical[k] = (logical[k] + offset[k]) mod n[k], same k in all three subscripts; both
      operator() and translate's blanking go through it
  O2  accumulation: the new offset[k] reads the old offset[k] and is congruent to offset[k] + d[k] modulo n[k]; no possibly
      negative signed value is converted to unsigned inside a `%` dividend; a signed `%` result converted to unsigned has a
      non-negative dividend
  O3  sign coverage: per axis, the blanking loops driven by d[k] cover both signs (c<d;++c runs iff d>0, c>d;--c iff d<0)
  O4  taint: nothing derived from the offset field reaches the argument of computeCellLinearIndex_/operator() (they add it)
  O5  blanked cells are the entering ones: start at logical 0; d>0: blank then step +1 (mod n[k]); d<0: step -1 (mod n[k]) then blank
  O6  a slab covers the whole cross-section: every blanking store is nested in full-range loops over all other axes
  O7  the offset of an axis is updated after that axis's blanking loops, inside that axis's block
Not decided: equivalence with the sliding-window model over all histories (these are its necessary conditions)."""
import sympy as sp
from .. import sym, eint
from ..tree import sx, pp, walk, strip_casts, short_fn, const_value, stmts, prune
import re

LEVEL = 'other'
UNITS = ['verif:inst_grid.cpp']
ENGINES = 'E-STATE + E-ORD + E-INT + E-SIB over romea-facts'
TECHNIQUE = 'translate() executed on a concrete buffer from every reachable offset state of small grids against the window model (one step from every state: the induction step for sequences; O7), byte fills (memset with a value other than 0) as a fact over every function of the class, guards of every whole-grid clear inside translate() evaluated on translations shorter than the axis, wrapped index evaluated for every size 1..8, offset and logical index; arguments of the offset helper belong to its axis, shortcut branches of translate() and validity flags of the index map evaluated (E-STEP) on (size, offset, translation) triples, virtual dispatch of the accessors the derived grid redefines, early return from a non-last axis phase with a satisfiable guard, contiguous row fill through the wrap map for every axis length and offset, axis-block guard evaluated on 1-cell axes, sign-blind partial blanking range fact, offset helper evaluated on every (n, current, d) cell, sweep of every function read (and its in-repo callees) for frozen function-local statics, single precision inside double computations, lossy copy constructors, presence- or argument-keyed member caches, reference members bound to constructor arguments, loop accumulators that are members, members derived in the constructor and not refreshed by setters, results returned by reference to a member buffer, members filled from an argument under a condition that ignores it, hidden non-virtual base members, self-bound reference members, reductions that accumulate in float; blanking stores resolved through helper calls (default-argument fact), reduced-offset fact, signed-modulus lint only where the value becomes unsigned; wrap-count of every cell access (virtual helpers dispatched to the override); structural dataflow on the instantiated AST of translate()/wrapCellIndexes_(): per-axis loop classification, congruence of the offset update (exact algebra), taint and unsigned-modulus lints'
EXPLANATION = ('translate() and the wrap map are analysed per instantiation: axis blocks, their d-driven loops (sign and trip count), the blanking '
               'stores with their enclosing loops, index start/advance expressions (as exact congruences modulo the axis size), the offset update '
               '(must read the old offset and be congruent to old+d), and taint of offset-derived values into the re-wrapping index function.')
ASSUMPTIONS = ['Eigen operator[]/dot on fixed-size vectors; numberOfCellsAlongAxesMinusOne_ = n - 1 (checked against the constructor)',
               'logical cell indexes handed to computeCellLinearIndex_ are < n (its own assert)']
LEVEL_TEXT = ('Necessary conditions of the sliding-window model decided for all grid sizes, offsets of either sign and all histories at once: wrap map, '
              'offset accumulation as a congruence, sign coverage of the blanking loops, which cells are blanked, slab coverage, ordering. '
              'The bounded-exhaustive history equivalence itself is a model-checking statement and is not claimed.')
LEVEL_NOTE = 'Not decided: full equivalence with the window model over histories. Trusted: clang front end, extractor, sympy exact arithmetic.'

AX = 'xyz'


class Ctx:
    def __init__(self, fx, fn):
        self.fx, self.fn = fx, fn
        self.alias = {}        # decl id -> sympy symbol
        self.rd = sym.Reader(fx, call_hook=self.hook)
        self.st = sym.State()
        self.sctx = {'this': ('this',), 'fn': fn, 'depth': 0}

    def hook(self, rd, e, st, ctx):
        if e.get('k') == 'Op' and e.get('op') in ('[]', '()') and len(e.get('args', [])) == 2:
            base, idx = strip_casts(e['args'][0]), e['args'][1]
            k = const_value(idx)
            if k is not None:
                if base['k'] == 'Member' and base.get('field'):
                    return [(sp.Symbol('%s[%d]' % (base['name'], k), integer=True), st)]
                if base['k'] == 'Ref':
                    return [(sp.Symbol('%s[%d]' % (base['name'], k), integer=True), st)]
        return NotImplemented

    def ev(self, e):
        r = self.rd.ev(e, self.st, self.sctx)
        if len(r) != 1:
            raise sym.Unsupported('expression forks: %s' % pp(e))
        return r[0][0]

    def lhs_symbol(self, e):
        """Symbol denoted by an assignment target (alias local or vector element)."""
        e = strip_casts(e)
        if e['k'] == 'Ref' and e['id'] in self.st.locals:
            v = self.st.locals[e['id']]
            return v if isinstance(v, sp.Symbol) else None
        if e['k'] == 'Op':
            v = self.ev(e)
            return v if isinstance(v, sp.Symbol) else None
        return None


def live(s):
    """Statements of a compound with constant-condition `if`s replaced by their live arm."""
    out = []
    for x in stmts(s):
        if x['k'] == 'If' and const_value(x['c']) is not None:
            arm = x['t'] if const_value(x['c']) else x.get('e')
            out += live(arm)
        elif x['k'] == 'Compound':
            out += live(x)
        else:
            out.append(x)
    return out


def assign_parts(s):
    """(lhs, rhs) if statement s is a plain assignment expression."""
    if s['k'] != 'Expr':
        return None
    e = strip_casts(s['e'])
    if e['k'] == 'Bin' and e['op'] == '=':
        return e['l'], e['r']
    if e['k'] == 'Op' and e['op'] == '=' and len(e['args']) == 2:
        return e['args'][0], e['args'][1]
    return None


def classify_for(C, s):
    """('d', k, sign) | ('range', j) | ('?', reason)"""
    init, cond, inc = s.get('init'), s.get('c'), s.get('inc')
    if init is None or cond is None or inc is None:
        return ('?', 'loop without init/cond/inc')
    cond = strip_casts(cond)
    inc = strip_casts(inc)
    if cond['k'] != 'Bin' or cond['op'] not in ('<', '>', '<=', '>=', '!='):
        return ('?', 'loop condition %s' % pp(cond))
    if inc['k'] != 'Un' or inc['op'] not in ('++', '--'):
        return ('?', 'loop increment %s' % pp(inc))
    var = strip_casts(cond['l'])
    bound = C.ev(cond['r'])
    if strip_casts(inc['e']).get('id') != var.get('id'):
        return ('?', 'increment of another variable')
    if init['k'] == 'Decl' and len(init['vars']) == 1 and init['vars'][0]['id'] == var.get('id'):
        start = const_value(init['vars'][0].get('init'))
        if start != 0:
            return ('?', 'counter does not start at 0')
        if isinstance(bound, sp.Symbol) and bound.name.startswith('indexOffset['):
            k = int(bound.name[len('indexOffset['):-1])
            if cond['op'] == '<' and inc['op'] == '++':
                return ('d', k, '+')
            if cond['op'] == '>' and inc['op'] == '--':
                return ('d', k, '-')
            return ('?', 'offset-driven loop with condition `%s` and `%s`' % (pp(cond), pp(inc)))
        return ('?', 'counter loop bounded by %s' % bound)
    ap = assign_parts(init) if init['k'] == 'Expr' else None
    if ap:
        v = C.lhs_symbol(ap[0])
        if v is not None and v.name.startswith('cellIndexes[') and const_value(ap[1]) == 0 and C.lhs_symbol(var) == v:
            j = int(v.name[len('cellIndexes['):-1])
            if cond['op'] == '<' and inc['op'] == '++' and bound == sp.Symbol('numberOfCellsAlongAxes_[%d]' % j, integer=True):
                return ('range', j)
            if cond['op'] == '<' and inc['op'] == '++' and isinstance(bound, sp.Basic):
                return ('partial', j, bound, 'index loop %s; %s; %s is not the full range of axis %d' % (pp(init['e']), pp(cond), pp(inc), j))
            return ('?', 'index loop %s; %s; %s is not the full range of axis %d' % (pp(init['e']), pp(cond), pp(inc), j))
    return ('?', 'unrecognised loop %s' % pp(cond))


def is_blank(C, s):
    ap = assign_parts(s)
    if not ap:
        # a helper of the same class whose body is one blanking store: the store, with the call's arguments substituted
        e = strip_casts(s.get('e')) if s.get('k') == 'Expr' else None
        if e is not None and e.get('k') == 'MCall' and e.get('inrepo') and e.get('fk') and strip_casts(e['obj']).get('k') == 'This':
            callee = C.fx.functions.get(e['fk']) if hasattr(C, 'fx') else None
            if callee is not None and callee.get('body') is not None:
                st_ = [x for x in live(callee['body'])]
                if len(st_) == 1:
                    inner = is_blank(C, st_[0])
                    if inner:
                        env = {p['id']: (e['args'][i] if i < len(e['args']) else None) for i, p in enumerate(callee.get('params', []))}

                        def subst(n):
                            n0 = strip_casts(n)
                            if n0.get('k') == 'Ref' and n0.get('id') in env and env[n0['id']] is not None:
                                return env[n0['id']]
                            if isinstance(n, dict):
                                return {k_: (subst(v_) if isinstance(v_, dict) else [subst(y_) if isinstance(y_, dict) else y_ for y_ in v_] if isinstance(v_, list) else v_) for k_, v_ in n.items()}
                            return n
                        return subst(inner[0]), subst(inner[1])
        return None
    l = strip_casts(ap[0])
    if l['k'] == 'Op' and l['op'] == '[]' and pp(strip_casts(l['args'][0])) == 'this.buffer_':
        return l['args'][1], ap[1]
    return None


def row_fill(C, s):
    """A helper that blanks one row with a contiguous fill: `idx[a] = v0; first = begin + lin(idx); idx[a] = v1; last = begin + lin(idx); std::fill(first, last + c, value)`.
    With the wrap map lin = ... + ((idx[a] + off[a]) mod n[a]) the physical cells of a row are contiguous only as a SET; the covered range [lin(v0), lin(v1) + c) is evaluated for every axis length 1..4 and
    every offset 0..n-1 against the set of cells of the row.  Returns None (not this idiom) | ('equiv', a, index node, value node) | ('violated', text)."""
    from .C20 import deep_unwrap
    from ..tree import sx
    e = strip_casts(s.get('e')) if s.get('k') == 'Expr' else None
    if not (e is not None and e.get('k') == 'MCall' and e.get('inrepo') and e.get('fk') and strip_casts(e['obj']).get('k') == 'This'):
        return None
    callee = C.fx.functions.get(e['fk']) if hasattr(C, 'fx') else None
    if callee is None or callee.get('body') is None:
        return None
    body = [x for x in live(callee['body'])]
    if len(body) != 5 or [x['k'] for x in body] != ['Expr', 'Decl', 'Expr', 'Decl', 'Expr']:
        return None
    t = [deep_unwrap(sx(x['e'])) if x['k'] == 'Expr' else (x['vars'][0]['name'], deep_unwrap(sx(x['vars'][0]['init'])) if x['vars'][0].get('init') is not None else None) for x in body]
    pn = [p_['name'] for p_ in callee['params']]
    if len(pn) != 2:
        return None

    def axis_store(u):
        if isinstance(u, tuple) and len(u) == 3 and u[0] == '=' and isinstance(u[1], tuple) and u[1][0] == '[]' and u[1][1] == pn[0] and isinstance(u[1][2], int):
            return u[1][2], u[2]
        return None
    s0, s1 = axis_store(t[0]), axis_store(t[2])
    if not s0 or not s1 or s0[0] != s1[0]:
        return None
    a = s0[0]

    def bound(v):
        if isinstance(v, int):
            return lambda n: v
        if isinstance(v, tuple) and v[0] == '[]' and isinstance(v[1], str) and v[1].endswith('numberOfCellsAlongAxesMinusOne_') and v[2] == a:
            return lambda n: n - 1
        if isinstance(v, tuple) and v[0] == '-' and len(v) == 3 and v[2] == 1 and isinstance(v[1], tuple) and v[1][0] == '[]' and str(v[1][1]).endswith('numberOfCellsAlongAxes_') and v[1][2] == a:
            return lambda n: n - 1
        return None
    b0, b1 = bound(s0[1]), bound(s1[1])

    def is_lin(u):
        return isinstance(u, tuple) and len(u) == 3 and u[0] == '+' and isinstance(u[1], tuple) and u[1][0] == '.begin' and str(u[1][1]).endswith('buffer_') and isinstance(u[2], tuple) \
            and str(u[2][0]).endswith('computeCellLinearIndex_') and u[2][-1] == pn[0]
    if b0 is None or b1 is None or not (is_lin(t[1][1]) and is_lin(t[3][1])):
        return None
    f_ = t[4]
    if not (isinstance(f_, tuple) and f_[0] in ('std::fill', 'fill') and len(f_) == 4 and f_[1] == t[1][0] and f_[3] == pn[1]):
        return None
    if f_[2] == t[3][0]:
        extra = 0
    elif isinstance(f_[2], tuple) and f_[2][0] == '+' and f_[2][1] == t[3][0] and isinstance(f_[2][2], int):
        extra = f_[2][2]
    else:
        return None
    for n in (1, 2, 3, 4):
        for o in range(n):
            lo, hi = (b0(n) + o) % n, (b1(n) + o) % n
            covered = set(range(lo, hi + extra))
            if covered != set(range(n)):
                return ('violated', 'the helper %s blanks a row with one contiguous fill from the cell of index %s to the cell of index %s along axis %d; through the wrap map (index + offset) mod n these are the '
                        'physical columns %d and %d when the axis has %d cells and its accumulated index offset is %d, so the filled range [%d, %d) covers %s of the %d cells of the row: the cells that enter the '
                        'window keep their old values whenever the offset of axis %d is not 0' % (callee['name'], s0[1] if isinstance(s0[1], int) else 'n-1', s1[1] if isinstance(s1[1], int) else 'n-1', a, lo, hi, n, o,
                                                                                             lo, hi + extra, 'none' if not covered else sorted(covered), n, a))
    # equivalent to the full-range loop: index node and value node with the call's arguments
    idx_node = None
    for x in walk(body[1]):
        if x.get('k') in ('MCall', 'Call') and str(x.get('m') or x.get('fn') or '').endswith('computeCellLinearIndex_'):
            idx_node = dict(x)
            idx_node['args'] = [e['args'][0]]
    return ('equiv', a, idx_node, e['args'][1]) if idx_node else None


def raw_buffer_access(s):
    """Statement touches this.buffer_ other than through buffer_[computeCellLinearIndex_(..)] and nothing in it depends on the offset field."""
    mentions = any(x.get('k') == 'Member' and x.get('name') == 'buffer_' for x in walk(s))
    if not mentions:
        return False
    through_map = any(x.get('k') == 'MCall' and x.get('m') in ('computeCellLinearIndex_', 'wrapCellIndexes_') for x in walk(s))
    offset_dep = any(x.get('k') == 'Member' and x.get('name') == 'indexOffsetsAlongAxes_' for x in walk(s))
    return not through_map and not offset_dep


def congruent(a, b, n):
    """a == b modulo n for polynomial expressions with Mod(., n) sub-terms (Mod(x,n) ~ x; multiples of n vanish)."""
    def strip_mod(x):
        return x.replace(lambda t: isinstance(t, sp.Mod) and t.args[1] == n, lambda t: t.args[0])
    d = sp.expand(strip_mod(strip_mod(a)) - strip_mod(strip_mod(b)))
    return sp.expand(d.subs(n, 0)) == 0




def sign_blind_partial(j, bound):
    """bound of an index loop over axis j: text when, on witness sizes, it is below n for some offset d of axis j and takes the same value for d and -d"""
    n_ = sp.Symbol('numberOfCellsAlongAxes_[%d]' % j, integer=True)
    nm_ = [a for a in bound.free_symbols if a.name.startswith('numberOfCellsAlongAxesMinusOne_[%d]' % j)]
    off = [a for a in bound.free_symbols if a.name == 'indexOffset[%d]' % j]
    if not off or any(a not in (n_, off[0]) and a not in nm_ for a in bound.free_symbols):
        return None
    short = None
    for n in (2, 3, 4):
        for d in range(1, n):
            env = {n_: n}
            env.update({a: n - 1 for a in nm_})
            ep, em = dict(env), dict(env)
            ep[off[0]], em[off[0]] = d, -d
            vp, vm = bound.subs(ep), bound.subs(em)
            if not (vp.is_Integer and vm.is_Integer) or vp != vm:
                return None
            if vp < n:
                short = short or (n, d, int(vp))
    if short is None:
        return None
    return 'which is %d of the %d columns for an offset of +%d and of -%d alike' % (short[2], short[0], short[1], short[1])


def extra_guard(c):
    """c = (offset[k] != 0) && rest, where rest only involves grid sizes and is false for a 1-cell axis: (k, rest, substitution), else None"""
    if not isinstance(c, sp.And):
        return None
    offs = [a for a in c.args if isinstance(a, sp.Ne) and a.args[1] == 0 and isinstance(a.args[0], sp.Symbol) and a.args[0].name.startswith('indexOffset[')]
    if len(offs) != 1:
        return None
    rest = sp.And(*[a for a in c.args if a is not offs[0]])
    syms = rest.free_symbols
    if not syms or not all('numberOfCells' in a.name for a in syms):
        return None
    sub = {a: (0 if 'MinusOne' in a.name else 1) for a in syms}
    v = rest.subs(sub)
    if v == sp.false:
        return int(offs[0].args[0].name[len('indexOffset['):-1]), rest, sub
    return None


def run(fx, R, tier):
    grids = sorted(q for q in fx.records if q.startswith('romea::core::WrappableGrid<'))
    if len(grids) < 2:
        R.undecided('O1', 'WrappableGrid', 'fewer than two instantiations of WrappableGrid found: %s' % grids)
        return
    R.floor('O3', 10)
    R.floor('O2', 10)
    R.floor('O5', 20)
    for gq in grids:
        rec = fx.records[gq]
        dim = int(gq.rstrip('>').split(',')[-1])
        check_wrap(fx, R, gq, dim)
        check_tables(fx, R, gq, dim)
        check_translate(fx, R, gq, dim)
        if tier != 'quick' or not any(g2 < gq and g2.rstrip('>').split(',')[-1] == gq.rstrip('>').split(',')[-1] for g2 in grids):
            translate_by_value(fx, R, gq, dim, tier)           # quick: one instantiation per dimension (the template body is the same text); thorough: all
        check_dispatch(fx, R, gq)


def check_tables(fx, R, gq, dim):
    """O1 (E-STEP): the two tables every access goes through are evaluated from the constructors on witness sizes: the linear-index coefficients must be (1, n0, n0*n1) and the member the backward
    stepping uses must be n - 1 on every axis (a cell is reached by one storage index only, and (x + n - 1) mod n steps back by one)."""
    from .. import mini
    from .C20 import deep_unwrap as _du
    cname = gname(gq)
    rec = fx.records.get(gq) or {}
    base = (rec.get('bases') or [None])[0]
    inits = [f for f in fx.fn((base or gq) + '::init') if f.get('body') is not None and len(f.get('params', [])) == 1]
    if len(inits) == 1:
        f = inits[0]
        R.used(f)
        bad = why = None
        for sizes in ((3, 4, 5), (1, 1, 1), (8, 2, 7), (2, 5, 3)):
            env = {'this.numberOfCellsAlongAxes_': list(sizes[:dim]), f['params'][0]['name']: list(sizes[:dim]), 'this.indexCoefficients_': [None] * dim, 'DIM': dim}
            S_ = mini.Step(_du)
            S_.hooks['.resize'] = lambda t, env_: 0
            S_.hooks['.prod'] = lambda t, env_: 0
            try:
                S_.call(f['body'], env)
            except (mini.Unsupported, TypeError, IndexError, KeyError) as u:
                why = str(u)[:120]
                break
            want = [1, sizes[0], sizes[0] * sizes[1]][:dim]
            if env['this.indexCoefficients_'] != want:
                bad = bad or (sizes[:dim], env['this.indexCoefficients_'], want)
        if why:
            R.undecided('O1', '%s::init:index-coefficients' % cname, 'constructor helper not steppable: %s' % why)
        elif bad:
            R.violated('O1', '%s::init:index-coefficients' % cname.split('<')[0], 'for a grid of %s cells the linear-index coefficients are set to %s, not %s: two cells share a storage position (or a coefficient is never '
                       'written), so a cell does not read the value it was given' % (bad[0], bad[1], bad[2]), fx.rel(f['loc']), 'E-STEP')
        else:
            R.holds('O1', '%s::init:index-coefficients' % cname, 'coefficients (1, n0, n0 n1) on 4 witness sizes', fx.rel(f['loc']), 'E-STEP')
    for c_ in [f for f in fx.functions.values() if f.get('ctor') and f.get('cls') == gq and f.get('body') is not None and not f.get('copyctor') and len(f.get('params', [])) == 1]:
        R.used(c_)
        init = next((i_ for i_ in c_.get('inits', []) if i_.get('field') == 'numberOfCellsAlongAxesMinusOne_'), None)
        if init is None:
            continue
        bad = why = None
        for n_ in (1, 3, 8):
            S_ = mini.Step(_du)
            for h_ in ('Eigen::DenseBase', 'Ones'):
                pass
            S_.fallback = lambda t, env_: 1 if isinstance(t[0], str) and t[0].endswith('::Ones') else 0 if isinstance(t[0], str) and t[0].endswith('::Zero') else NotImplemented
            try:
                v_ = S_.ev(_du(sx(init['e'])), {'this.numberOfCellsAlongAxes_': n_, c_['params'][0]['name']: n_})
            except (mini.Unsupported, TypeError) as u:
                why = str(u)[:120]
                break
            if v_ != n_ - 1:
                bad = bad or (n_, v_)
        if why:
            R.undecided('O1', '%s:cells-minus-one' % cname, 'initialiser not evaluable: %s' % why)
        elif bad:
            R.violated('O1', '%s:cells-minus-one' % cname.split('<')[0], 'the member the backward stepping uses, numberOfCellsAlongAxesMinusOne_, is initialised to %s for an axis of %d cells, not %d: '
                       '(x + that) mod n does not step back by one cell, so a negative translation blanks other columns than the ones entering the window' % (bad[1], bad[0], bad[0] - 1), fx.rel(c_['loc']), 'E-STEP')
        else:
            R.holds('O1', '%s:cells-minus-one' % cname, 'n - 1 on witness sizes 1, 3, 8', fx.rel(c_['loc']), 'E-STEP')


def check_dispatch(fx, R, gq):
    """O1: the wrappable grid IS-A Grid (public base): every member function of the base that the wrappable grid redefines with the same signature - the cell accessors and the linear-index map, which are what
    applies the index offset - must be virtual in the base, otherwise a call through a Grid reference or pointer reaches the base version, which ignores the offset."""
    rec = fx.records[gq]
    cname = gname(gq)
    for bq in rec.get('bases') or []:
        brec = fx.records.get(bq)
        if not brec:
            continue
        bm = {(m_['name'], m_.get('sig')): m_ for m_ in brec['methods'] if not m_.get('ctor') and not m_['name'].startswith('~')}
        n = 0
        for m_ in rec['methods']:
            if m_.get('ctor') or m_['name'].startswith('~') or m_.get('implicit'):
                continue
            b_ = bm.get((m_['name'], m_.get('sig')))
            if b_ is None:
                continue
            n += 1
            inst = '%s::%s:dispatch' % (cname, m_['name'] + (' const' if m_.get('const') else ''))
            if b_.get('virtual'):
                R.holds('O1', inst, 'overrides the virtual member of %s' % short_fn(bq), None, 'E-SIB')
            else:
                R.violated('O1', '%s:hidden-not-overridden:%s' % (gname(gq).split('<')[0], m_['name'] + (' const' if m_.get('const') else '')),
                           '%s redefines %s `%s`, which is NOT virtual in its public base %s: the derived version - the one that applies the index offset - only hides it, so every access through a '
                           '%s reference or pointer (a function taking the base class, a container of grids) reads and writes the raw buffer as if no translation had happened: surviving cells are found at the '
                           'wrong place as soon as an offset is non-zero [%s]' % (short_fn(gq), m_['name'], m_.get('sig'), short_fn(bq), short_fn(bq).split('<')[0], cname),
                           fx.rel(rec['loc']) if rec.get('loc') else None, 'E-SIB')
        if not n:
            R.undecided('O1', '%s:dispatch' % cname, 'no member of the base %s is redefined: the accessors that apply the offset were not found' % short_fn(bq))


def gname(gq):
    return re.sub(r'<[^,]*, *', '<', short_fn(gq))


def check_wrap(fx, R, gq, dim):
    cname = gname(gq)
    f = fx.one(gq + '::wrapCellIndexes_')
    fl = fx.one(gq + '::computeCellLinearIndex_')
    if f is None or fl is None:
        R.undecided('O1', cname, 'anchor vanished: wrapCellIndexes_/computeCellLinearIndex_')
        return
    R.used(f, fl)
    C = Ctx(fx, f)
    seen = {}
    try:
        for s in live(f['body']):
            ap = assign_parts(s)
            if not ap:
                continue
            lv = C.lhs_symbol(ap[0])
            if lv is None or not lv.name.startswith('wrappredCellIndexes[') and '[' not in lv.name:
                continue
            k = int(lv.name[lv.name.index('[') + 1:-1])
            try:
                rhs = C.ev(ap[1])
            except sym.Unsupported as u_:
                # not one symbolic formula (a helper with a fast path, a conditional): the wrapped index is evaluated (E-STEP) for every grid size of the quantifier (1..8 cells), every offset and every
                # logical index; it must be (logical + offset) mod n
                from .. import mini
                from .C20 import deep_unwrap as _du
                badw = whyw = None
                nw = 0
                for n_ in range(1, 9):
                    for off_ in range(n_):
                        for c_ in range(n_):
                            S_ = mini.Step(_du)
                            S_.fallback = mini.inliner(fx, S_)
                            try:
                                got_ = S_.ev(_du(sx(ap[1])), {'cellIndexes': c_, 'this.indexOffsetsAlongAxes_': off_, 'this.numberOfCellsAlongAxes_': n_, 'this.numberOfCellsAlongAxesMinusOne_': n_ - 1})
                            except (mini.Unsupported, TypeError) as e_:
                                whyw = str(e_)[:120]
                                break
                            nw += 1
                            if got_ != (c_ + off_) % n_:
                                badw = badw or (n_, off_, c_, got_)
                        if whyw:
                            break
                    if whyw:
                        break
                if whyw:
                    R.undecided('O1', '%s::wrapCellIndexes_:axis%d' % (cname, k), '%s; not evaluable either: %s' % (u_, whyw))
                elif badw:
                    R.violated('O1', '%s::wrapCellIndexes_:value' % cname.split('<')[0], 'evaluating the wrapped index of axis %d as written (`%s`) on a grid of %d cells along the axis with offset %d: the logical index %d is '
                               'mapped to storage index %s; (logical + offset) mod n is %d.  Grids of 1..8 cells per axis are inside the quantifier: on that size two logical cells share a storage cell, so surviving '
                               'cells do not read their value and entering cells do not read the empty value' % (k, pp(ap[1])[:120], badw[0], badw[1], badw[2], badw[3], (badw[2] + badw[1]) % badw[0]),
                               fx.rel(s['loc']), 'E-STEP')
                else:
                    R.holds('O1', '%s::wrapCellIndexes_:axis%d' % (cname, k), 'evaluated on every (size 1..8, offset, logical index): (logical + offset) mod n (%d cells)' % nw, fx.rel(s['loc']), 'E-STEP')
                seen[k] = (True, None, s['loc'])
                continue
            want = sp.Mod(sp.Symbol('cellIndexes[%d]' % k, integer=True) + sp.Symbol('indexOffsetsAlongAxes_[%d]' % k, integer=True),
                          sp.Symbol('numberOfCellsAlongAxes_[%d]' % k, integer=True))
            seen[k] = (rhs == want, rhs, s['loc'])
    except sym.Unsupported as u:
        R.undecided('O1', cname, str(u))
        return
    for k in range(dim):
        if k not in seen:
            whole = []
            for x in walk(f['body']):
                if x.get('k') == 'Expr':
                    t_ = sx(x['e'])
                    if isinstance(t_, tuple) and len(t_) == 3 and t_[0] in ('=', '+=') and isinstance(t_[1], str) and 'rapp' in t_[1]:
                        whole.append(t_)
            if whole:
                R.undecided('O1', '%s::wrapCellIndexes_:axis%d' % (cname, k), 'the wrapped vector is written as a whole, not per axis (form not enumerated)')
            else:
                R.violated('O1', '%s::wrapCellIndexes_:axis%d' % (cname, k), 'axis %d is never wrapped (no assignment to the wrapped index %d)' % (k, k), fx.rel(f['loc']), 'E-SIB')
        else:
            ok, rhs, loc = seen[k]
            if rhs is None and ok:
                continue                      # judged by value above
            R.check(ok, 'O1', '%s::wrapCellIndexes_:axis%d' % (cname, k),
                    'wrapped[%d] = %s, expected (logical[%d] + offset[%d]) mod n[%d]' % (k, rhs, k, k, k), 'physical = (logical + offset) mod n, same axis in all subscripts',
                    fx.rel(loc), 'E-SIB')
    # the return value is the wrapped vector; linear index = wrap(...) . coefficients
    rets = [x for x in walk(f['body']) if x.get('k') == 'Return']
    okr = len(rets) == 1 and pp(strip_casts(rets[0]['e'])).endswith('wrappredCellIndexes') or (len(rets) == 1 and 'rapp' in pp(rets[0]['e']))
    R.form(okr, 'O1', '%s::wrapCellIndexes_:return' % cname, 'does not return the wrapped index vector: %s' % [pp(r['e']) for r in rets], 'returns the wrapped vector', fx.rel(f['loc']), 'E-SIB')
    rl = [x for x in walk(fl['body']) if x.get('k') == 'Return']
    txt = pp(rl[0]['e']) if len(rl) == 1 else ''
    okl = 'this.wrapCellIndexes_(' in txt and '.dot(this.indexCoefficients_)' in txt
    if okl or not flag_fast_path(fx, R, gq, cname, fl):
        R.form(okl, 'O1', '%s::computeCellLinearIndex_' % cname, 'linear index is not wrap(indexes).dot(indexCoefficients_): %s' % txt, 'linear = wrap(logical) . coefficients', fx.rel(fl['loc']), 'E-SIB')
    def wraps_expr(e, env, depth=0):
        """number of times the wrap map is applied to the logical index on the way to the storage position; None if not resolved"""
        e = strip_casts(e)
        if e is None or depth > 6:
            return None
        k_ = e.get('k')
        if k_ == 'Construct' and e.get('ctor') in ('copy', 'move') and len(e.get('args', [])) == 1:
            return wraps_expr(e['args'][0], env, depth)
        if k_ == 'Ref' and e.get('id') in env:
            return env[e['id']]
        if k_ == 'Index':
            return wraps_expr(e['idx'], env, depth)
        if k_ == 'Op' and e.get('op') == '[]' and len(e.get('args', [])) == 2 and not e.get('inrepo'):
            return wraps_expr(e['args'][1], env, depth)
        if k_ == 'MCall' and e.get('m') == 'dot' and len(e['args']) == 1 and 'indexCoefficients_' in pp(e['args'][0]):
            return wraps_expr(e['obj'], env, depth)
        if k_ in ('MCall', 'Op') and e.get('inrepo') and e.get('fk'):
            callee = fx.functions.get(e['fk'])
            if callee is not None and callee.get('virtual') and callee.get('cls') != gq:
                # dynamic dispatch on *this (a WrappableGrid): the override of the analysed class is the function that runs
                ov = [g_ for g_ in fx.fn(gq + '::' + callee['name']) if len(g_.get('params', [])) == len(callee.get('params', []))]
                if len(ov) == 1:
                    callee = ov[0]
            args_ = e['args'] if k_ == 'MCall' else e['args'][1:]
            if callee is None or callee.get('body') is None or len(args_) != 1 or len(callee.get('params', [])) != 1:
                return None
            a_ = wraps_expr(args_[0], env, depth + 1)
            if a_ is None:
                return None
            if callee['name'] == 'wrapCellIndexes_':
                return a_ + 1
            rets_ = [x for x in walk(callee['body']) if x.get('k') == 'Return' and x.get('e') is not None]
            if len(rets_) != 1:
                return None
            return wraps_expr(rets_[0]['e'], {callee['params'][0]['id']: a_}, depth + 1)
        return None
    for f2 in fx.fn(gq + '::operator()'):
        R.used(f2)
        t = [pp(x['e']) for x in walk(f2['body']) if x.get('k') == 'Return']
        ok = len(t) == 1 and t[0].replace(' ', '') == 'this.buffer_[this.computeCellLinearIndex_(cellIndexes)]'
        rets2 = [x for x in walk(f2['body']) if x.get('k') == 'Return' and x.get('e') is not None]
        nw = wraps_expr(rets2[0]['e'], {f2['params'][0]['id']: 0}) if len(rets2) == 1 and len(f2.get('params', [])) == 1 else None
        R.form(ok, 'O1', '%s::operator()%s' % (cname, ' const' if f2.get('const') else ''), 'cell access not in the enumerated form: %s' % t, 'buffer_[computeCellLinearIndex_(indexes)]', fx.rel(f2['loc']), 'E-SIB',
               facts=[(nw is not None and nw >= 2, 'the logical index goes through the wrap map %s times on the way to the storage (%s): the index offset is added %s times, so after any translation this overload reads '
                       'another cell than its sibling' % (nw, t, nw)),
                      (nw == 0, 'the logical index reaches the storage without going through the wrap map (%s): the access ignores the index offset' % (t,))])


def check_translate(fx, R, gq, dim):
    cname = gname(gq)
    f = fx.one(gq + '::translate')
    if f is None:
        R.undecided('O2', cname, 'anchor vanished: translate')
        return
    R.used(f)
    whole_grid_facts(fx, R, gq, cname, f)
    C = Ctx(fx, f)
    body = live(f['body'])
    blocks = {}
    unrecognised = False
    try:
        for s in body:
            if s['k'] == 'Decl':
                for v in s['vars']:
                    if v.get('init') is not None and (v['t'].get('ref') or v['t'].get('c') == 'int'):
                        try:
                            val = C.ev(v['init'])
                        except sym.Unsupported:
                            continue
                        if isinstance(val, sp.Symbol) or (isinstance(val, sp.Basic) and not v['t'].get('ref')):
                            C.st.locals[v['id']] = val
            elif s['k'] == 'If':
                c = C.ev(s['c'])
                symb = None
                if isinstance(c, sp.Ne) and c.args[1] == 0 and isinstance(c.args[0], sp.Symbol):
                    symb = c.args[0]
                if symb is None or not symb.name.startswith('indexOffset[') or s.get('e') is not None:
                    # an axis block driven by a REDUCED offset (offset % n): the slab entering the window is min(|d|, n) wide, not |d mod n|
                    red = None
                    if isinstance(c, sp.Ne) and c.args[1] == 0 and isinstance(c.args[0], sp.Basic):
                        offs_ = [a_ for a_ in c.args[0].free_symbols if a_.name.startswith('indexOffset[')]
                        if len(offs_) == 1 and (c.args[0].has(sp.Mod) or any('rem' in str(f_.func) or 'mod' in str(f_.func).lower() for f_ in c.args[0].atoms(sp.core.function.AppliedUndef))):
                            red = offs_[0]
                    if red is not None:
                        k_ = int(red.name[len('indexOffset['):-1])
                        R.violated('O3', '%s::translate:axis%d:reduced-offset' % (cname, k_), 'the blanking of axis %d is driven by `%s`, the offset reduced modulo the number of cells: a translation by d cells moves '
                                   'min(|d|, n) columns out of the window, but only |d mod n| are blanked - for |d| >= n (a whole turn or more, inside the quantifier) stale cells survive although their map '
                                   'location has left the window' % (k_, c.args[0]), fx.rel(s['loc']), 'E-ORD')
                    elif extra_guard(c) is not None:
                        k_, rest_, sub_ = extra_guard(c)
                        R.violated('O3', '%s::translate:axis%d:extra-guard' % (cname, k_), 'the blanking of axis %d runs only when `%s`: besides a non-zero offset it requires %s, which is false for a grid with %s '
                                   '(grids of 1 cell per axis are inside the quantifier); there a non-zero translation along the axis moves every cell out of the window, yet nothing is blanked and the old values '
                                   'keep being read' % (k_, pp(s['c']), rest_, ', '.join('%s = %s' % (a_, b_) for a_, b_ in sub_.items())), fx.rel(s['loc']), 'E-ORD')
                    elif shortcut_branch(fx, R, cname, f, s):
                        continue                       # a shortcut that leaves the function: judged by value on witness translations; the axis blocks are judged as usual
                    else:
                        R.undecided('O3', '%s::translate' % cname, 'top-level branch `%s` is not an axis block `if (offset[k])`' % pp(s['c']))
                    unrecognised = True
                    continue
                k = int(symb.name[len('indexOffset['):-1])
                blocks.setdefault(k, []).append(s)
            elif s['k'] in ('Expr', 'For'):
                ap_ = assign_parts(s) if s['k'] == 'Expr' else None
                if ap_ and pp(strip_casts(ap_[0])) in JUDGED_FLAGS.get(gq, ()):
                    continue                 # a validity flag of the index map: its writers are judged by value with the map (O1)
                R.undecided('O3', '%s::translate' % cname, 'statement outside the axis blocks: %s' % s['loc'])
                unrecognised = True
        for k in range(dim):
            if k not in blocks:
                if unrecognised:
                    R.undecided('O3', '%s::translate:axis%d' % (cname, k), 'no enumerated axis block for axis %d (the function has statements this rule does not read)' % k)
                else:
                    R.violated('O3', '%s::translate:axis%d' % (cname, k), 'no block handles a translation along axis %d' % k, fx.rel(f['loc']), 'E-ORD')
                continue
            if len(blocks[k]) != 1:
                R.undecided('O3', '%s::translate:axis%d' % (cname, k), '%d blocks for one axis' % len(blocks[k]))
                continue
            check_block(fx, R, C, cname, f, k, dim, blocks[k][0])
    except sym.Unsupported as u:
        R.undecided('O3', '%s::translate' % cname, 'symbolic reader: %s' % u)
    # O2 (E-INT part): unsigned modulus lint over translate and the helpers it calls
    fns = [f]
    for x in walk(prune(f['body'])):
        if x.get('k') in ('Call', 'MCall') and x.get('inrepo') and x.get('fk') in fx.functions and 'wrapCellIndexes_' not in (x.get('fn') or '') \
                and 'computeCellLinearIndex_' not in (x.get('fn') or ''):
            fns.append(fx.functions[x['fk']])
    for g in {id(g): g for g in fns}.values():
        R.used(g)
        gbody = prune(g['body'])
        finds, n = eint.modulus_findings(gbody)
        for (node, kind, off) in finds:
            R.violated('O2', '%s::%s:%s:%s' % (cname, g['name'], kind, pp(strip_casts(off))),
                       '`%s`: %s is converted to unsigned inside the dividend and may be negative (wrong for offsets below -n)' % (pp(node), pp(off)) if kind == 'signed-to-unsigned'
                       else '`%s`: unsigned subtraction of %s can wrap before the modulus' % (pp(node), pp(off)), fx.rel(node['loc']), 'E-INT')
        if n and not finds:
            R.holds('O2', '%s::%s:modulus-lint' % (cname, g['name']), '%d `%%` node(s): no negative value enters an unsigned dividend' % n, fx.rel(g['loc']), 'E-INT')
        for (node, why) in signed_mod_to_unsigned(g):
            R.violated('O2', '%s::%s:signed-mod' % (cname, g['name']), why, fx.rel(node['loc']), 'E-INT')


JUDGED_FLAGS = {}


def flag_fast_path(fx, R, gq, cname, fl):
    """The index map skips the wrap under a member flag: `if (!wrapped_) return <plain index>; return wrap(...).dot(...)`.  Skipping is right exactly when every offset is 0, so every writer of the flag is
    evaluated (E-STEP, one generic axis) on witness (cells n, offset o before, translation d): whenever the flag it leaves selects the plain path, the offset after the call, (o + d) mod n, must be 0.
    Returns True when a verdict was given."""
    from .. import mini
    from .C20 import deep_unwrap as _du
    body = live(fl['body'])
    if len(body) != 2 or body[0]['k'] != 'If' or body[0].get('e') is not None or body[1]['k'] != 'Return':
        return False
    tail = pp(body[1]['e'])
    if not ('this.wrapCellIndexes_(' in tail and '.dot(this.indexCoefficients_)' in tail):
        return False
    arm = [x for x in walk(body[0]['t']) if x.get('k') == 'Return' and x.get('e') is not None]
    if len(arm) != 1 or 'wrapCellIndexes_' in pp(arm[0]['e']):
        return False
    c = _du(sx(body[0]['c']))
    if isinstance(c, tuple) and len(c) == 2 and c[0] in ('!', 'u!') and isinstance(c[1], str) and c[1].startswith('this.'):
        flag, plain_when = c[1], False
    elif isinstance(c, str) and c.startswith('this.'):
        flag, plain_when = c, True
    else:
        return False
    inst = '%s::computeCellLinearIndex_:fast-path' % cname
    JUDGED_FLAGS.setdefault(gq, set()).add(flag)
    fname = flag[len('this.'):]
    # writers
    writers = []
    for g in fx.functions.values():
        if g.get('cls') != gq or g.get('body') is None:
            continue
        if g.get('ctor'):
            for i_ in g.get('inits', []):
                if i_.get('field') == fname:
                    writers.append((g, 'init', i_['e'], None))
            continue
        top = live(g['body'])
        for n_, st_ in enumerate(top):
            ap_ = assign_parts(st_) if st_['k'] == 'Expr' else None
            if ap_ and pp(strip_casts(ap_[0])) == flag:
                after = not any(x['k'] == 'If' for x in top[n_ + 1:])
                writers.append((g, 'after' if after else 'before', ap_[1], st_))
        for x in walk(g['body']):
            if x.get('k') == 'Expr' and x not in top:
                ap_ = assign_parts(x)
                if ap_ and pp(strip_casts(ap_[0])) == flag:
                    writers.append((g, 'nested', ap_[1], x))
    if not writers:
        R.undecided('O1', inst, 'the index map takes the plain path under `%s`, a member no function of the class writes' % flag)
        return True
    bad = why = None
    n_ok = 0
    for (g, where, e, st_) in writers:
        if where == 'nested':
            why = why or 'a write of %s inside a branch or loop of %s' % (flag, g['name'])
            continue
        if where == 'init':
            cv = const_value(e)
            if cv is None:
                why = why or 'constructor initialiser of %s not a constant' % flag
            elif bool(cv) == plain_when:
                n_ok += 1              # plain path right after construction: offsets are zero there (checked by O2's constructor state)
            else:
                n_ok += 1
            continue
        pn = [p_['name'] for p_ in g['params']]
        for (n_, o_, d_) in ((3, 1, 0), (3, 0, 0), (3, 0, 1), (3, 1, 2), (3, 2, -2), (4, 1, -5), (3, 1, 3), (2, 1, 1), (5, 0, -5)):
            S_ = mini.Step(_du)
            S_.hooks['.cast'] = lambda t, env: S_.ev(t[1], env)
            o_after = (o_ + d_) % n_
            env = {'this.numberOfCellsAlongAxes_': n_, 'this.indexOffsetsAlongAxes_': o_after if where == 'after' else o_, 'this.numberOfCellsAlongAxesMinusOne_': n_ - 1, flag: False}
            if pn:
                env[pn[0]] = d_
            try:
                v_ = S_.ev(_du(sx(e)), env)
            except (mini.Unsupported, TypeError) as u:
                why = why or '%s = %s in %s is not evaluable: %s' % (flag, pp(e)[:80], g['name'], str(u)[:80])
                break
            n_ok += 1
            if bool(v_) == plain_when and o_after != 0:
                bad = bad or (g, st_, n_, o_, d_, o_after, pp(e))
    if bad:
        g, st_, n_, o_, d_, oa, txt = bad
        R.violated('O1', '%s::computeCellLinearIndex_:fast-path:stale-flag' % cname.split('<')[0], 'the index map skips the wrap while `%s` is %s, and %s() sets that member to `%s`.  On a grid of %d cells per axis whose '
                   'accumulated offset is %d, a translation by %d cells leaves the offset %d and the flag %s: every later access takes the plain path although the offset is not zero - each logical cell reads the value '
                   'of another one, although nothing moved (%s), and the next scroll blanks the wrong cells%s' % (
                       flag, plain_when, g['name'], txt[:100], n_, o_, d_, oa, plain_when, 'a translation by the null vector is inside the quantifier' if d_ == 0 else 'the offset of this call cancels nothing',
                       '.  The flag is computed from the argument of this call, not from the accumulated offset' if (g.get('params') and g['params'][0]['name'] in txt and 'indexOffsetsAlongAxes_' not in txt) else ''),
                   fx.rel((st_ or g)['loc']), 'E-STEP')
        return True
    if why:
        R.undecided('O1', inst, 'the index map takes the plain path under `%s`; %s' % (flag, why))
        return True
    R.holds('O1', inst, 'the plain path is taken only in states whose offset is zero: every writer of `%s` evaluated on %d witness (size, offset, translation) triples' % (flag, n_ok), fx.rel(fl['loc']), 'E-STEP')
    return True


def translate_by_value(fx, R, gq, dim, tier):
    """O7: translate() executed (E-STEP, concrete buffer, helpers of the class inlined) on the property's own bounded quantifier.  For a grid of n cells per axis, EVERY reachable offset state o (0 <= o_k < n_k) is
    set up with every logical cell holding its own label, one translation d is executed, and the result is compared with the window model: the new logical cell c (read through the class's own
    computeCellLinearIndex_) must hold the label of old cell c + d when that lies inside the grid and the empty value otherwise, and the offsets must be (o + d) mod n.  One step from every state with
    arbitrary (all-distinct) contents is the induction step for sequences of any length.  quick: boundary translations (0, +-1, +-(n-1), +-n, +-(n+1)) on a few sizes and one instantiation per dimension; thorough: all 2-D sizes 1..4 (every offset in [-(n+1), n+1] up to 3 cells per axis), more 3-D sizes, every instantiation."""
    from .. import mini
    from ..tree import prune
    from .C20 import deep_unwrap as _du
    import itertools
    cname = gname(gq)
    f = fx.one(gq + '::translate')
    acc = fx.one(gq + '::computeCellLinearIndex_')
    if f is None or acc is None or len(f.get('params') or []) != 2:
        R.undecided('O7', cname + '::translate:by-value', 'anchor vanished: translate / computeCellLinearIndex_')
        return
    pn = [p_['name'] for p_ in f['params']]
    body = prune(f['body'])
    EMPTY = -7
    if dim == 2:
        sizes = [(1, 1), (2, 3), (3, 2)] if tier == 'quick' else [(a, b) for a in range(1, 5) for b in range(1, 5)]
    else:
        sizes = [(1, 1, 1), (2, 1, 3)] if tier == 'quick' else [(1, 1, 1), (2, 1, 3), (3, 2, 2), (1, 3, 2), (2, 2, 2)]
    runs, bad, why = 0, None, None
    for n in sizes:
        coef = [1]
        for k_ in range(1, dim):
            coef.append(coef[-1] * n[k_ - 1])
        cells = list(itertools.product(*[range(x_) for x_ in n]))
        label = {c_: 100 + i_ for i_, c_ in enumerate(cells)}

        def ds(nk):
            full = list(range(-(nk + 1), nk + 2))
            if tier != 'quick' and dim == 2 and max(n) <= 3:
                return full                        # thorough: every offset of the quantifier on the 2-D grids of up to 3 cells per axis, boundary offsets on the others
            return sorted({d_ for d_ in (-(nk + 1), -nk, -(nk - 1), -1, 0, 1, nk - 1, nk, nk + 1) if d_ in full}) if dim == 2 else sorted({-(nk + 1), -1, 0, 1, nk})
        for off in cells:
            for d in itertools.product(*[ds(x_) for x_ in n]):
                if not any(d):
                    continue
                buf = [None] * len(cells)
                for c_ in cells:
                    buf[sum(((c_[k_] + off[k_]) % n[k_]) * coef[k_] for k_ in range(dim))] = label[c_]
                S_ = mini.Step(_du)
                mini.list_hooks(S_, loops=2000)
                S_.fallback = mini.inliner(fx, S_, cls=gq)
                S_.hooks['.dot'] = lambda t, env, S_=S_: sum(a_ * b_ for a_, b_ in zip(S_.ev(t[1], env), S_.ev(t[2], env)))
                S_.hooks['.setValue'] = lambda t, env, S_=S_: [env['this.buffer_'].__setitem__(i_, S_.ev(t[2], env)) for i_ in range(len(env['this.buffer_']))] and None
                env = mini.Env({pn[0]: list(d), pn[1]: EMPTY, 'this.numberOfCellsAlongAxes_': list(n), 'this.numberOfCellsAlongAxesMinusOne_': [x_ - 1 for x_ in n],
                                'this.indexOffsetsAlongAxes_': list(off), 'this.indexCoefficients_': list(coef), 'this.buffer_': buf})
                try:
                    S_.call(body, env)
                    got = {}
                    for c_ in cells:
                        env['__q'] = list(c_)
                        i_ = S_.ev(('.computeCellLinearIndex_', 'this', '__q'), env)
                        got[c_] = env['this.buffer_'][i_] if isinstance(i_, int) and 0 <= i_ < len(buf) else ('index', i_)
                except (mini.Unsupported, mini.Returned, TypeError, KeyError, IndexError, ZeroDivisionError, RecursionError) as ex:
                    why = '%s (grid %s, offsets %s, translation %s)' % (str(ex)[:140], n, off, d)
                    break
                runs += 1
                offs = env['this.indexOffsetsAlongAxes_']
                want_off = [(off[k_] + d[k_]) % n[k_] for k_ in range(dim)]
                if list(offs) != want_off:
                    bad = bad or (n, off, d, 'the reported index offset is %s, the accumulated offset modulo the grid size is %s' % (list(offs), want_off))
                    continue
                for c_ in cells:
                    src = tuple(c_[k_] + d[k_] for k_ in range(dim))
                    want = label[src] if all(0 <= src[k_] < n[k_] for k_ in range(dim)) else EMPTY
                    if got[c_] != want:
                        bad = bad or (n, off, d, 'cell %s reads %s; %s' % (c_, 'the empty value' if got[c_] == EMPTY else ('the value written in old cell %s' % (next((k2 for k2, v2 in label.items() if v2 == got[c_]), '?'),)) if got[c_] in label.values() else got[c_],
                                                                            ('its map location was cell %s before the translation and has stayed inside the window: it must still read that value' % (src,)) if want != EMPTY
                                                                            else 'its map location has just entered the window: it must read the empty value supplied to this translation'))
                        break
            if why:
                break
        if why:
            break
    if why:
        R.undecided('O7', cname + '::translate:by-value', 'translate() not executable on the bounded quantifier: %s' % why)
    elif bad:
        R.violated('O7', '%s::translate:by-value' % cname.split('<')[0], 'executing translate() on a grid of %s cells whose index offset is %s, every cell holding its own label, with the translation %s: %s.  (One step from '
                   'every reachable offset state is the induction step for any sequence of translations and writes) [%s]' % ('x'.join(str(x_) for x_ in bad[0]), list(bad[1]), list(bad[2]), bad[3], cname), fx.rel(f['loc']), 'E-STEP')
    else:
        R.holds('O7', cname + '::translate:by-value', 'translate() executed from every offset state of %d grid sizes, %d (state, translation) pairs: surviving cells keep their value, entering cells read the empty value, '
                'offsets are the accumulated ones modulo the size' % (len(sizes), runs), fx.rel(f['loc']), 'E-STEP')


def whole_grid_facts(fx, R, gq, cname, f):
    """Two facts about translate() and the helpers of the class, whatever the shape of the axis phases.
    O6 byte fill: memset(p, v, n) stores the low byte of v in every byte.  With v = the empty value it gives the empty value back only when all its bytes are equal (0, -1); the property has every empty value.
    O3 whole-grid clear: a call setValue(emptyValue) inside translate() wipes every cell.  The conditions it sits under (bool locals resolved) are evaluated (E-STEP, generic axis) on witness translations
    with 0 < |d| < n, where n - |d| columns stay in the window: the clear must not run."""
    from .. import mini
    from ..tree import prune
    from .C20 import deep_unwrap as _du
    fns_ = [g for g in fx.functions.values() if g.get('cls') == gq and g.get('body') is not None]
    for g in sorted(fns_, key=lambda g: g['q']):
        for y in walk(prune(g['body'])):
            if isinstance(y, dict) and y.get('k') == 'Call' and (y.get('fn') or '').split('::')[-1] in ('memset', 'wmemset') and len(y.get('args', [])) == 3:
                cv = const_value(y['args'][1])
                inst = '%s::%s:byte-fill' % (cname.split('<')[0], g['name'])
                if cv is None or cv != 0:
                    R.violated('O6', inst, '%s() fills cells with `%s`: memset stores the LOW BYTE of its value argument in every byte of the range, not the value in every cell.  For an empty value whose bytes are '
                               'all equal (0, -1) the cells read back as the empty value; for any other (7 -> 0x07070707 = 117901063, 256 -> 0) the cells that enter the window read another number - the property '
                               'has every empty value [%s]' % (g['name'], pp(y)[:120], cname), fx.rel(y.get('loc') or g['loc']), 'E-STATE')
                else:
                    R.undecided('O6', inst, 'cells are zero-filled byte-wise (`%s`); whether all-zero bytes are the empty value of the cell type is not decided' % pp(y)[:100])
    pn = [p_['name'] for p_ in f['params']]
    if len(pn) < 2:
        return
    body = prune(f['body'])
    sites = []

    def visit(node, guards, decls):
        if not isinstance(node, dict):
            return
        k = node.get('k')
        if k == 'Compound':
            local = list(decls)
            for x in node['s']:
                visit(x, guards, local)
                if x.get('k') == 'Decl':
                    local.append(x)
            return
        if k == 'If':
            visit(node.get('t'), guards + [(node['c'], True)], decls)
            visit(node.get('e'), guards + [(node['c'], False)], decls)
            return
        if k in ('For', 'While', 'Do', 'RangeFor'):
            gs = guards + ([(node['c'], True)] if k in ('For', 'While') and node.get('c') is not None else [])
            visit(node.get('b'), gs, decls + ([node['init']] if k == 'For' and node.get('init') is not None and node['init'].get('k') == 'Decl' else []))
            return
        for y in walk(node):
            if isinstance(y, dict) and y.get('k') == 'MCall' and y.get('m') == 'setValue' and strip_casts(y.get('obj') or {}).get('k') == 'This' and len(y.get('args', [])) == 1 \
                    and strip_casts(y['args'][0]).get('name') == pn[1]:
                sites.append((y, list(guards), list(decls)))
    visit(body, [], [])
    for (call, guards, decls) in sites:
        inst = '%s::translate:whole-grid-clear' % cname
        bad = why = None
        n_eval = 0
        for (n_, d_) in ((3, 2), (3, -2), (4, 3), (4, -1), (2, 1), (3, 1), (5, -4)):
            S_ = mini.Step(_du)
            S_.hooks['.cast'] = lambda t, env, S_=S_: S_.ev(t[1], env)
            for nm_ in ('abs', 'std::abs', 'labs', 'std::labs'):
                S_.hooks[nm_] = lambda t, env, S_=S_: abs(S_.ev(t[1], env))
            env = {pn[0]: d_, pn[1]: -777, 'this.numberOfCellsAlongAxes_': n_, 'this.indexOffsetsAlongAxes_': 1 % n_, 'this.numberOfCellsAlongAxesMinusOne_': n_ - 1}
            try:
                for dn in decls:
                    try:
                        S_.run(dn, env)
                    except (mini.Unsupported, TypeError, KeyError):
                        pass
                taken = True
                for (c_, pol) in guards:
                    v_ = S_.ev(_du(sx(c_)), dict(env))
                    if bool(v_) != pol:
                        taken = False
                        break
            except (mini.Unsupported, TypeError, KeyError) as u:
                why = str(u)[:120]
                break
            n_eval += 1
            if taken:
                bad = bad or (n_, d_)
        gtxt = ' && '.join(('' if pol else '!') + pp(c_)[:60] for (c_, pol) in guards) or 'always'
        if why:
            R.undecided('O3', inst, 'translate() clears the whole grid under `%s`; not evaluable: %s' % (gtxt, why))
        elif bad:
            R.violated('O3', '%s::translate:whole-grid-clear' % cname.split('<')[0], 'translate() clears the WHOLE grid (setValue(%s)) under `%s`.  Evaluated on a grid of %d cells per axis and a translation of %d '
                       'cells the clear runs, although %d column(s) of cells stay inside the window: their map location has not left it, so they must keep the value last written - only a translation of at least the '
                       'grid size empties the window [%s]' % (pn[1], gtxt[:200], bad[0], bad[1], bad[0] - abs(bad[1]), cname), fx.rel(call.get('loc') or f['loc']), 'E-STEP')
        else:
            R.holds('O3', inst, 'the whole-grid clear under `%s` does not run on %d witness translations shorter than the axis' % (gtxt[:100], n_eval), fx.rel(call.get('loc') or f['loc']), 'E-STEP')


def shortcut_branch(fx, R, cname, f, node):
    """A top-level `if (cond) { ...; return; }` of translate() in front of the axis phases, evaluated (E-STEP, one generic axis: every axis gets the same numbers) on witness (cells n, accumulated offset o,
    translation d): when the branch is taken the offset it leaves must be (o + d) mod n and the grid must have been blanked as a whole.  Returns True when a verdict was given."""
    from .. import mini
    from .C20 import deep_unwrap as _du
    if node.get('e') is not None or not any(y.get('k') == 'Return' for y in walk(node.get('t') or {})):
        return False
    pn = [p_['name'] for p_ in f['params']]
    if len(pn) < 1:
        return False
    taken, bad, why = 0, None, None
    for (n_, o_, d_) in ((3, 0, 4), (3, 1, 3), (3, 2, -4), (4, 1, -5), (1, 0, 1), (2, 1, 3), (3, 0, 3), (3, 1, 1), (4, 0, -2), (5, 2, 0)):
        S_ = mini.Step(_du)
        calls = []
        for h_ in ('.setValue', '.setConstant_', '.clear', '.blank'):
            S_.hooks[h_] = lambda t, env, h_=h_: calls.append((h_, t[2:])) or 0
        S_.hooks['.setZero'] = lambda t, env: env.__setitem__(S_.key(t[1]), 0) or 0
        S_.hooks['.setConstant'] = lambda t, env: env.__setitem__(S_.key(t[1]), S_.ev(t[2], env)) or 0
        S_.hooks['.fill'] = S_.hooks['.setConstant']
        S_.hooks['.cast'] = lambda t, env: S_.ev(t[1], env)
        env = {pn[0]: d_, 'this.numberOfCellsAlongAxes_': n_, 'this.indexOffsetsAlongAxes_': o_, 'this.numberOfCellsAlongAxesMinusOne_': n_ - 1}
        if len(pn) > 1:
            env[pn[1]] = -777
        try:
            c_ = S_.ev(_du(sx(node['c'])), env)
            if not c_:
                continue
            try:
                S_.run(node['t'], env)
            except mini.Returned:
                pass
        except (mini.Unsupported, TypeError) as u:
            why = str(u)[:140]
            break
        taken += 1
        want = (o_ + d_) % n_
        got = env.get('this.indexOffsetsAlongAxes_')
        blanked = any(h_ == '.setValue' and a_ and a_[0] == pn[-1] for (h_, a_) in calls)
        if got != want:
            bad = bad or ('offset', n_, o_, d_, got, want)
        elif d_ != 0 and abs(d_) < n_ and not bad:
            bad = ('partial', n_, o_, d_, got, want)
        elif abs(d_) >= n_ and not blanked:
            why = why or 'the branch is taken for a translation of %d cells on an axis of %d and no whole-grid blanking with the empty value was recognised in it' % (d_, n_)
    if why:
        R.undecided('O3', '%s::translate:shortcut' % cname, 'branch `%s` in front of the axis phases leaves the function; not evaluable: %s' % (pp(node['c'])[:120], why))
        return True
    if bad and bad[0] == 'offset':
        R.violated('O2', '%s::translate:shortcut:offset' % cname.split('<')[0], 'under `%s` translate() leaves through a shortcut in front of the axis phases.  Evaluated on a grid of %d cells per axis with an accumulated '
                   'offset of %d and a translation of %d cells along every axis the branch is taken and leaves the offset %s; the accumulated offset modulo the grid size is %d.  The cell contents are right (everything '
                   'is blank) but the reported index offset is not the accumulated one, and every later translation accumulates on the wrong origin' % (pp(node['c'])[:160], bad[1], bad[2], bad[3], bad[4], bad[5]),
                   fx.rel(node['loc']), 'E-STEP')
        return True
    if bad:
        R.violated('O3', '%s::translate:shortcut:partial' % cname.split('<')[0], 'under `%s` translate() leaves through a shortcut in front of the axis phases; the branch is taken for a translation of %d cells on a grid '
                   'of %d cells per axis, where %d columns survive: the axis phases that blank exactly the cells that left the window are skipped' % (pp(node['c'])[:160], bad[3], bad[1], bad[1] - abs(bad[3])),
                   fx.rel(node['loc']), 'E-STEP')
        return True
    if taken:
        R.holds('O3', '%s::translate:shortcut' % cname, 'the shortcut `%s` is taken by %d witness translations (all of at least the grid size on every axis): it blanks the grid with the empty value and leaves the '
                'accumulated offset modulo the size' % (pp(node['c'])[:100], taken), fx.rel(node['loc']), 'E-STEP')
        return True
    R.undecided('O3', '%s::translate:shortcut' % cname, 'branch `%s` leaves the function; no witness translation takes it' % pp(node['c'])[:120])
    return True


def signed_mod_to_unsigned(g):
    """A signed `a % n` whose result (possibly through locals) is converted to unsigned must have a >= 0:
    lower bound of each additive term in units of n: unsigned-origin >= 0, (x % n) > -n, n itself = n."""
    out = []
    gb = prune(g['body'])
    # which signed % values are converted to an unsigned integer (cast, unsigned local / member on the receiving side)?
    to_unsigned = set()

    def mark(node, unsigned_ctx):
        if node is None or not isinstance(node, dict):
            return
        k_ = node.get('k')
        if k_ == 'Bin' and node.get('op') == '%' and node['t'].get('signed') and unsigned_ctx:
            to_unsigned.add(id(node))
        if k_ == 'Cast':
            t_ = node.get('t') or {}
            mark(node.get('e'), t_.get('c') == 'int' and t_.get('signed') is False)
            return
        if k_ == 'Decl':
            for v_ in node['vars']:
                t_ = v_.get('t') or {}
                mark(v_.get('init'), t_.get('c') == 'int' and t_.get('signed') is False)
            return
        if k_ == 'Bin' and node.get('op') in ('=', '+=', '-='):
            lt_ = (node.get('l') or {}).get('t') or {}
            mark(node.get('l'), False)
            mark(node.get('r'), lt_.get('c') == 'int' and lt_.get('signed') is False)
            return
        if k_ == 'Bin' and node.get('op') in ('+', '-', '*'):
            mark(node.get('l'), unsigned_ctx)
            mark(node.get('r'), unsigned_ctx)
            return
        from ..tree import children as _ch
        for c_ in _ch(node):
            mark(c_, False)
    mark(gb, False)
    for x in walk(gb):
        if x.get('k') == 'Bin' and x['op'] == '%' and x['t'].get('signed') and id(x) in to_unsigned:
            # is it the outermost signed % (i.e. the one whose value leaves as the result)?
            terms = eint.additive_terms(x['l'])
            mstr = pp(strip_casts(x['r']))
            a = b = 0
            ok = True
            for (s, t) in terms:
                if t is None:
                    ok = False
                    break
                t0 = strip_casts(t)
                cv = const_value(t0)
                if cv is not None:
                    b += s * cv
                elif pp(t0) == mstr and s > 0:
                    a += 1
                elif t0['k'] == 'Bin' and t0['op'] == '%' and pp(strip_casts(t0['r'])) == mstr and s > 0:
                    a -= 1
                    b += 1
                elif s > 0 and _unsigned_origin(t):
                    pass
                else:
                    ok = False
            if not (ok and a >= 0 and a + b >= 0):
                # only matters if this % is not itself nested in a compensated dividend
                out.append((x, 'signed `%s` may have a negative dividend; its (negative) remainder is then used as an unsigned offset' % pp(x)))
    # discard inner % nodes that are terms of an accepted outer one
    accepted_inner = set()
    for x in walk(gb):
        if x.get('k') == 'Bin' and x['op'] == '%' and x['t'].get('signed'):
            for (s, t) in eint.additive_terms(x['l']):
                t0 = strip_casts(t) if t else None
                if t0 is not None and t0.get('k') == 'Bin' and t0['op'] == '%':
                    accepted_inner.add(id(t0))
    return [(n, w) for (n, w) in out if id(n) not in accepted_inner]


def _unsigned_origin(t):
    """A value converted from an unsigned type (or a parameter of unsigned type) is >= 0."""
    while t is not None and t.get('k') in ('Cast', 'DefaultArg'):
        inner = t['e']
        if inner['t'].get('c') == 'int' and not inner['t'].get('signed'):
            return True
        t = inner
    return t is not None and t['t'].get('c') == 'int' and not t['t'].get('signed')


def _guard_witness_step(g, call):
    """E-STEP fallback: the predicate's body is evaluated on witness states of a 3-cell axis (member arrays indexed by a parameter are one generic axis; calls with no value in the abstraction are no-ops)."""
    from .. import mini
    from .C20 import deep_unwrap
    ints = [p_['name'] for p_ in g['params'] if (p_.get('t') or {}).get('c') == 'int' and not (p_.get('t') or {}).get('ref')]
    consts = {}
    for a_, p_ in zip(call.get('args', []), g['params']):
        cv_ = const_value(strip_casts(a_))
        if isinstance(cv_, int) and not isinstance(cv_, bool):
            consts[p_['name']] = cv_
    free = [n_ for n_ in ints if n_ not in consts]
    if len(free) != 1:
        return None
    for d in (3, -3, 4, -5, 1, -1, 2):
        st = mini.Step(deep_unwrap, index_vars=set(consts))
        st.fallback = lambda t, env: 0 if isinstance(t[0], str) and t[0].split('::')[-1].lstrip('.') in ('setValue', 'wrapOffset_', 'fill') else NotImplemented
        env = dict(consts)
        env[free[0]] = d
        for fld_ in ('this.numberOfCellsAlongAxes_', 'numberOfCellsAlongAxes_'):
            env[fld_] = 3
        for fld_ in ('this.numberOfCellsAlongAxesMinusOne_', 'numberOfCellsAlongAxesMinusOne_'):
            env[fld_] = 2
        for fld_ in ('this.indexOffsetsAlongAxes_', 'indexOffsetsAlongAxes_'):
            env[fld_] = 1
        for p_ in g['params']:
            env.setdefault(p_['name'], 0)
        try:
            r_ = st.call(g['body'], env)
        except mini.Unsupported:
            return None
        if r_ is True or r_ == 1:
            return 'for %s = %d on an axis of 3 cells' % (free[0], d)
    return None


def _guard_witness(fx, cond):
    """A satisfying assignment (text) of a guard that is one call of an in-repository predicate (or its negation handled by the reader): the callee is read path by path (E-STATE) and a small-integer
    assignment of its free quantities satisfying the conditions of a path that returns true is searched.  None when nothing could be established."""
    import itertools
    c = strip_casts(cond)
    if c.get('k') not in ('Call', 'MCall'):
        return None
    key = c.get('fk') or c.get('fn')
    cands = [g for g in fx.functions.values() if g.get('body') and (g['q'] == key or g.get('key') == key or g['name'] == (c.get('m') or '').split('::')[-1])]
    cands = [g for g in cands if len(g['params']) == len(c.get('args', []))]
    if len({g['name'] for g in cands}) != 1:
        return None
    args = []
    for a_, p_ in zip(c.get('args', []), cands[0]['params']):
        cv_ = const_value(strip_casts(a_))
        args.append(sp.Integer(cv_) if isinstance(cv_, int) and not isinstance(cv_, bool) else sp.Symbol('arg:' + p_['name'], **({'integer': True} if (p_.get('t') or {}).get('c') == 'int' else {'real': True})))
    try:
        paths = sym.Reader(fx).run(cands[0], args=args)
    except sym.Unsupported:
        return _guard_witness_step(cands[0], c)
    for st in paths:
        if st.ret not in (1, sp.true, sp.Integer(1), True):
            continue
        rels = []
        for cc in st.cond:
            if not isinstance(cc[1], sp.Basic):
                rels = None
                break
            rels.append(cc[1] if cc[2] else sp.Not(cc[1]))
        if rels is None:
            continue
        syms_ = sorted({y for r_ in rels for y in r_.free_symbols}, key=lambda y: y.name)
        if len(syms_) > 4:
            continue
        for vals in itertools.product((3, 1, 2, -3, 4, -1, 0), repeat=len(syms_)):
            sub = dict(zip(syms_, vals))
            if any('ffset' in y.name and v == 0 for y, v in sub.items()):
                continue
            try:
                tv = [alg.interpret(r_.subs(sub)) if hasattr(alg, 'interpret') else r_.subs(sub) for r_ in rels]
                tv = [sp.simplify(t_) for t_ in tv]
            except Exception:
                break
            if all(t_ == sp.true for t_ in tv):
                return 'for ' + ', '.join('%s = %s' % (y.name.replace('arg:', ''), v) for y, v in sub.items())
    return None


def check_block(fx, R, C, cname, f, k, dim, blk):
    inst = '%s::translate:axis%d' % (cname, k)
    nk = sp.Symbol('numberOfCellsAlongAxes_[%d]' % k, integer=True)
    nm1 = sp.Symbol('numberOfCellsAlongAxesMinusOne_[%d]' % k, integer=True)
    idxk = sp.Symbol('cellIndexes[%d]' % k, integer=True)
    offk = sp.Symbol('indexOffsetsAlongAxes_[%d]' % k, integer=True)
    dk = sp.Symbol('indexOffset[%d]' % k, integer=True)
    signs = {}
    events = []          # program-order events
    state = {'start': None, 'tainted_start': None}

    def visit(s, loops, in_d):
        if s is None:
            return
        if s['k'] == 'Compound':
            for x in s['s']:
                visit(x, loops, in_d)
            return
        if s['k'] == 'For':
            cl = classify_for(C, s)
            if cl[0] == '?':
                state['opaque'] = True            # a loop this rule cannot classify may be the blanking loop: its absence is then not established
                R.undecided('O3', inst, '%s at %s' % (cl[1], fx.rel(s['loc'])))
                return
            if cl[0] == 'd':
                if cl[1] != k:
                    R.violated('O3', inst + ':foreign-loop', 'a loop in the block of axis %d is driven by the offset of axis %d' % (k, cl[1]), fx.rel(s['loc']), 'E-ORD')
                    return
                if in_d:
                    R.undecided('O3', inst, 'nested offset-driven loops')
                    return
                ev = {'kind': 'dloop', 'sign': cl[2], 'loc': s['loc'], 'start': state['start'], 'loops': list(loops), 'body': [], 'node': s}
                events.append(ev)
                signs.setdefault(cl[2], []).append(s['loc'])
                for x in stmts(s['b']):
                    visit_body(x, loops + [cl], ev)
                return
            visit(s['b'], loops + [cl], in_d)
            return
        if s['k'] == 'Expr':
            ap = assign_parts(s)
            if ap:
                lv = C.lhs_symbol(ap[0])
                if lv == idxk:
                    state['start'] = (C.ev(ap[1]), s['loc'], ap[1])
                    return
                if lv == offk:
                    events.append({'kind': 'offset', 'rhs': ap[1], 'loc': s['loc'], 'loops': list(loops)})
                    return
            b = is_blank(C, s)
            if b:
                events.append({'kind': 'stray-blank', 'loc': s['loc']})
                return
        if s['k'] == 'Decl':
            for v in s['vars']:
                if v.get('init') is not None and v['t'].get('c') == 'int' and not v['t'].get('ref'):
                    try:
                        val = C.ev(v['init'])
                    except sym.Unsupported:
                        continue
                    if isinstance(val, sp.Basic):
                        C.st.locals[v['id']] = val
            return
        if s['k'] == 'Null':
            return
        # an early exit of translate() from within the phase of an axis that is not the last one: the phases of the later axes (their offset accumulation and their blanking) are skipped
        if s['k'] == 'If' and k < dim - 1 and any(x.get('k') == 'Return' for x in walk(s.get('t'))) and s.get('e') is None:
            later = False
            for x in walk(s['c']):
                if x.get('k') == 'Ref':
                    try:
                        v_ = C.ev(x)
                    except Exception:
                        continue
                    if isinstance(v_, sp.Symbol) and v_.name.startswith('indexOffset[') and int(v_.name[12:-1]) > k:
                        later = True
            wit = None if later else _guard_witness(fx, s['c'])
            if wit:
                R.violated('O3', '%s::translate:early-return' % cname, 'translate() returns from within the phase of axis %d under `%s`, a condition that does not involve the offsets of the later axes and that holds e.g. %s: '
                           'for a translation that also has a non-zero component along axis %d the phases of the later axes are skipped - their index offsets are not accumulated (the reported offset is then '
                           'not the accumulated offset modulo the grid size, for good)' % (k, pp(s['c'])[:120], wit, k + 1), fx.rel(s['loc']), 'E-STATE')
                return
        R.undecided('O3', inst, 'statement not recognised in an axis block: %s' % fx.rel(s['loc']))

    def visit_body(s, loops, ev):
        """Inside a d-loop: sequence of blank (possibly nested in range loops) and the advance of idx_k."""
        if s['k'] == 'Compound':
            for x in s['s']:
                visit_body(x, loops, ev)
            return
        if s['k'] == 'For':
            cl = classify_for(C, s)
            if cl[0] == 'partial':
                why = sign_blind_partial(cl[1], cl[2])
                if why:
                    R.violated('O6', '%s:axis%d-range:sign-blind' % (inst, cl[1]), 'inside the blanking of axis %d the loop over axis %d stops at %s, %s: the cells it leaves out are the same whatever the SIGN of the offset along axis %d, '
                               'but the slab that the pass along axis %d has already blanked lies at opposite ends of the axis for opposite signs (and the two slabs differ for 0 < |d| < n), so for one of the '
                               'signs cells entering the window along axis %d are left with their old values' % (k, cl[1], cl[2], why, cl[1], cl[1], k), fx.rel(s['loc']), 'E-ORD')
                    return
            if cl[0] != 'range':
                R.undecided('O6', inst, 'loop inside an offset loop is not a full-range index loop: %s at %s' % (cl[-1], fx.rel(s['loc'])))
                return
            for x in stmts(s['b']):
                visit_body(x, loops + [cl], ev)
            return
        if s['k'] == 'Expr':
            b = is_blank(C, s)
            if b:
                ev['body'].append(('blank', b, list(loops), s['loc']))
                return
            rf = row_fill(C, s)
            if rf and rf[0] == 'violated':
                R.violated('O6', inst + ':contiguous-row-fill', rf[1], fx.rel(s['loc']), 'E-STEP')
                return
            if rf and rf[0] == 'equiv':
                ev['body'].append(('blank', (rf[2], rf[3]), list(loops) + [('range', rf[1])], s['loc']))
                return
            ap = assign_parts(s)
            if ap and C.lhs_symbol(ap[0]) == idxk:
                ev['body'].append(('advance', C.ev(ap[1]), list(loops), s['loc']))
                return
        if raw_buffer_access(s):
            R.violated('O4', inst + ':raw-buffer-access', 'the grid storage is written directly (%s) with a position that does not go through the wrap map and does not depend on the '
                       'index offset: a logical index is used as a physical one, wrong as soon as the accumulated offset of this axis is non-zero' % pp(s.get('e'))[:160],
                       fx.rel(s['loc']), 'E-STATE')
            return
        R.undecided('O5', inst, 'statement not recognised inside a blanking loop: %s' % fx.rel(s['loc']))

    visit(blk['t'], [], False)

    # ---- O3 sign coverage ------------------------------------------------
    for sg, word in (('+', 'positive'), ('-', 'negative')):
        if sg in signs:
            R.holds('O3', '%s:%s' % (inst, word), 'loop at %s runs |d| times iff d is %s' % (fx.rel(signs[sg][0]), word), fx.rel(signs[sg][0]), 'E-ORD')
        elif state.get('opaque'):
            R.undecided('O3', '%s:%s' % (inst, word), 'no recognised blanking loop for a %s offset along axis %d, but the block contains a loop this rule could not classify' % (word, k))
        else:
            other = signs.get('+' if sg == '-' else '-', [])
            R.violated('O3', '%s:%s' % (inst, word),
                       'no blanking loop has a non-empty trip count for a %s offset along axis %d (loops present: %s): entering cells keep stale values' % (
                           word, k, {s_: [fx.rel(l) for l in ls] for s_, ls in signs.items()}), fx.rel(other[0] if other else blk['loc']), 'E-ORD')
    # ---- per d-loop: O4/O5/O6 ---------------------------------------------
    for ev in events:
        if ev['kind'] == 'stray-blank':
            R.violated('O6', inst + ':stray', 'a cell is blanked outside any offset-driven loop', fx.rel(ev['loc']), 'E-STATE')
        if ev['kind'] != 'dloop':
            continue
        word = 'positive' if ev['sign'] == '+' else 'negative'
        li = '%s:%s' % (inst, word)
        # O4 + O5 start
        st = ev['start']
        if st is None:
            R.violated('O5', li + ':start', 'index of axis %d is not initialised before the %s loop' % (k, word), fx.rel(ev['loc']), 'E-STATE')
        else:
            val, loc, node = st
            tainted = any(x.get('k') == 'Member' and x.get('name') == 'indexOffsetsAlongAxes_' for x in walk(node))
            if tainted:
                R.violated('O4', li + ':start', 'the starting index of the blanking loop is derived from indexOffsetsAlongAxes_ (%s) and is then passed to computeCellLinearIndex_, '
                           'which adds the offset again: the wrong cells are blanked whenever the offset is non-zero' % pp(node), fx.rel(loc), 'E-STATE')
            else:
                R.holds('O4', li + ':start', 'start index %s carries no offset' % val, fx.rel(loc), 'E-STATE')
                R.check(val == 0, 'O5', li + ':start', 'blanking starts at logical index %s, the entering/leaving slab starts at logical 0' % val, 'starts at logical 0', fx.rel(loc), 'E-STATE')
        # body order and advance
        kinds = [b[0] for b in ev['body']]
        want = ['blank', 'advance'] if ev['sign'] == '+' else ['advance', 'blank']
        R.form(kinds == want, 'O5', li + ':order', 'loop body is %s, not the enumerated %s' % (kinds, want), ' then '.join(want), fx.rel(ev['loc']), 'E-STATE',
               facts=[(sorted(kinds) == sorted(want) and kinds != want, 'loop body is %s, the statement needs %s (d>0: blank then step; d<0: step back then blank): the cell blanked is the one next to the '
                       'entering slab' % (kinds, want)),
                      (kinds == ['advance'] and not any('buffer_' in pp(x) or x.get('k') in ('MCall', 'Call', 'Lambda') or (x.get('k') == 'Op' and x.get('op') == '()') for x in walk(ev.get('node') or {})),
                       'the loop only advances the index: nothing is blanked')])
        for b in ev['body']:
            if b[0] == 'advance':
                expr = b[1]
                step = 1 if ev['sign'] == '+' else -1
                e2 = expr.subs(nm1, nk - 1) if isinstance(expr, sp.Basic) else None
                ok = isinstance(e2, sp.Mod) and e2.args[1] == nk and congruent(e2, idxk + step, nk)
                R.check(bool(ok), 'O5', li + ':advance', 'index advance is %s, expected (index %s 1) mod n[%d]' % (expr, '+' if step > 0 else '-', k),
                        'index <- (index %s 1) mod n[%d]' % ('+' if step > 0 else '-', k), fx.rel(b[3]), 'E-ALG')
            if b[0] == 'blank':
                arg, rhs = b[1]
                a = strip_casts(arg)
                okarg = a['k'] == 'MCall' and a.get('m') == 'computeCellLinearIndex_' and len(a['args']) == 1 and pp(strip_casts(a['args'][0])) == 'cellIndexes'
                R.check(okarg, 'O4', li + ':blank-target', 'blanking store addresses %s instead of buffer_[computeCellLinearIndex_(cellIndexes)]' % pp(arg),
                        'buffer_[computeCellLinearIndex_(logical indexes)]', fx.rel(b[3]), 'E-STATE')
                is_default = rhs.get('k') == 'DefaultArg' or (rhs.get('k') == 'Cast' and strip_casts(rhs).get('k') == 'DefaultArg')
                val_txt = pp(strip_casts(rhs)) if not is_default else 'the DEFAULT argument of the helper (%s)' % pp(rhs)
                R.form(pp(strip_casts(rhs)) == 'emptyValue' and not is_default, 'O5', li + ':blank-value', 'blanking value %s not recognised' % val_txt,
                       'blanked with the supplied empty value', fx.rel(b[3]), 'E-STATE',
                       facts=[(is_default, 'the entering cells of this loop are blanked with %s, not with the empty value passed to this translate() call: with a non-default empty value they read the wrong value' % val_txt),
                              (rhs.get('k') in ('Int', 'Float', 'ValueInit', 'Construct') and not is_default, 'the entering cells of this loop are blanked with the constant %s, not with the empty value of this translation' % pp(rhs))])
                axes = sorted(l[1] for l in b[2] if l[0] == 'range')
                need = [j for j in range(dim) if j != k]
                R.check(axes == need, 'O6', li + ':slab', 'blanking store is nested in full-range loops over axes %s, expected %s' % (axes, need),
                        'slab covers the whole cross-section (axes %s)' % need, fx.rel(b[3]), 'E-STATE')
    # ---- O2/O7 offset update --------------------------------------------------
    offs = [e for e in events if e['kind'] == 'offset']
    if len(offs) != 1:
        R.violated('O2', inst + ':offset-update', 'the block of axis %d assigns its offset %d times (expected once, after blanking)' % (k, len(offs)), fx.rel(blk['loc']), 'E-STATE')
        return
    o = offs[0]
    pos = events.index(o)
    after = all(e['kind'] != 'dloop' for e in events[pos + 1:]) and not o['loops']
    R.check(after, 'O7', inst + ':order', 'offset[%d] is updated before (or inside) the blanking loops of its axis, which index through the old offset' % k,
            'offset updated after the blanking loops', fx.rel(o['loc']), 'E-STATE')
    # value rule: an offset update delegated to a helper `h(current offset, d, n)` is evaluated on every (n, current, d) of the bounded-exhaustive
    # part of the quantifier (n = 1..4, current in [0, n), d in [-(2n+1), 2n+1]): the result must be (current + d) mod n in [0, n)
    rn = strip_casts(o['rhs'])
    if rn.get('k') in ('Call', 'MCall') and rn.get('inrepo') and rn.get('fk') and len(rn.get('args', [])) == 3:
        h = fx.functions.get(rn['fk'])
        first = C.ev(rn['args'][0]) if True else None
        if h is not None and h.get('body') is not None and first == offk:
            # the helper must be handed THIS axis' translation and THIS axis' number of cells
            try:
                second, third = C.ev(rn['args'][1]), C.ev(rn['args'][2])
            except sym.Unsupported:
                second = third = None
            if isinstance(third, sp.Basic) and isinstance(second, sp.Basic) and (third != nk or second != dk):
                other_n = isinstance(third, sp.Symbol) and third != nk and 'numberOfCells' in third.name
                other_d = isinstance(second, sp.Symbol) and second != dk and 'indexOffset' in second.name
                if other_n or other_d:
                    R.violated('O2', '%s:offset-helper:wrong-axis' % inst.split(':axis')[0], 'the offset of axis %d is updated with %s(%s): %s.  The accumulated offset is reduced modulo the size of ANOTHER axis - on a grid '
                               'whose sizes differ along the two axes the reported offset is not the accumulated offset modulo the grid size (4x3: three translations by +1 along this axis report 3 instead of 0), and '
                               'after the next wrap surviving cells are read from other positions; square grids are unaffected' % (
                                   k, h['name'], ', '.join(pp(a_) for a_ in rn['args']), 'its last argument is `%s`, not the number of cells along axis %d' % (third, k) if other_n else
                                   'its second argument is `%s`, not the translation along axis %d' % (second, k)), fx.rel(o['loc']), 'E-SIB')
                    return
            from .. import mini
            from .C20 import deep_unwrap
            pn = [p_['name'] for p_ in h['params']]
            bad = why = None
            n_cells = 0
            for n_ in (1, 2, 3, 4, 5, 8):
                for cur in range(n_):
                    for d_ in range(-(2 * n_ + 1), 2 * n_ + 2):
                        try:
                            got = mini.Step(deep_unwrap).call(h['body'], {pn[0]: cur, pn[1]: d_, pn[2]: n_})
                        except mini.Unsupported as e_:
                            why = str(e_)
                            break
                        n_cells += 1
                        if got != (cur + d_) % n_:
                            bad = bad or (n_, cur, d_, got)
                    if why:
                        break
                if why:
                    break
            if why is None:
                if bad:
                    R.violated('O2', '%s:offset-helper' % inst.split(':axis')[0], '%s(current = %d, d = %d, n = %d) returns %s; the accumulated offset modulo the grid size is %d: the reported index offset is wrong after a '
                               'translation by %d on an axis of %d cells whose offset was %d (a reachable state: offsets accumulate over a sequence of translations)' % (
                                   h['name'], bad[1], bad[2], bad[0], bad[3], (bad[1] + bad[2]) % bad[0], bad[2], bad[0], bad[1]), fx.rel(h['loc']), 'E-STEP')
                else:
                    R.holds('O2', inst + ':accumulate', 'new offset reads the old one', fx.rel(o['loc']), 'E-STATE')
                    R.holds('O2', inst + ':congruence', '%s(current, d, n) = (current + d) mod n on %d cells (n = 1..5, 8; every current; d in [-(2n+1), 2n+1])' % (h['name'], n_cells), fx.rel(o['loc']), 'E-STEP')
                return
    try:
        rhs = C.ev(o['rhs'])
    except sym.Unsupported as u_:
        R.undecided('O2', inst + ':accumulate', 'offset update not interpretable: %s' % u_)
        return
    if not isinstance(rhs, sp.Basic):
        R.undecided('O2', inst + ':accumulate', 'offset update not interpretable: %s' % pp(o['rhs']))
        return
    if offk not in rhs.free_symbols:
        R.violated('O2', inst + ':accumulate', 'offset[%d] is assigned `%s`, which does not read the previous offset: the reported offset is only right for the first translation' % (k, pp(o['rhs'])),
                   fx.rel(o['loc']), 'E-STATE')
    else:
        R.holds('O2', inst + ':accumulate', 'new offset reads the old one', fx.rel(o['loc']), 'E-STATE')
        r2 = rhs.replace(lambda t: t.func == sp.Function('trunc'), lambda t: t.args[0])
        ok = congruent(r2, offk + dk, nk) and isinstance(r2, sp.Mod) and r2.args[1] == nk
        R.check(ok, 'O2', inst + ':congruence', 'new offset %s is not (offset + d) mod n[%d]' % (rhs, k), 'offset <- (offset + d) mod n', fx.rel(o['loc']), 'E-ALG')
